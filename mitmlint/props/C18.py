"""C18 - ALPN negotiation with the client is consistent with offers and upstream.

Every rule compares semantics, not shape: the callback and the wiring are *executed* on abstract inputs (mitmlint/pyint.py follows
self. / module helpers, module constants, match, comprehensions, generators by itself; logging is a no-op), never matched textually.

Decided:
  R18.1 provenance of the answer of ``alpn_select_callback``: every path of the callback is executed abstractly (class _Prov) - a value is
        MEM when it is proven equal to an element of the ``options`` the callback was given (loop variable over the offers or over a
        comprehension / generator / filter / slice / sorted / intersection of them, ``next()`` / indexing of such a list, a name or
        access path for which ``x in <offers>`` holds on the path - also through not/and/or, ``any(x == o for o in offers)``,
        single-expression helper predicates - captures of ``match``, helper functions of the module summarised on the abstract
        arguments).  A return is proven when it is MEM or ``SSL.NO_OVERLAPPING_PROTOCOLS`` on every path => selected in offered or
        none for *all* inputs.  Where the path proof does not apply (a construction it cannot follow) the return is decided by the
        exhaustive interpretation of R18.2's domain instead (said so in the evidence); a violation is only ever reported together
        with a concrete counterexample (offers, app data, answer).
  R18.2 decision table: ``alpn_select_callback`` is interpreted (pyint; anything it does not model is an ANALYSIS-ERROR) for every offer
        list of length <= 3 (quick: <= 2) over the protocol classes {h2, h3, http/1.1, http/1.0, http/0.9, unknown} plus every other
        protocol constant the callback or HTTP_ALPNS names, client_alpn in {None, b"", each offered, not offered}, server_alpn in
        {None, b"", each offered, each known-but-not-offered}, http2 in {T, F}.  Expected:
          client override set      -> it if offered else none          (an addon / the secure-web-proxy rule chose it explicitly)
          upstream protocol known  -> it if offered else none          (F-C18 was the "else" falling through; repaired, mutant kept)
          upstream negotiated none -> none
          upstream unknown         -> a member of HTTP_ALPNS (http2 on) / HTTP1_ALPNS (http2 off) that was offered - the client's first
                                      such offer - and none iff there is no such offer; never h2 with http2 off.
        plus the constants: HTTP1_ALPNS contains neither h2 nor h3.  Additional (informational) AppData fields and the logging
        configuration must make no difference: the table is re-decided for each of their values.
  R18.3 wiring in ``TlsConfig``: on every path on which ``tls_start_client`` creates the connection it stores exactly one app data object
        (AppData(...) / dict, in place or via a local) on that connection, with server_alpn = ``server.alpn`` of the context's server and
        http2 = the option (values resolved through local aliases); client_alpn - the statements computing it are interpreted, helpers
        included - is b"http/1.1" exactly in the worlds where the layer stack (read from next_layer.py) is the outer connection of a
        secure web proxy and ``client.alpn`` otherwise; the callback is handed to ``create_client_proxy_context`` (in tls_start_client or
        a helper), which installs it on every path possible when it is given; ``tls_start_server`` (statements setting alpn_offers,
        interpreted, helpers included) never mirrors ``h2`` upstream with http2 off.
  R18.4 ``ClientTLSLayer.__init__`` resets, for TLS-over-TLS, every client attribute the override depends on (dependence found by
        re-computing the override with one attribute of an established session changed at a time) and afterwards the override equals
        that of a fresh connection.
Not decided: OpenSSL calling the callback / honouring its answer (library).
"""

from __future__ import annotations

import ast
import builtins
import copy
import itertools
from types import SimpleNamespace

from ..core import AnalysisError
from ..core import norm
from ..model import attr_chain
from ..model import call_name
from ..model import calls_in
from ..model import eval_order
from ..model import last_attr
from ..paths import R
from ..paths import traces_of
from ..pyint import ClassRef
from ..pyint import Func
from ..pyint import Interp
from ..pyint import Raised
from ..pyint import Rec
from ..pyint import _Return as _PyReturn
from ..selftest import Mutant
from ._helpers_B import feasible
from ._helpers_B import FlowSpec
from ._helpers_B import module_const

PROP = "C18"
REG = {
    "strength": "strong",
    "technique": "abstract execution of every path of the callback (provenance of the answer: membership facts, comprehensions, match, helpers; fallback: exhaustive "
    "interpretation, alarms only with a counterexample) + exhaustive decision table by AST interpretation (pyint) over a finite protocol-class domain + "
    "dataflow / interpretation of the AppData wiring on layer stacks read from next_layer.py",
    "claim": "alpn_select_callback returns an offered protocol or NO_OVERLAPPING_PROTOCOLS on every path; over the finite class domain it "
    "implements exactly the override / upstream-known / upstream-none / generic table of the property; tls_start_client feeds it "
    "client_alpn=http/1.1 exactly for the secure-web-proxy outer connection, server.alpn and the http2 option; h2 is not mirrored upstream with http2 off.",
    "note": "The table quantifies over protocol classes (one representative per class, offer lists up to length 3); R18.1 covers arbitrary values. "
    "A client override takes precedence over a known upstream protocol (by design: it is set explicitly).",
}
T = "mitmproxy/addons/tlsconfig.py"
PT = "mitmproxy/proxy/layers/tls.py"
NT = "mitmproxy/net/tls.py"

NONE = "<NO_OVERLAPPING_PROTOCOLS>"
H2, H3, H11, H10, H09, UNK = b"h2", b"h3", b"http/1.1", b"http/1.0", b"http/0.9", b"x-unknown"
CLASSES = (H2, H3, H11, H10, H09, UNK)


# ---- the semantic engine shared by R18.1 (fallback), R18.2, R18.3 and R18.4 ---------------------------


class _NullLogger:
    """`logging` has no effect on the decision: every logging call is a no-op; ``isEnabledFor`` answers what the rule chooses."""

    def __init__(self, enabled):
        self._enabled = enabled
        self.asked = False

    def _noop(self, *a, **k):
        return None

    debug = info = warning = warn = error = critical = exception = log = _noop

    def isEnabledFor(self, *a):
        self.asked = True
        return self._enabled

    def getEffectiveLevel(self):
        self.asked = True
        return 10 if self._enabled else 30

    def getChild(self, *a):
        return self


_SSL = SimpleNamespace(NO_OVERLAPPING_PROTOCOLS=NONE)


class _Sem(Interp):
    """pyint with (a) a null ``logging`` and the one pyOpenSSL constant of the callback, (b) generator expressions as single-pass
    iterators (``next(gen, default)``), (c) ``A | B`` of classes as the isinstance union, (d) a record of which ``return`` statement
    of the function under test produced the answer."""

    def __init__(self, model, log_enabled=True, own_returns=()):
        self.logger = _NullLogger(log_enabled)
        lg = self.logger
        logging_stub = SimpleNamespace(DEBUG=10, INFO=20, WARNING=30, WARN=30, ERROR=40, CRITICAL=50, NOTSET=0, getLogger=lambda *a: lg,
                                       debug=lg._noop, info=lg._noop, warning=lg._noop, error=lg._noop, log=lg._noop, exception=lg._noop, critical=lg._noop)
        super().__init__(model, trusted_modules={"logging": logging_stub, "OpenSSL.SSL": _SSL, "OpenSSL": SimpleNamespace(SSL=_SSL)})
        self.own_returns = {id(n) for n in own_returns}
        self.last_ret = None

    def stmt(self, st, env, mod, depth):
        if isinstance(st, ast.Return) and id(st) in self.own_returns:
            self.last_ret = st
        return super().stmt(st, env, mod, depth)

    def comp(self, e, env, mod, depth):
        out = super().comp(e, env, mod, depth)
        return iter(out) if isinstance(e, ast.GeneratorExp) else out

    def binop(self, op, l, r, node):
        if isinstance(op, ast.BitOr) and all(isinstance(x, (ClassRef, type)) or (isinstance(x, tuple) and x and all(isinstance(y, (ClassRef, type)) for y in x)) for x in (l, r)):
            flat = []
            for x in (l, r):
                flat.extend(x if isinstance(x, tuple) else [x])
            return tuple(flat)  # isinstance(v, A | B) == isinstance(v, (A, B))
        return super().binop(op, l, r, node)

    def native_call(self, f, args, kwargs, where):
        if isinstance(getattr(f, "__self__", None), _NullLogger):
            return f(*args, **kwargs)
        if f in (sorted, min, max) and isinstance(kwargs.get("key"), Func):
            key = kwargs["key"]
            kwargs = {**kwargs, "key": lambda x: self.apply(key, [x], {}, 1)}
        return super().native_call(f, args, kwargs, where)

    def name(self, ident, env, mod, depth, node):
        try:
            return super().name(ident, env, mod, depth, node)
        except AnalysisError:
            if ident in ("filter", "map"):
                return ("$builtin", ident)
            raise

    def builtin(self, name, args, kwargs, e, env, mod, depth):
        if name == "filter" and len(args) == 2:
            items = self.iterate(args[1], e)
            return iter([x for x in items if self.truthy(x if args[0] is None else self.apply(args[0], [x], {}, depth, e))])
        if name == "map" and len(args) == 2:
            return iter([self.apply(args[0], [x], {}, depth, e) for x in self.iterate(args[1], e)])
        return super().builtin(name, args, kwargs, e, env, mod, depth)


def _own_returns(fn):
    """Return statements of ``fn`` itself (not of nested functions / lambdas)."""
    out = []

    def rec(n):
        for c in ast.iter_child_nodes(n):
            if isinstance(c, (ast.FunctionDef, ast.AsyncFunctionDef, ast.Lambda, ast.ClassDef)):
                continue
            if isinstance(c, ast.Return):
                out.append(c)
            rec(c)

    rec(fn)
    return out


# ---- R18.1: provenance of the returned value (abstract execution of every path) ------------------------
#
# Abstract values: a frozenset of alternatives for a scalar -
#     MEM  "equal to an element of the offers the callback was given"      NOV  SSL.NO_OVERLAPPING_PROTOCOLS
#     ("c", k)  the constant k                                             ANY  anything
# SUB for an iterable all of whose elements are MEM (the offers themselves, a comprehension / generator / filter / slice / sorted /
# set-intersection of them, a list literal of proven members ...), ("tup", items) for a tuple display.
# Conditions refine the environment on both branches (`x in <SUB>`, `x not in <SUB>`, `is None`, `== const`, truthiness, not/and/or,
# `any(x == o for o in <SUB>)`, single-expression helper predicates by substitution); loops are run to a fixpoint; helpers of the same
# module are summarised by executing them on the abstract arguments.  A return is *proven* when its value is within {MEM, NOV} on every
# path.  Whatever the executor cannot follow ends the proof attempt (_NoProof): the return sites are then decided by the exhaustive
# interpretation of R18.2's domain - never by a guess and never by an alarm without a concrete counterexample.

MEM, NOV, ANY = "member", "none", "?"
SUB = ("sub",)
UNKNOWN = frozenset([ANY])
_SUB_KEEPING = ("list", "tuple", "sorted", "reversed", "iter", "set", "frozenset")
_PURE_METHODS = {
    "get", "keys", "values", "items", "copy", "index", "count", "startswith", "endswith", "decode", "encode", "lower", "upper", "strip",
    "split", "join", "format", "get_app_data", "isEnabledFor", "hex", "isdisjoint", "issubset", "issuperset",
}


class _NoProof(Exception):
    pass


def _A(*atoms):
    return frozenset(atoms)


def _scalar(v):
    return isinstance(v, frozenset)


def _tup(v):
    return isinstance(v, tuple) and len(v) == 2 and v[0] == "tup"


def _has_sub(v):
    return v == SUB or (_tup(v) and any(_has_sub(x) for x in v[1]))


def _join(a, b):
    if a == b:
        return a
    if _scalar(a) and _scalar(b):
        return UNKNOWN if ANY in a or ANY in b else a | b
    if _tup(a) and _tup(b) and len(a[1]) == len(b[1]):
        return ("tup", tuple(_join(x, y) for x, y in zip(a[1], b[1])))
    return UNKNOWN


def _members_only(v):
    return _scalar(v) and bool(v) and v <= {MEM}


def _same_const(a, b):
    return type(a) is type(b) and a == b


def _path_key(k):
    return "." in k or "[" in k


def _join_env(a, b):
    out = {}
    for k in set(a) | set(b):
        if k in a and k in b:
            out[k] = _join(a[k], b[k])
        elif not _path_key(k):
            out[k] = a.get(k, b.get(k))  # a local bound on one side only: using it on the other side raises NameError
    return out


def _dedup(envs):
    seen, out = set(), []
    for e in envs:
        k = frozenset(e.items())
        if k not in seen:
            seen.add(k)
            out.append(e)
    return out


class _Subst(ast.NodeTransformer):
    def __init__(self, mapping):
        self.mapping = mapping

    def visit_Name(self, n):
        return copy.deepcopy(self.mapping[n.id]) if n.id in self.mapping else n


class _Prov:
    def __init__(self, mod, fn):
        self.mod = mod
        self.fn = fn
        self.steps = 0
        self.depth = 0
        self.local_funcs = {}
        self._modvals = {}

    # -- keys / lookup ---------------------------------------------------------------------------
    def key(self, e):
        if isinstance(e, ast.Name):
            return e.id
        if isinstance(e, ast.Attribute):
            k = self.key(e.value)
            return f"{k}.{e.attr}" if k else None
        if isinstance(e, ast.Subscript) and isinstance(e.slice, ast.Constant):
            k = self.key(e.value)
            return f"{k}[{e.slice.value!r}]" if k else None
        return None

    def root(self, e):
        while isinstance(e, (ast.Attribute, ast.Subscript, ast.Call)):
            e = e.func if isinstance(e, ast.Call) else e.value
        return e.id if isinstance(e, ast.Name) else None

    def is_logging(self, name, _depth=0):
        """is the module-level name ``name`` the logging module or a logger obtained from it?"""
        if name is None or _depth > 3:
            return False
        if self.mod.imports.get(name, "").split(".")[0] == "logging":
            return True
        vals = self.mod.assigns(name)
        return len(vals) == 1 and isinstance(vals[0], ast.Call) and self.is_logging(self.root(vals[0]), _depth + 1)

    def modval(self, name):
        if name not in self._modvals:
            self._modvals[name] = UNKNOWN  # recursion guard
            vals = self.mod.assigns(name)
            if len(vals) == 1:
                try:
                    self._modvals[name] = self.ev(vals[0], {})
                except _NoProof:
                    pass
        return self._modvals[name]

    def bind(self, env, name, v):
        for k in [k for k in env if k.startswith(name + ".") or k.startswith(name + "[")]:
            del env[k]
        env[name] = v

    def drop_paths(self, env):
        for k in [k for k in env if _path_key(k)]:
            del env[k]

    def tick(self):
        self.steps += 1
        if self.steps > 60000:
            raise _NoProof("path enumeration bound exceeded")

    # -- expressions -----------------------------------------------------------------------------
    def ev(self, e, env):
        v = self._ev(e, env)
        if isinstance(e, (ast.BoolOp, ast.IfExp, ast.ListComp, ast.SetComp, ast.GeneratorExp, ast.DictComp)):
            # operands evaluated conditionally / in a scope of their own: what they bind with := is not known afterwards
            # (a condition on `(y := ...)` still refines y on its branches)
            first = e.values[0] if isinstance(e, ast.BoolOp) else (e.test if isinstance(e, ast.IfExp) else None)
            always = {id(n) for n in ast.walk(first)} if first is not None else set()
            for n in ast.walk(e):
                if isinstance(n, ast.NamedExpr) and id(n) not in always:
                    self.bind(env, n.target.id, UNKNOWN)
        return v

    def _ev(self, e, env):
        self.tick()
        if e is None:
            return _A(("c", None))
        if isinstance(e, ast.Constant):
            try:
                hash(e.value)
            except TypeError:
                return UNKNOWN
            return _A(("c", e.value))
        if isinstance(e, ast.Name):
            if e.id in env:
                return env[e.id]
            if e.id in ("True", "False", "None"):
                return _A(("c", {"True": True, "False": False, "None": None}[e.id]))
            return self.modval(e.id)
        if isinstance(e, ast.Attribute):
            if e.attr == "NO_OVERLAPPING_PROTOCOLS":
                return _A(NOV)
            self.ev(e.value, env)
            k = self.key(e)
            return env.get(k, UNKNOWN) if k else UNKNOWN
        if isinstance(e, ast.Subscript):
            base = self.ev(e.value, env)
            if isinstance(e.slice, ast.Slice):
                for x in (e.slice.lower, e.slice.upper, e.slice.step):
                    if x is not None:
                        self.ev(x, env)
                return SUB if base == SUB else UNKNOWN
            idx = self.ev(e.slice, env)
            if base == SUB:
                return _A(MEM)  # or IndexError
            if _tup(base):
                if _scalar(idx) and len(idx) == 1:
                    (a,) = idx
                    if isinstance(a, tuple) and a[0] == "c" and isinstance(a[1], int) and not isinstance(a[1], bool) and -len(base[1]) <= a[1] < len(base[1]):
                        return base[1][a[1]]
                out = None
                for x in base[1]:
                    out = x if out is None else _join(out, x)
                return out if out is not None else UNKNOWN
            k = self.key(e)
            return env.get(k, UNKNOWN) if k else UNKNOWN
        if isinstance(e, ast.IfExp):
            self.ev(e.test, env)
            parts = []
            for truth, branch in ((True, e.body), (False, e.orelse)):
                env2 = self.refine(e.test, env, truth)
                if env2 is not None:
                    parts.append(self.ev(branch, env2))
            out = None
            for p in parts:
                out = p if out is None else _join(out, p)
            return out if out is not None else UNKNOWN
        if isinstance(e, ast.BoolOp):
            is_or = isinstance(e.op, ast.Or)
            cur = env
            out = None
            for i, sub in enumerate(e.values):
                if cur is None:
                    break
                v = self.ev(sub, cur)
                last = i == len(e.values) - 1
                if not last and _scalar(v):
                    # `a or b` yields a only when it is truthy, `a and b` yields a only when it is falsy
                    v = frozenset(a for a in v if self.truth(a) in ((True, None) if is_or else (False, None)))
                    contributes = bool(v)
                else:
                    contributes = True
                if contributes:
                    out = v if out is None else _join(out, v)
                if not last:
                    cur = self.refine(sub, cur, not is_or)
            return out if out is not None else UNKNOWN
        if isinstance(e, ast.NamedExpr):
            v = self.ev(e.value, env)
            self.bind(env, e.target.id, v)
            return v
        if isinstance(e, ast.Tuple):
            if any(isinstance(x, ast.Starred) for x in e.elts):
                vals = [self.ev(x.value if isinstance(x, ast.Starred) else x, env) for x in e.elts]
                return SUB if all(v == SUB if isinstance(x, ast.Starred) else _members_only(v) for x, v in zip(e.elts, vals)) else UNKNOWN
            return ("tup", tuple(self.ev(x, env) for x in e.elts))
        if isinstance(e, (ast.List, ast.Set)):
            vals = [self.ev(x.value if isinstance(x, ast.Starred) else x, env) for x in e.elts]
            return SUB if all(v == SUB if isinstance(x, ast.Starred) else _members_only(v) for x, v in zip(e.elts, vals)) else UNKNOWN
        if isinstance(e, (ast.ListComp, ast.SetComp, ast.GeneratorExp, ast.DictComp)):
            scope = dict(env)
            for g in e.generators:
                if g.is_async:
                    raise _NoProof("async comprehension")
                itv = self.ev(g.iter, scope)
                self.assign(g.target, self.element_of(itv), scope)
                for c in g.ifs:
                    self.ev(c, scope)
                    nxt = self.refine(c, scope, True)
                    if nxt is None:
                        return SUB  # the filter never holds: the result is empty
                    scope = nxt
            if isinstance(e, ast.DictComp):
                self.ev(e.key, scope)
                self.ev(e.value, scope)
                return UNKNOWN
            return SUB if _members_only(self.ev(e.elt, scope)) else UNKNOWN
        if isinstance(e, ast.BinOp):
            l, r = self.ev(e.left, env), self.ev(e.right, env)
            if isinstance(e.op, (ast.Add, ast.BitOr)) and l == SUB and r == SUB:
                return SUB
            if isinstance(e.op, ast.BitAnd) and SUB in (l, r):
                return SUB
            if isinstance(e.op, ast.Sub) and l == SUB:
                return SUB
            return UNKNOWN
        if isinstance(e, ast.Call):
            return self.call(e, env)
        if isinstance(e, (ast.Await, ast.Yield, ast.YieldFrom)):
            raise _NoProof("the callback became a coroutine / generator")
        if isinstance(e, ast.Lambda):
            if any(isinstance(n, ast.Call) and isinstance(n.func, ast.Attribute) and n.func.attr in ("append", "extend", "insert", "add", "update") for n in ast.walk(e.body)):
                raise _NoProof("a lambda mutates a container")
            return UNKNOWN
        # anything else (comparison, not, f-string, dict display ...): a value that is never accepted as a proven member; the
        # sub-expressions are still visited so that no call escapes the executor
        for child in ast.iter_child_nodes(e):
            if isinstance(child, ast.expr):
                self.ev(child, env)
        return UNKNOWN

    def truth(self, atom):
        if isinstance(atom, tuple) and atom[0] == "c":
            return bool(atom[1])
        if atom == NOV:
            return None
        return None

    def element_of(self, itv):
        if itv == SUB:
            return _A(MEM)
        if _tup(itv):
            out = None
            for x in itv[1]:
                out = x if out is None else _join(out, x)
            return out if out is not None else UNKNOWN
        return UNKNOWN

    def escape(self, e, env, values):
        """a call of something the executor cannot see into"""
        if any(_has_sub(v) for v in values):
            raise _NoProof(f"the offers are handed to {norm(e.func)}, which the path proof cannot follow")
        self.drop_paths(env)

    def resolve(self, name):
        if name in self.local_funcs:
            return self.local_funcs[name]
        d = self.mod.get(name)
        return d if isinstance(d, ast.FunctionDef) else None

    def call(self, e, env):
        f = e.func
        argv = [self.ev(a.value if isinstance(a, ast.Starred) else a, env) for a in e.args]
        kwv = {k.arg: self.ev(k.value, env) for k in e.keywords}
        allv = argv + list(kwv.values())
        starred = any(isinstance(a, ast.Starred) for a in e.args) or None in kwv
        if isinstance(f, ast.Name) and f.id not in env:
            n = f.id
            target = self.resolve(n)
            if target is not None:
                if starred:
                    self.escape(e, env, allv)
                    return UNKNOWN
                return self.summary(target, argv, kwv, env)
            if n in _SUB_KEEPING and argv and argv[0] == SUB:
                return SUB
            if n == "filter" and len(argv) == 2 and argv[1] == SUB:
                return SUB
            if n == "next" and argv and argv[0] == SUB:
                return _join(_A(MEM), argv[1]) if len(argv) > 1 else _A(MEM)  # or StopIteration
            if n in ("min", "max") and len(argv) == 1 and argv[0] == SUB:
                return _join(_A(MEM), kwv["default"]) if "default" in kwv else _A(MEM)
            if n == "cast" and len(argv) == 2:
                return argv[1]
            if hasattr(builtins, n):
                return UNKNOWN  # builtins do not mutate their arguments
            self.escape(e, env, allv)
            return UNKNOWN
        if isinstance(f, ast.Attribute):
            recv = self.ev(f.value, env)
            a = f.attr
            if recv == SUB:
                if a == "pop":
                    return _A(MEM)
                if a == "copy":
                    return SUB
                if a in ("index", "count", "sort", "reverse", "remove", "clear", "discard", "isdisjoint", "issubset", "issuperset"):
                    return UNKNOWN
                if a in ("intersection", "difference"):
                    return SUB
                if a == "union" and all(v == SUB for v in argv):
                    return SUB
                if a in ("append", "add") and len(argv) == 1 and _members_only(argv[0]):
                    return _A(("c", None))
                if a in ("extend", "update") and len(argv) == 1 and argv[0] == SUB:
                    return _A(("c", None))
                if a == "insert" and len(argv) == 2 and _members_only(argv[1]):
                    return _A(("c", None))
                raise _NoProof(f"{norm(e)}: a list derived from the offers is changed in a way the path proof cannot follow")
            if a == "cast" and len(argv) == 2:
                return argv[1]
            root = self.root(f.value)
            if root not in env and self.is_logging(root):
                return UNKNOWN  # logging neither changes nor keeps its arguments
            if a in _PURE_METHODS:
                return UNKNOWN
            self.escape(e, env, allv)
            return UNKNOWN
        self.ev(f, env)
        self.escape(e, env, allv)
        return UNKNOWN

    def summary(self, target, argv, kwv, caller_env):
        """value of a call of a helper of the same module: the join of what it returns on the abstract arguments"""
        if self.depth >= 4:
            raise _NoProof(f"helper nesting too deep at {target.name}")
        a = target.args
        if a.posonlyargs or len(argv) > len(a.args) and not a.vararg:
            raise _NoProof(f"call of {target.name} does not fit its signature")
        env = {}
        params = [p.arg for p in a.args]
        for p, v in zip(params, argv):
            env[p] = v
        if a.vararg:
            env[a.vararg.arg] = SUB if all(_members_only(v) for v in argv[len(params):]) else UNKNOWN
            if any(_has_sub(v) for v in argv[len(params):]):
                raise _NoProof(f"offers passed through *{a.vararg.arg} of {target.name}")
        for k, v in kwv.items():
            if k in params or k in [p.arg for p in a.kwonlyargs]:
                env[k] = v
            elif _has_sub(v):
                raise _NoProof(f"offers passed through **kwargs of {target.name}")
        defaults = dict(zip(params[len(params) - len(a.defaults):], a.defaults))
        defaults.update({p.arg: d for p, d in zip(a.kwonlyargs, a.kw_defaults) if d is not None})
        for p in params + [p.arg for p in a.kwonlyargs]:
            if p not in env:
                env[p] = self.ev(defaults[p], {}) if p in defaults else UNKNOWN
        if a.kwarg:
            env[a.kwarg.arg] = UNKNOWN
        self.depth += 1
        try:
            outs = self.block(self.body_of(target), env)
        finally:
            self.depth -= 1
        self.drop_paths(caller_env)  # the helper may change objects the caller holds refinements about
        res = None
        for o in outs:
            if o[0] == "ret":
                v = o[1]
            elif o[0] == "fall":
                v = _A(("c", None))
            else:
                continue
            res = v if res is None else _join(res, v)
        return res if res is not None else UNKNOWN

    @staticmethod
    def body_of(fn):
        body = list(fn.body)
        if body and isinstance(body[0], ast.Expr) and isinstance(body[0].value, ast.Constant) and isinstance(body[0].value.value, str):
            body = body[1:]
        return body

    # -- refinement by a condition -----------------------------------------------------------------
    def refine(self, test, env, truth):
        """environment on the branch where ``test`` has truth value ``truth``; None when that branch is infeasible"""
        if isinstance(test, ast.Constant):
            return dict(env) if bool(test.value) == truth else None
        if isinstance(test, ast.UnaryOp) and isinstance(test.op, ast.Not):
            return self.refine(test.operand, env, not truth)
        if isinstance(test, ast.BoolOp):
            conj = isinstance(test.op, ast.And)
            if conj == truth:  # all operands have the value `truth`
                cur = dict(env)
                for sub in test.values:
                    cur = self.refine(sub, cur, truth)
                    if cur is None:
                        return None
                return cur
            # some operand is the first one with the value `truth`, those before it have the opposite one
            alts = []
            prefix = dict(env)
            for sub in test.values:
                hit = self.refine(sub, prefix, truth)
                if hit is not None:
                    alts.append(hit)
                prefix = self.refine(sub, prefix, not truth)
                if prefix is None:
                    break
            if not alts:
                return None
            out = alts[0]
            for x in alts[1:]:
                out = _join_env(out, x)
            return out
        if isinstance(test, ast.NamedExpr):
            return self.refine(test.target, env, truth)
        if isinstance(test, ast.Compare) and len(test.ops) == 1:
            op, left, right = test.ops[0], test.left, test.comparators[0]
            if isinstance(op, (ast.In, ast.NotIn)):
                positive = isinstance(op, ast.In) == truth
                k = self.key(left.target if isinstance(left, ast.NamedExpr) else left)
                if positive and k and self.ev(right, dict(env)) == SUB:
                    out = dict(env)
                    out[k] = _A(MEM)
                    return out
                return dict(env)
            if isinstance(op, (ast.Is, ast.IsNot, ast.Eq, ast.NotEq)):
                equal = isinstance(op, (ast.Is, ast.Eq)) == truth
                for a, b in ((left, right), (right, left)):
                    k = self.key(a.target if isinstance(a, ast.NamedExpr) else a)
                    cv = self.ev(b, dict(env))
                    if k and _scalar(cv) and len(cv) == 1 and isinstance(next(iter(cv)), tuple):
                        const = next(iter(cv))[1]
                        cur = self.ev(a.target if isinstance(a, ast.NamedExpr) else a, dict(env))
                        if not _scalar(cur):
                            return dict(env)
                        new = set()
                        for atom in cur:
                            if isinstance(atom, tuple):
                                if _same_const(atom[1], const) == equal:
                                    new.add(atom)
                            elif atom == ANY:
                                new.add(("c", const) if equal else ANY)
                            elif atom == MEM:
                                if not equal or isinstance(const, bytes):
                                    new.add(MEM)  # an offer is a bytes object: never None / a bool / a str
                            elif atom == NOV:
                                if not equal:
                                    new.add(NOV)
                        if not new:
                            return None
                        out = dict(env)
                        out[k] = frozenset(new)
                        return out
                return dict(env)
            return dict(env)
        if isinstance(test, ast.Call) and isinstance(test.func, ast.Name) and test.func.id not in env:
            n = test.func.id
            if n == "bool" and len(test.args) == 1 and not test.keywords:
                return self.refine(test.args[0], env, truth)
            if n == "any" and truth and len(test.args) == 1 and isinstance(test.args[0], (ast.GeneratorExp, ast.ListComp)):
                g = test.args[0]
                if len(g.generators) == 1 and not g.generators[0].ifs and isinstance(g.generators[0].target, ast.Name) and isinstance(g.elt, ast.Compare) and len(g.elt.ops) == 1 \
                        and isinstance(g.elt.ops[0], ast.Eq) and self.ev(g.generators[0].iter, dict(env)) == SUB:
                    var = g.generators[0].target.id
                    l, r = g.elt.left, g.elt.comparators[0]
                    other = r if isinstance(l, ast.Name) and l.id == var else (l if isinstance(r, ast.Name) and r.id == var else None)
                    k = self.key(other) if other is not None else None
                    if k and k != var:
                        out = dict(env)
                        out[k] = _A(MEM)
                        return out
                return dict(env)
            target = self.resolve(n)
            if target is not None and not test.keywords and not any(isinstance(a, ast.Starred) for a in test.args):
                body = self.body_of(target)
                a = target.args
                params = [p.arg for p in a.args]
                if len(body) == 1 and isinstance(body[0], ast.Return) and body[0].value is not None and len(params) == len(test.args) and not (a.vararg or a.kwarg or a.kwonlyargs or a.posonlyargs) \
                        and all(self.key(x) or isinstance(x, ast.Constant) for x in test.args):
                    free = {x.id for x in ast.walk(body[0].value) if isinstance(x, ast.Name)} - set(params)
                    if not (free & set(env)):
                        expr = _Subst(dict(zip(params, test.args))).visit(copy.deepcopy(body[0].value))
                        return self.refine(expr, env, truth)
            return dict(env)
        k = self.key(test)
        if k:
            cur = self.ev(test, dict(env))
            if _scalar(cur):
                new = frozenset(a for a in cur if self.truth(a) in (truth, None))
                if not new:
                    return None
                out = dict(env)
                out[k] = new
                return out
        return dict(env)

    # -- statements ------------------------------------------------------------------------------
    def assign(self, t, v, env):
        if isinstance(t, ast.Name):
            self.bind(env, t.id, v)
        elif isinstance(t, (ast.Tuple, ast.List)):
            star = any(isinstance(x, ast.Starred) for x in t.elts)
            for i, x in enumerate(t.elts):
                if isinstance(x, ast.Starred):
                    self.assign(x.value, SUB if v == SUB else UNKNOWN, env)
                elif _tup(v) and not star and len(v[1]) == len(t.elts):
                    self.assign(x, v[1][i], env)
                else:
                    self.assign(x, _A(MEM) if v == SUB else UNKNOWN, env)
        elif isinstance(t, (ast.Attribute, ast.Subscript)):
            recv = self.ev(t.value, env)
            if isinstance(t, ast.Subscript):
                self.ev(t.slice, env)
                if recv == SUB and not (_members_only(v) or (isinstance(t.slice, ast.Slice) and v == SUB)):
                    raise _NoProof(f"{norm(t)} = ...: an element of a list derived from the offers is replaced")
            elif _has_sub(v):
                raise _NoProof(f"the offers are stored in {norm(t)}")
            self.drop_paths(env)
            k = self.key(t)
            if k:
                env[k] = v
        else:
            raise _NoProof(f"assignment target {norm(t)}")

    def block(self, stmts, env):
        """-> outcomes ('fall', env) | ('ret', value, node, env) | ('break', env) | ('cont', env) | ('raise', env)"""
        cur = [env]
        out = []
        for st in stmts:
            nxt = []
            for e in cur:
                for o in self.stmt(st, dict(e)):
                    if o[0] == "fall":
                        nxt.append(o[1])
                    else:
                        out.append(o)
            cur = _dedup(nxt)
            if not cur:
                break
        out.extend(("fall", e) for e in cur)
        return out

    def stmt(self, st, env):
        self.tick()
        if isinstance(st, ast.Expr):
            self.ev(st.value, env)
            return [("fall", env)]
        if isinstance(st, (ast.Pass, ast.Import, ast.ImportFrom)):
            return [("fall", env)]
        if isinstance(st, ast.Return):
            return [("ret", self.ev(st.value, env), st, env)]
        if isinstance(st, ast.Raise):
            if st.exc is not None:
                self.ev(st.exc, env)
            return [("raise", env)]
        if isinstance(st, ast.Assign):
            v = self.ev(st.value, env)
            for t in st.targets:
                self.assign(t, v, env)
            return [("fall", env)]
        if isinstance(st, ast.AnnAssign):
            if st.value is not None:
                self.assign(st.target, self.ev(st.value, env), env)
            return [("fall", env)]
        if isinstance(st, ast.AugAssign):
            cur = self.ev(st.target, env)
            v = self.ev(st.value, env)
            if cur == SUB:
                if not (isinstance(st.op, (ast.Add, ast.BitOr, ast.BitAnd, ast.Sub)) and (v == SUB or isinstance(st.op, (ast.BitAnd, ast.Sub)))):
                    raise _NoProof(f"{norm(st)}: a list derived from the offers is extended in place")
                new = SUB
            else:
                if _has_sub(v) and not isinstance(st.target, ast.Name):
                    raise _NoProof(f"the offers are stored by {norm(st)}")
                new = UNKNOWN
            self.assign(st.target, new, env)
            return [("fall", env)]
        if isinstance(st, ast.Delete):
            for t in st.targets:
                if isinstance(t, ast.Name):
                    env.pop(t.id, None)
                else:
                    self.ev(t.value, env)
                    self.drop_paths(env)
            return [("fall", env)]
        if isinstance(st, ast.Assert):
            self.ev(st.test, env)
            ok = self.refine(st.test, env, True)
            out = [("raise", env)]
            if ok is not None:
                out.append(("fall", ok))
            return out
        if isinstance(st, ast.If):
            self.ev(st.test, env)
            out = []
            for truth, body in ((True, st.body), (False, st.orelse)):
                env2 = self.refine(st.test, env, truth)
                if env2 is not None:
                    out.extend(self.block(body, env2))
            return out
        if isinstance(st, (ast.For, ast.While)):
            return self.loop(st, env)
        if isinstance(st, ast.Break):
            return [("break", env)]
        if isinstance(st, ast.Continue):
            return [("cont", env)]
        if isinstance(st, ast.Match):
            return self.match_stmt(st, env)
        if isinstance(st, ast.Try):
            return self.try_stmt(st, env)
        if isinstance(st, ast.FunctionDef):
            if any(isinstance(n, (ast.Nonlocal, ast.Global)) for n in ast.walk(st)):
                raise _NoProof(f"nested function {st.name} rebinds outer names")
            self.local_funcs[st.name] = st
            env.pop(st.name, None)
            return [("fall", env)]
        if isinstance(st, (ast.Global, ast.Nonlocal)):
            raise _NoProof("global / nonlocal state in the callback")
        raise _NoProof(f"statement not followed by the path proof: {type(st).__name__}")

    @staticmethod
    def _assigned_names(stmts):
        out = set()
        for s in stmts:
            for n in ast.walk(s):
                if isinstance(n, ast.Name) and isinstance(n.ctx, (ast.Store, ast.Del)):
                    out.add(n.id)
                elif isinstance(n, (ast.MatchAs, ast.MatchStar)) and n.name:
                    out.add(n.name)
                elif isinstance(n, ast.MatchMapping) and n.rest:
                    out.add(n.rest)
        return out

    def havoc(self, env, stmts):
        out = dict(env)
        for n in self._assigned_names(stmts):
            self.bind(out, n, UNKNOWN)
        self.drop_paths(out)
        return out

    def loop(self, st, env):
        is_for = isinstance(st, ast.For)
        itv = self.ev(st.iter, env) if is_for else None
        head = dict(env)
        outs = []
        exit_env = None
        for rnd in range(10):
            if rnd == 9:  # no fixpoint within the bound: forget everything the body may change
                head = self.havoc(head, st.body)
            if is_for:
                body_env = dict(head)
                self.assign(st.target, self.element_of(itv), body_env)
                exit_env = dict(head)
            else:
                probe = dict(head)
                self.ev(st.test, probe)
                body_env = self.refine(st.test, probe, True)
                exit_env = self.refine(st.test, probe, False)
            outs = self.block(st.body, body_env) if body_env is not None else []
            new_head = head
            for o in outs:
                if o[0] in ("fall", "cont"):
                    new_head = _join_env(new_head, o[1])
            if new_head == head:
                break
            head = new_head
        res = []
        for o in outs:
            if o[0] == "break":
                res.append(("fall", o[1]))
            elif o[0] in ("ret", "raise"):
                res.append(o)
        if exit_env is not None:
            res.extend(self.block(st.orelse, exit_env))
        return res

    def try_stmt(self, st, env):
        pre = dict(env)
        normal = []
        for o in self.block(st.body, dict(env)):
            if o[0] == "fall":
                normal.extend(self.block(st.orelse, o[1]))
            else:
                normal.append(o)
        # an exception may leave the body after any of its statements
        exc_env = self.havoc(pre, st.body)
        handled = []
        for h in st.handlers:
            henv = dict(exc_env)
            if h.name:
                self.bind(henv, h.name, UNKNOWN)
            handled.extend(self.block(h.body, henv))
        outs = normal + handled + [("raise", exc_env)]
        if not st.finalbody:
            return outs
        res = []
        for o in outs:
            fenv = o[-1]
            for fo in self.block(st.finalbody, dict(fenv)):
                if fo[0] == "fall":
                    res.append(o[:-1] + (fo[1],))
                else:
                    res.append(fo)  # return / break / raise in `finally` replaces the pending outcome
        return res

    # -- match -----------------------------------------------------------------------------------
    def bind_captures(self, pat, env, v=UNKNOWN):
        for n in ast.walk(pat):
            if isinstance(n, (ast.MatchAs, ast.MatchStar)) and n.name:
                self.bind(env, n.name, v)
            elif isinstance(n, ast.MatchMapping) and n.rest:
                self.bind(env, n.rest, UNKNOWN)

    def match_const(self, const, val, sexpr, env):
        """-> ([environment if matched], may the pattern fail?)"""
        if not _scalar(val):
            return [dict(env)], True
        new = set()
        for atom in val:
            if isinstance(atom, tuple):
                if _same_const(atom[1], const):
                    new.add(atom)
            elif atom == ANY:
                new.add(("c", const))
            elif atom == MEM and isinstance(const, bytes):
                new.add(MEM)
        if not new:
            return [], True
        out = dict(env)
        k = self.key(sexpr) if sexpr is not None else None
        if k:
            out[k] = frozenset(new)
        return [out], val != _A(("c", const))

    def match_pat(self, pat, val, sexpr, env):
        """-> (environments in which the pattern matched, may it fail to match?)"""
        if isinstance(pat, ast.MatchAs):
            if pat.pattern is None:
                out = dict(env)
                if pat.name:
                    self.bind(out, pat.name, val)
                return [out], False
            ms, cf = self.match_pat(pat.pattern, val, sexpr, env)
            for m in ms:
                if pat.name:
                    k = self.key(sexpr) if sexpr is not None else None
                    self.bind(m, pat.name, m.get(k, val) if k else val)
            return ms, cf
        if isinstance(pat, ast.MatchSingleton):
            return self.match_const(pat.value, val, sexpr, env)
        if isinstance(pat, ast.MatchValue):
            cv = self.ev(pat.value, dict(env))
            if _scalar(cv) and len(cv) == 1 and isinstance(next(iter(cv)), tuple):
                return self.match_const(next(iter(cv))[1], val, sexpr, env)
            return [dict(env)], True
        if isinstance(pat, ast.MatchOr):
            ms, fails = [], []
            for p in pat.patterns:
                m, cf = self.match_pat(p, val, sexpr, env)
                ms.extend(m)
                fails.append(cf)
            return ms, all(fails)
        if isinstance(pat, ast.MatchSequence):
            if _tup(val) and not any(isinstance(p, ast.MatchStar) for p in pat.patterns):
                if len(val[1]) != len(pat.patterns):
                    return [], True
                exprs = sexpr.elts if isinstance(sexpr, ast.Tuple) and len(sexpr.elts) == len(pat.patterns) else [None] * len(pat.patterns)
                envs, cf = [dict(env)], False
                for p, item, sx in zip(pat.patterns, val[1], exprs):
                    nxt = []
                    for e2 in envs:
                        m, c = self.match_pat(p, item, sx, e2)
                        nxt.extend(m)
                        cf = cf or c
                    envs = nxt
                return envs, cf
            out = dict(env)
            if val == SUB:
                for p in pat.patterns:
                    if isinstance(p, ast.MatchStar):
                        if p.name:
                            self.bind(out, p.name, SUB)
                    elif isinstance(p, ast.MatchAs) and p.pattern is None:
                        if p.name:
                            self.bind(out, p.name, _A(MEM))
                    else:
                        self.bind_captures(p, out)
                return [out], True
            self.bind_captures(pat, out)
            return [out], True
        out = dict(env)
        self.bind_captures(pat, out)
        return [out], True

    def match_stmt(self, st, env):
        val = self.ev(st.subject, env)
        res = []
        for case in st.cases:
            ms, can_fail = self.match_pat(case.pattern, val, st.subject, env)
            for m in ms:
                if case.guard is not None:
                    self.ev(case.guard, m)
                    g = self.refine(case.guard, m, True)
                    if self.refine(case.guard, m, False) is not None:
                        can_fail = True
                    if g is None:
                        continue
                    m = g
                res.extend(self.block(case.body, m))
            if not can_fail:
                return res
        res.append(("fall", env))  # no case matched
        return res


def _value_text(v):
    if not _scalar(v):
        return "a container / unknown value"
    names = {MEM: "an offered protocol", NOV: "NO_OVERLAPPING_PROTOCOLS", ANY: "a value of unknown origin"}
    return " or ".join(sorted(names.get(a, f"the constant {a[1]!r}" if isinstance(a, tuple) else str(a)) for a in v))


def _path_proof(ctx, mod, fn, options):
    """-> ({id(site): [site node, proven on every path, set of alternatives]}, reason the proof was abandoned or '')"""
    p = _Prov(mod, fn)
    try:
        outs = p.block(p.body_of(fn), {options: SUB})
    except _NoProof as e:
        return None, str(e)
    except RecursionError:
        return None, "recursion in the callback's helpers"
    sites = {}
    for o in outs:
        ctx.paths += 1
        if o[0] == "ret":
            node, val = o[2], o[1]
        elif o[0] == "fall":
            node, val = fn, _A(("c", None))
        else:
            continue
        ok = _scalar(val) and bool(val) and val <= {MEM, NOV}
        rec = sites.setdefault(id(node), [node, True, set()])
        rec[1] = rec[1] and ok
        rec[2] |= set(val) if _scalar(val) else {ANY}
    return sites, ""


def _site_text(fn, node):
    if node is fn:
        return "implicit return None"
    return f"return {norm(node.value)}" if node.value is not None else "return None"


def _r18_1(ctx, fn, options, table):
    where = lambda n: (T, "alpn_select_callback", n)  # noqa: E731
    mod = ctx.model.module(T)
    sites, abandoned = _path_proof(ctx, mod, fn, options)
    own = _own_returns(fn)
    ctx.require(own, "alpn_select_callback: no return found")
    if sites is None:
        sites = {id(n): ([n, True, {NOV}] if n.value is not None and attr_chain(n.value).split(".")[-1] == "NO_OVERLAPPING_PROTOCOLS" else [n, False, {ANY}]) for n in own}
        ctx.note(f"R18.1: path proof not applicable ({abandoned}); every return is decided by the exhaustive interpretation of the callback instead")
    # what the exhaustive interpretation (the runs of R18.2's domain) says about each return site
    by_site = {}
    for rec in table["records"]:
        node = rec["ret"] if rec["kind"] == "value" else None
        if rec["kind"] == "raise":
            continue
        site = node if node is not None else fn
        ent = by_site.setdefault(id(site), [site, 0, []])
        ent[1] += 1
        if rec["got"] != NONE and rec["got"] not in rec["options"]:
            ent[2].append(rec)
    for sid, ent in by_site.items():
        if ent[2] and sid not in sites:
            sites[sid] = [ent[0], False, {ANY}]  # reached concretely although the abstract execution held it unreachable: decide it concretely
    for sid, (node, proven, alts) in sites.items():
        text = _site_text(fn, node)
        if proven:
            ctx.ok("R18.1", f"{text}: {_value_text(frozenset(alts))} on every path (for all inputs)")
            continue
        runs = by_site.get(sid, [node, 0, []])
        if runs[2]:
            ex = runs[2][0]
            show = {k: ex[k] for k in ("options", "client_alpn", "server_alpn", "http2", "got")}
            ctx.fail("R18.1", where(node), text,
                     f"the returned value is not one of the client's offers: it is {_value_text(frozenset(alts))} on some path, and e.g. for {show} the callback answers {ex['got']!r} "
                     f"({len(runs[2])} of {runs[1]} interpreted cases reaching this return)", examples=[{k: r[k] for k in ('options', 'client_alpn', 'server_alpn', 'http2', 'got')} for r in runs[2][:3]])
        elif node is fn and runs[1] == 0:
            ctx.ok("R18.1", f"{text}: not reached by any of the {table['n']} interpreted cases (the path proof cannot exclude it syntactically)")
        elif runs[1] == 0:
            raise AnalysisError(f"alpn_select_callback: `{text}` is neither proven an offer on every path ({_value_text(frozenset(alts))}) nor reached by any interpreted case: not decided")
        else:
            ctx.ok("R18.1", f"{text}: path proof not applicable ({_value_text(frozenset(alts))}); decided by exhaustive interpretation: an offered protocol or none in all {runs[1]} "
                            f"of {table['n']} cases (offer lists up to length {table['maxlen']}) that reach it")
    ctx.expect_instances("R18.1", 1)


# ---- R18.2 ---------------------------------------------------------------------------------------


def _callback_constants(ctx, fn):
    """bytes constants the callback (or a helper of its module that it names) compares against: they join the protocol-class domain"""
    mod = ctx.model.module(T)
    seen, todo, out = set(), [fn], []
    while todo:
        f = todo.pop()
        if id(f) in seen:
            continue
        seen.add(id(f))
        for n in ast.walk(f):
            if isinstance(n, ast.Constant) and isinstance(n.value, bytes) and n.value and n.value not in CLASSES and n.value not in out:
                out.append(n.value)
            if isinstance(n, ast.Name):
                d = mod.get(n.id)
                if isinstance(d, ast.FunctionDef):
                    todo.append(d)
                elif len(seen) < 20:
                    for v in mod.assigns(n.id):
                        todo.append(v)
    ctx.require(len(out) <= 4, f"alpn_select_callback mentions {len(out)} protocol constants outside the modelled classes: {out} (domain too large)")
    return tuple(out)


def expected(options, client_alpn, server_alpn, http2, http_alpns, http1_alpns):
    """-> (set of acceptable answers, label of the table row)"""
    if client_alpn is not None:
        return ({client_alpn} if client_alpn in options else {NONE}), "client override"
    if server_alpn:
        return ({server_alpn} if server_alpn in options else {NONE}), "upstream known"
    if server_alpn == b"":
        return {NONE}, "upstream negotiated none"
    allowed = http_alpns if http2 else http1_alpns
    first = next((o for o in options if o in allowed), None)
    return ({first} if first is not None else {NONE}), "upstream unknown"


def _extra_appdata_fields(ctx):
    """keys of the app data stored by tls_start_client beyond the three the property speaks about (informational fields)"""
    return [k for k in _appdata_fields(ctx.func(T, "TlsConfig.tls_start_client")) if k not in ("client_alpn", "server_alpn", "http2")]


def _run_table(ctx, fn):
    """Interpret the callback on the whole domain once; R18.1 (fallback) and R18.2 both read the records."""
    m = ctx.model
    mod = m.module(T)
    http1 = module_const(m, PT, "HTTP1_ALPNS")
    http = module_const(m, PT, "HTTP_ALPNS")
    ctx.require(isinstance(http1, tuple) and isinstance(http, tuple) and all(isinstance(x, bytes) for x in http1 + http), "HTTP_ALPNS / HTTP1_ALPNS are not tuples of bytes")
    extra_consts = _callback_constants(ctx, fn)
    extra_consts += tuple(x for x in dict.fromkeys(http + http1) if x and x not in CLASSES and x not in extra_consts)
    ctx.require(len(extra_consts) <= 5, f"{len(extra_consts)} protocol constants outside the modelled classes: {list(extra_consts)} (domain too large)")
    classes = CLASSES + extra_consts
    if extra_consts:
        ctx.note(f"R18.2: protocol constants named by the callback added to the class domain: {list(extra_consts)}")
    extras = _extra_appdata_fields(ctx)
    variants = [{}]
    if extras:
        variants = [{k: True for k in extras}, {k: False for k in extras}, {}]
        ctx.note(f"R18.2: AppData carries additional fields {extras}; the table is decided for each of them true / false / absent (offer lists up to length {max(1, (3 if ctx.tier == 'thorough' else 2) - 1)} for the latter two) and must not depend on them")
    own = _own_returns(fn)
    f = Func(mod, fn)
    interps = [_Sem(m, True, own)]
    maxlen = 3 if ctx.tier == "thorough" else 2
    records = []

    def run(it, options, ca, sa, http2, extra):
        data = {"client_alpn": ca, "server_alpn": sa, "http2": http2, **extra}
        conn = Rec("Connection", get_app_data=lambda: data)
        it.steps = 0
        it.last_ret = None
        try:
            return "value", it.apply(f, [conn, list(options)], {}, 0), it.last_ret
        except Raised as r:
            return "raise", f"<raises {r.name}>", None

    def sweep(it, vs, upto):
        for n in range(0, upto + 1):
            for options in itertools.permutations(classes, n):
                not_offered = [c for c in classes if c not in options]
                clients = [None, b""] + list(options) + not_offered[:1] + [c for c in not_offered[1:] if c in extra_consts]
                servers = [None, b""] + list(options) + not_offered
                for ca in clients:
                    for sa in servers:
                        for http2 in (True, False):
                            for vi, extra in enumerate(vs):
                                kind, got, ret = run(it, options, ca, sa, http2, extra)
                                if kind == "raise" and got == "<raises KeyError>" and not extra and extras:
                                    continue  # a required additional field is absent: not a world
                                records.append({"options": list(options), "client_alpn": ca, "server_alpn": sa, "http2": http2, "extra": extra, "kind": kind, "got": got, "ret": ret, "first": it is interps[0] and extra is variants[0]})

    # the full domain with the first variant; the variants that must make no difference (additional informational AppData fields,
    # logging switched off) on offer lists one element shorter
    sweep(interps[0], variants[:1], maxlen)
    if variants[1:]:
        sweep(interps[0], variants[1:], max(1, maxlen - 1))
    if interps[0].logger.asked:
        # the callback asks whether logging is enabled: its answer must not depend on the logging configuration
        interps.append(_Sem(m, False, own))
        sweep(interps[1], variants[:1], max(1, maxlen - 1))
        ctx.note("R18.2: the callback consults the logging configuration (isEnabledFor); the table is decided with logging enabled and disabled")
    return {"records": records, "n": len(records), "maxlen": maxlen, "http": http, "http1": http1}


def _r18_2(ctx, fn, table):
    m = ctx.model
    http, http1 = table["http"], table["http1"]
    ctx.check(H2 not in http1 and H3 not in http1, "R18.2", (PT, "<module>", m.const(PT, "HTTP1_ALPNS")), "HTTP1_ALPNS contains h2/h3",
              "with http2 disabled the generic selection may pick HTTP/2 or HTTP/3", desc=f"HTTP1_ALPNS={http1!r} has no h2/h3")
    rows = {}
    bad = {}
    for rec in table["records"]:
        options, ca, sa, http2, got = tuple(rec["options"]), rec["client_alpn"], rec["server_alpn"], rec["http2"], rec["got"]
        want, row = expected(options, ca, sa, http2, http, http1)
        ctx.cells += 1
        rows[row] = rows.get(row, 0) + 1
        problems = []
        if rec["kind"] == "raise":
            problems.append(f"the callback {got[1:-1]} instead of answering")
        else:
            if got != NONE and got not in options:
                problems.append("selected a protocol the client did not offer")
            if got not in want:
                problems.append(f"{row}: expected {sorted(map(repr, want))}")
            if not http2 and ca is None and not sa and got == H2:
                problems.append("h2 selected although http2 is disabled")
        if problems:
            b = bad.setdefault(row, [])
            if len(b) < 3:
                ex = {"options": list(options), "client_alpn": ca, "server_alpn": sa, "http2": http2, "got": got, "problems": problems}
                if rec["extra"]:
                    ex["additional AppData fields"] = rec["extra"]
                b.append(ex)
            bad[row + "#n"] = bad.get(row + "#n", 0) + 1
        elif rec["first"] and len(ctx.samples) < 6 and len(options) == 2 and ca is None and sa in (H2, None) and options[0] == H11:
            ctx.sample({"rule": "R18.2", "options": [o.decode() for o in options], "client_alpn": ca, "server_alpn": sa and sa.decode(), "http2": http2, "selected": got if got == NONE else got.decode()})
    ctx.require(set(rows) == {"client override", "upstream known", "upstream negotiated none", "upstream unknown"}, f"table rows not all exercised: {rows}")
    for row in sorted(rows):
        ex = bad.get(row)
        ctx.check(not ex, "R18.2", (T, "alpn_select_callback", fn), f"decision table row: {row}",
                  f"{bad.get(row + '#n', 0)} of {rows[row]} cells wrong, e.g. {ex[0] if ex else ''}", desc=f"row '{row}': {rows[row]} cells", examples=ex)
    ctx.expect_instances("R18.2", 5)


# ---- R18.3 ---------------------------------------------------------------------------------------


class AppDataSpec(FlowSpec):
    """events: ('appdata', ((field, value), ...), receiver) for every ``<receiver>.set_app_data(<AppData>)``, where the argument is an
    ``AppData(...)`` / ``dict(...)`` call with keywords or a dict display with constant keys - written in place or bound to a local first;
    ('conn', target) when a new ``SSL.Connection`` is stored.  Field values and receivers are resolved through local aliases."""

    def value(self, expr, st, depth):
        if isinstance(expr, ast.Call) and call_name(expr).split(".")[-1] in ("AppData", "dict") and (expr.keywords or call_name(expr).split(".")[-1] == "AppData"):
            if expr.args or any(k.arg is None for k in expr.keywords):
                raise AnalysisError(f"AppData built with positional/starred arguments: {norm(expr)} (not modelled)")
            return ("appdata", tuple(sorted((k.arg, self._deep(k.value, st)) for k in expr.keywords)))
        if isinstance(expr, ast.Dict) and expr.keys and all(isinstance(k, ast.Constant) and isinstance(k.value, str) for k in expr.keys):
            return ("appdata", tuple(sorted((k.value, self._deep(v, st)) for k, v in zip(expr.keys, expr.values))))
        if isinstance(expr, ast.Call) and call_name(expr).split(".")[-1] == "Connection":
            return ("newconn", expr.lineno, expr.col_offset)
        return super().value(expr, st, depth)

    def events(self, node, st):
        out = list(super().events(node, st))
        for n in eval_order(node):
            if isinstance(n, ast.Call) and isinstance(n.func, ast.Attribute) and n.func.attr == "set_app_data":
                if len(n.args) != 1 or n.keywords:
                    raise AnalysisError(f"set_app_data call not understood: {norm(n)}")
                v = self.value(n.args[0], st, 0)
                if not (isinstance(v, tuple) and v and v[0] == "appdata"):
                    raise AnalysisError(f"tls_start_client: the argument of {norm(n.func)}(...) is not an AppData(...) / dict the rule can read: {norm(n.args[0])}")
                out.append(("appdata", v[1], self._deep(n.func.value, st), attr_chain(n.func.value)))
        return out

    def _deep(self, expr, st):
        """value of expr with locals substituted: R('a.b.c') where the head local is itself a reference (followed transitively)"""
        v = self.value(expr, st, 0)
        for _ in range(6):
            if not (isinstance(v, tuple) and v and v[0] == "r"):
                break
            if st.has(v[1]):
                v = st.get(v[1])
                continue
            head, _, rest = v[1].partition(".")
            hv = st.get(f"0:{head}")
            if isinstance(hv, tuple) and hv and hv[0] == "r" and rest:
                v = R(hv[1] + "." + rest)
            else:
                break
        return v


NL = "mitmproxy/addons/next_layer.py"
LAYER_BASES = {
    "ClientTLSLayer": ("TLSLayer", "TunnelLayer", "Layer"),
    "ServerTLSLayer": ("TLSLayer", "TunnelLayer", "Layer"),
}


def _explicit_proxy_stacks(ctx):
    """Layer stacks (class names below the mode layer) that NextLayer._setup_explicit_http_proxy builds for a client that starts
    with a TLS record - read from the function's AST: the ordered `stack /= layers.X(...)` statements, one alternative per branch."""
    fn = ctx.func(NL, "NextLayer._setup_explicit_http_proxy")

    def pushes(stmts):  # -> list of alternatives, each a list of class names
        alts = [[]]
        for st in stmts:
            if isinstance(st, ast.AugAssign) and isinstance(st.op, ast.Div) and isinstance(st.target, ast.Name) and isinstance(st.value, ast.Call):
                name = last_attr(st.value.func)
                ctx.require(bool(name), f"_setup_explicit_http_proxy: pushed layer not understood: {norm(st)}")
                alts = [a + [name] for a in alts]
            elif isinstance(st, ast.If):
                branches = [pushes(st.body), pushes(st.orelse) if st.orelse else [[]]]
                alts = [a + b for a in alts for br in branches for b in br]
            elif isinstance(st, (ast.For, ast.While, ast.With, ast.Try, ast.Match)):
                if any(isinstance(x, ast.AugAssign) for x in ast.walk(st)):
                    raise AnalysisError(f"_setup_explicit_http_proxy: stack built inside {type(st).__name__} (not modelled)")
        return alts

    stacks = {tuple(a) for a in pushes(fn.body)}
    tls = sorted(a for a in stacks if a and a[0] == "ClientTLSLayer")
    ctx.require(tls, f"_setup_explicit_http_proxy builds no stack that starts with ClientTLSLayer (found {sorted(stacks)})")
    return tls


def _explicit_modes(ctx):
    """Mode layer classes for which NextLayer._next_layer uses _setup_explicit_http_proxy (the isinstance tuple guarding the call)."""
    fn = ctx.func(NL, "NextLayer._next_layer")
    out = set()
    for n in ast.walk(fn):
        if isinstance(n, ast.If) and any(isinstance(c, ast.Call) and call_name(c).endswith("_setup_explicit_http_proxy") for st in n.body for c in ast.walk(st)):
            for c in ast.walk(n.test):
                if isinstance(c, ast.Call) and c.args:
                    a = c.args[-1]
                    for e in a.elts if isinstance(a, ast.Tuple) else [a]:
                        if last_attr(e):
                            out.add(last_attr(e))
    ctx.require(out, "_next_layer: guard of _setup_explicit_http_proxy not understood")
    return sorted(out)


def _callee(m, rel, cls, call):
    """FunctionDef of ``self.helper(...)`` / ``Class.helper(...)`` / ``module_function(...)`` called from a method of ``cls`` in ``rel``, else None"""
    f = call.func
    mod = m.module(rel)
    if isinstance(f, ast.Attribute) and isinstance(f.value, ast.Name) and f.value.id in ("self", "cls", cls):
        r = m.method(rel, cls, f.attr)
        return r[1] if r is not None else None
    if isinstance(f, ast.Name):
        d = mod.get(f.id)
        return d if isinstance(d, ast.FunctionDef) else None
    return None


def _reachable(m, rel, cls, fn, depth=3):
    """fn and the helpers (methods of its class, functions of its module) it calls, transitively up to ``depth``"""
    out, todo = [fn], [(fn, 0)]
    while todo:
        f, d = todo.pop()
        if d >= depth:
            continue
        for c in calls_in(f):
            g = _callee(m, rel, cls, c)
            if g is not None and all(g is not x for x in out):
                out.append(g)
                todo.append((g, d + 1))
    return out


def _stores_attr(m, rel, cls, node, attr):
    """does executing ``node`` (possibly) assign ``<something>.attr`` - in place or in a helper it calls?"""
    fns = [node]
    for c in (n for n in ast.walk(node) if isinstance(n, ast.Call)):
        g = _callee(m, rel, cls, c)
        if g is not None:
            fns.extend(_reachable(m, rel, cls, g, depth=2))
    return any(isinstance(n, ast.Attribute) and n.attr == attr and isinstance(n.ctx, ast.Store) for f in fns for n in ast.walk(f))


def _slice_for(fn, wanted):
    """top-level statements of ``fn`` for which ``wanted(stmt)`` holds plus the statements that (transitively) bind the locals they read, in source order"""
    params = {a.arg for a in fn.args.args}

    def targets(st):
        out = set()
        for n in ast.walk(st):
            if isinstance(n, ast.Name) and isinstance(n.ctx, ast.Store):
                out.add(n.id)
        return out

    chosen = [st for st in fn.body if wanted(st)]
    need = {n.id for st in chosen for n in ast.walk(st) if isinstance(n, ast.Name)} - params
    last = max((st.lineno for st in chosen), default=0)
    changed = True
    while changed:
        changed = False
        for st in fn.body:
            if any(st is c for c in chosen) or st.lineno > last or not (targets(st) & need):
                continue
            if not isinstance(st, (ast.Assign, ast.AnnAssign, ast.If, ast.Match, ast.Expr, ast.For, ast.Try)):
                raise AnalysisError(f"{fn.name}: a local needed by the rule is bound by a {type(st).__name__} statement (not modelled)")
            chosen.append(st)
            need |= {n.id for n in ast.walk(st) if isinstance(n, ast.Name)} - params
            changed = True
    chosen.sort(key=lambda st: st.lineno)
    return chosen


def _appdata_fields(tsc):
    """{field: value expression} of the app data tls_start_client stores with ``set_app_data``: an ``AppData(...)`` / ``dict(...)`` call with
    keywords or a dict display with constant keys, written in place or bound to a local (assigned once) first."""
    calls = [n for n in ast.walk(tsc) if isinstance(n, ast.Call) and isinstance(n.func, ast.Attribute) and n.func.attr == "set_app_data" and len(n.args) == 1]
    if not calls:
        raise AnalysisError("tls_start_client no longer stores app data with set_app_data(...)")
    out = None
    for c in calls:
        arg = c.args[0]
        if isinstance(arg, ast.Name):
            defs = [n for n in ast.walk(tsc) if isinstance(n, (ast.Assign, ast.AnnAssign)) and n.value is not None
                    and any(isinstance(t, ast.Name) and t.id == arg.id for t in (n.targets if isinstance(n, ast.Assign) else [n.target]))]
            if len(defs) != 1:
                raise AnalysisError(f"tls_start_client: the app data local `{arg.id}` is assigned {len(defs)} times (not modelled)")
            arg = defs[0].value
        if isinstance(arg, ast.Call) and call_name(arg).split(".")[-1] in ("AppData", "dict") and not arg.args and all(k.arg for k in arg.keywords):
            fields = {k.arg: k.value for k in arg.keywords}
        elif isinstance(arg, ast.Dict) and all(isinstance(k, ast.Constant) and isinstance(k.value, str) for k in arg.keys):
            fields = {k.value: v for k, v in zip(arg.keys, arg.values)}
        else:
            raise AnalysisError(f"tls_start_client: the argument of set_app_data(...) is not an AppData(...) / dict the rule can read: {norm(arg)}")
        if out is not None and {k: norm(v) for k, v in out.items()} != {k: norm(v) for k, v in fields.items()}:
            raise AnalysisError("tls_start_client stores differently built app data at several places (not modelled)")
        out = fields
    return out


def _client_alpn_slice(tsc):
    """Statements of tls_start_client that (transitively) define the `client_alpn` field of the stored app data, in source order."""
    kw = _appdata_fields(tsc)
    if "client_alpn" not in kw:
        raise AnalysisError("AppData(...) without client_alpn=")
    params = {a.arg for a in tsc.args.args}
    need = {n.id for n in ast.walk(kw["client_alpn"]) if isinstance(n, ast.Name)} - params

    def targets(st):
        out = set()
        for n in ast.walk(st):
            if isinstance(n, (ast.Assign, ast.AnnAssign, ast.AugAssign)):
                for t in n.targets if isinstance(n, ast.Assign) else [n.target]:
                    for x in t.elts if isinstance(t, (ast.Tuple, ast.List)) else [t]:
                        if isinstance(x, ast.Name):  # a binding of the local, not a write through it
                            out.add(x.id)
            elif isinstance(n, ast.NamedExpr):
                out.add(n.target.id)
        return out

    chosen = []
    changed = True
    while changed:
        changed = False
        for st in tsc.body:
            if st in chosen or not (targets(st) & need):
                continue
            if not isinstance(st, (ast.Assign, ast.AnnAssign, ast.If, ast.Match, ast.Expr, ast.For, ast.Try)):
                raise AnalysisError(f"tls_start_client: client_alpn defined by a {type(st).__name__} statement (not modelled)")
            chosen.append(st)
            need |= {n.id for n in ast.walk(st) if isinstance(n, ast.Name)} - params
            changed = True
    chosen.sort(key=lambda st: st.lineno)
    return chosen, kw["client_alpn"]


def _worlds(ctx):
    """[(layer stack below which tls_start_client runs, is it the outer connection of a secure web proxy?)] - read from next_layer.py"""
    inner_stacks = _explicit_proxy_stacks(ctx)
    modes_explicit = _explicit_modes(ctx)
    worlds = []
    for mode in modes_explicit:
        for st in inner_stacks:
            worlds.append(((mode, *st), True))  # outer TLS connection of a secure web proxy, as NextLayer builds it
            worlds.append(((mode, *st, "HttpStream", "ServerTLSLayer", "ClientTLSLayer"), False))  # TLS *inside* its CONNECT tunnel
            worlds.append(((mode, *st, "HttpStream", "ClientTLSLayer"), False))
        worlds.append(((mode, "HttpLayer", "HttpStream", "ServerTLSLayer", "ClientTLSLayer"), False))  # plain proxy, TLS after CONNECT
        worlds.append(((mode, "HttpLayer", "HttpStream", "ClientTLSLayer"), False))
    for mode in ("ReverseProxy", "TransparentProxy", "Socks5Proxy"):
        worlds.append(((mode, "ClientTLSLayer"), False))
        worlds.append(((mode, "ServerTLSLayer", "ClientTLSLayer"), False))
        worlds.append(((mode, "ServerTLSLayer", "ClientTLSLayer", "HttpLayer"), False))
    return worlds, modes_explicit, inner_stacks


_FRESH_CLIENT = {"alpn": None, "alpn_offers": [], "sni": None, "cipher": None, "cipher_list": [], "tls_version": None, "timestamp_tls_setup": None, "certificate_list": [],
                 "mitmcert": None, "tls": True, "tls_established": False}


_LAYER_FILES = ("mitmproxy/proxy/layers/modes.py", PT, "mitmproxy/proxy/layers/http/__init__.py", "mitmproxy/proxy/layers/quic/__init__.py", "mitmproxy/proxy/layers/tcp.py",
                "mitmproxy/proxy/layers/udp.py", "mitmproxy/proxy/layers/dns.py", "mitmproxy/proxy/layers/websocket.py", "mitmproxy/proxy/layer.py")


def _layer_rec(m, name):
    """abstract layer object of class ``name``: bound to the repository class (isinstance and type() follow the real class hierarchy)"""
    for rel in _LAYER_FILES:
        if m.exists(rel) and isinstance(m.module(rel).get(name), ast.ClassDef):
            return Rec(name, _bases=LAYER_BASES.get(name, ("Layer",)), _impl=(rel, name))
    return Rec(name, _bases=LAYER_BASES.get(name, ("Layer",)))


def _override_in_world(m, stmts, expr, stack, client, P="tls_start"):
    """value of the `client_alpn=` argument of AppData(...) when tls_start_client runs for ``client`` below the layer stack ``stack``"""
    it = _Sem(m)
    layers = [_layer_rec(m, n) for n in stack]
    server = Rec("Server", alpn=None)
    tls_start = Rec("TlsData", conn=client, context=Rec("Context", layers=layers, client=client, server=server), ssl_conn=None, is_dtls=False)
    env = {P: tls_start, "client": client, "server": server, "self": Rec("TlsConfig", _impl=(T, "TlsConfig"))}
    try:
        it.block(stmts, env, m.module(T), 0)
        return it.ev(expr, env, m.module(T), 0)
    except _PyReturn:
        raise AnalysisError("tls_start_client returns while computing client_alpn (not modelled)")
    except Raised as r:
        return f"<raises {r.name}>"


def _r18_3(ctx):
    m = ctx.model
    tsc = ctx.func(T, "TlsConfig.tls_start_client")
    # isinstance(x, modes.HttpProxy) is modelled by class-name equality: HttpProxy must have no subclass in its module
    MODES = "mitmproxy/proxy/layers/modes.py"
    m.cls(MODES, "HttpProxy")
    subs = [q for q, d in m.module(MODES).defs().items() if isinstance(d, ast.ClassDef) and any(last_attr(b) == "HttpProxy" for b in d.bases)]
    ctx.require(not subs, f"HttpProxy has subclasses {subs}: the sample layer stacks of R18.3 must be extended")
    ctx.assume("isinstance(layer, modes.HttpProxy) holds exactly for HttpProxy itself (no subclass in proxy/layers/modes.py)")
    ctx.require(len(tsc.args.args) == 2, "tls_start_client signature changed")
    P = tsc.args.args[1].arg  # the hook's TlsData parameter (`tls_start`)
    SSLCONN = f"{P}.ssl_conn"
    spec = AppDataSpec(keep=lambda ev: ev[0] == "appdata" or (ev[0] == "assign" and ev[1] == SSLCONN), implicit_raises=False, tracked=(SSLCONN,))
    res, eng = traces_of(tsc, spec)
    term = [(t, how, st) for t, how, st in res if how == "return"]
    withdata = [t for t, how, st in term if any(e[0] == "appdata" for e in t)]
    ctx.require(withdata, "tls_start_client no longer stores AppData(...) with set_app_data")
    ctx.paths += len(term)
    where = (T, "TlsConfig.tls_start_client", tsc)
    # every path on which mitmproxy creates the connection (assigns <tls_start>.ssl_conn) stores exactly one AppData on that connection
    creating = [(t, st) for t, _, st in term if any(e[0] == "assign" for e in t)]
    ctx.require(creating, f"tls_start_client: no path assigns {SSLCONN} (anchor changed)")
    ctx.require(any(not any(e[0] == "assign" for e in t) for t, _, _ in term), f"tls_start_client: the early return for a connection provided by another addon ({SSLCONN} already set) is gone")

    def stored_ok(t, st):
        data = [e for e in t if e[0] == "appdata"]
        conn = st.get(SSLCONN)
        return len(data) == 1 and (data[0][3] == SSLCONN or data[0][2] == R(SSLCONN) or (data[0][2] == conn and isinstance(conn, tuple) and conn[0] == "newconn"))

    bad_store = [t for t, st in creating if not stored_ok(t, st)]
    ctx.check(not bad_store, "R18.3", where, "tls_start.ssl_conn.set_app_data(AppData(...)) exactly once",
              f"{len(bad_store)} path(s) create the client TLS connection without storing the ALPN app data on it: the callback would read stale/no data", desc="AppData stored on ssl_conn on every creating path")
    # values
    bad = {"server_alpn": 0, "http2": 0}
    for t in withdata:
        vals = dict(next(e for e in t if e[0] == "appdata")[1])
        if not {"client_alpn", "server_alpn", "http2"} <= set(vals):
            raise AnalysisError(f"AppData fields changed: {sorted(vals)}")  # additional fields: R18.2 decides the table for each of their values
        if vals["server_alpn"] != R(f"{P}.context.server.alpn"):
            bad["server_alpn"] += 1
        if vals["http2"] != R("ctx.options.http2"):
            bad["http2"] += 1
    ctx.check(bad["server_alpn"] == 0, "R18.3", where, "server_alpn=server.alpn", "the upstream protocol given to the callback is not tls_start.context.server.alpn", desc="server_alpn = tls_start.context.server.alpn")
    ctx.check(bad["http2"] == 0, "R18.3", where, "http2=ctx.options.http2", "the http2 flag given to the callback is not the http2 option", desc="http2 = ctx.options.http2")
    # client_alpn per world: the statements defining client_alpn are interpreted (pyint, which follows self. / module helpers and module
    # constants by itself) on layer stacks read from next_layer.py.  That the value depends on the layer stack is part of what the
    # worlds decide: they contain stacks where http/1.1 must be forced and stacks where it must not.
    stmts, expr = _client_alpn_slice(tsc)
    worlds, modes_explicit, inner_stacks = _worlds(ctx)
    ctx.note(f"R18.3 layer stacks: explicit-proxy modes {modes_explicit}, TLS stacks built by _setup_explicit_http_proxy {inner_stacks}")
    ctx.require(any(swp for _, swp in worlds) and any(not swp for _, swp in worlds), "R18.3: the sample layer stacks no longer contain both kinds of world")
    SENT = b"<client.alpn>"
    for stack, swp in worlds:
        got = _override_in_world(m, stmts, expr, stack, Rec("Client", **{**_FRESH_CLIENT, "alpn": SENT}), P=P)
        ctx.cells += 1
        want = b"http/1.1" if swp else SENT
        ctx.check(got == want, "R18.3", where, f"client_alpn for layer stack [{', '.join(stack)}]",
                  f"client_alpn is {got!r}, expected {want!r}: " + ("the outer connection of a secure web proxy may negotiate something other than HTTP/1.1" if swp else "HTTP/1.1 is forced on a connection that is not a secure web proxy's outer connection"),
                  desc=f"[{', '.join(stack)}] -> client_alpn {'http/1.1' if swp else 'client.alpn'}")
    n_worlds = len(worlds)
    # the callback is installed: the call of create_client_proxy_context (in tls_start_client or a helper it calls) is handed the callback
    cc = [(f, c) for f in _reachable(m, T, "TlsConfig", tsc) for c in calls_in(f) if call_name(c).split(".")[-1] == "create_client_proxy_context"]
    ctx.require(len(cc) == 1, f"tls_start_client: create_client_proxy_context call found {len(cc)} times in it and its helpers (expected once)")
    host, call = cc[0]
    ccp = ctx.func(NT, "create_client_proxy_context")
    a = ccp.args
    ctx.require(not (a.vararg or a.kwarg), "create_client_proxy_context takes *args / **kwargs (not modelled)")
    positional = [x.arg for x in a.posonlyargs + a.args]
    given_as = [k.arg for k in call.keywords if k.arg and isinstance(k.value, ast.Name) and k.value.id == "alpn_select_callback"]
    given_as += [positional[i] for i, x in enumerate(call.args) if i < len(positional) and isinstance(x, ast.Name) and x.id == "alpn_select_callback"]
    cbparam = given_as[0] if given_as else None
    ctx.check(cbparam is not None and cbparam in positional + [x.arg for x in a.kwonlyargs], "R18.3", (T, getattr(host, "_qual", host.name), call),
              "alpn_select_callback=alpn_select_callback", "the client context is created without mitmproxy's ALPN callback", desc="callback passed to create_client_proxy_context")
    if cbparam is not None:
        # in create_client_proxy_context every returning path that is possible when the callback is given installs it
        GIVEN = object()

        def about_param(node):
            names = {n.id for n in ast.walk(node) if isinstance(n, ast.Name)}
            return names == {cbparam} and all(isinstance(n, (ast.Name, ast.Compare, ast.UnaryOp, ast.BoolOp, ast.Constant, ast.expr_context, ast.cmpop, ast.unaryop, ast.boolop)) for n in ast.walk(node))

        class InstSpec(FlowSpec):
            def events(self, node, st):
                out = list(super().events(node, st))
                for n in eval_order(node):
                    if isinstance(n, ast.Call) and isinstance(n.func, ast.Attribute) and n.func.attr == "set_alpn_select_callback":
                        out.append(("install", len(n.args) == 1 and not n.keywords and isinstance(n.args[0], ast.Name) and n.args[0].id == cbparam))
                if isinstance(node, (ast.Assign, ast.AnnAssign, ast.AugAssign)) and any(isinstance(x, ast.Name) and x.id == cbparam and isinstance(x.ctx, ast.Store) for x in ast.walk(node)):
                    raise AnalysisError(f"create_client_proxy_context rebinds its parameter {cbparam} (not modelled)")
                return out

        res, eng = traces_of(ccp, InstSpec(keep=lambda ev: ev[0] in ("cond", "install"), implicit_raises=False))
        n = missing = 0
        for t, how, st in res:
            if how != "return" or not feasible(t, about_param, None, env={cbparam: GIVEN}, what="create_client_proxy_context"):
                continue
            n += 1
            if not any(e == ("install", True) for e in t):
                missing += 1
        ctx.require(n > 0, "create_client_proxy_context: no returning path with a callback given")
        ctx.check(missing == 0, "R18.3", (NT, "create_client_proxy_context", ccp), "context.set_alpn_select_callback(alpn_select_callback)",
                  f"a callback that is given is not installed on the context on {missing} of {n} returning path(s)", desc="create_client_proxy_context installs the callback")
    # h2 is not mirrored upstream when http2 is off: the statements of tls_start_server that set <server>.alpn_offers (directly or in a helper)
    # are interpreted on a fresh server connection for several client offer lists
    tss = ctx.func(T, "TlsConfig.tls_start_server")
    ctx.require(len(tss.args.args) == 2, "tls_start_server signature changed")
    PS = tss.args.args[1].arg
    offer_stmts = _slice_for(tss, lambda st: _stores_attr(m, T, "TlsConfig", st, "alpn_offers"))
    ctx.require(offer_stmts, "tls_start_server no longer sets alpn_offers of the server connection")
    tmod = m.module(T)
    leaking, mirrored = [], 0
    for client_offers in ([H2, H11, H3, UNK], [H11, H2], [H2], [H11]):
        for http2 in (True, False):
            it = _Sem(m)
            it.overrides[(T, "ctx")] = Rec("ctx", options=Rec("Options", http2=http2))
            client = Rec("Client", **{**_FRESH_CLIENT, "alpn_offers": list(client_offers)})
            server = Rec("Server", alpn=None, alpn_offers=[], sni=None, address=("example.org", 443), cipher_list=[], tls=True)
            tls_start = Rec("TlsData", conn=server, context=Rec("Context", client=client, server=server, layers=[]), ssl_conn=None, is_dtls=False)
            env = {PS: tls_start, "self": Rec("TlsConfig", _impl=(T, "TlsConfig"))}
            try:
                it.block(offer_stmts, env, tmod, 0)
            except _PyReturn:
                pass  # an early return among the statements that set the offers
            except Raised as r:
                raise AnalysisError(f"tls_start_server: the statements setting alpn_offers raise {r.name} in the interpretation")
            got = list(server.alpn_offers or [])
            ctx.cells += 1
            if http2:
                ctx.require(got == list(client_offers), f"tls_start_server: with http2 on the client's offers {client_offers} are not mirrored as they are ({got}): anchor changed")
                mirrored += 1
            elif H2 in got:
                leaking.append((client_offers, got))
            elif got:
                mirrored += 1
    ctx.require(mirrored > 4, "tls_start_server: the client's offers are not mirrored upstream (anchor changed)")
    ctx.check(not leaking, "R18.3", (T, "TlsConfig.tls_start_server", tss), "server.alpn_offers without h2 when http2 is off",
              f"h2 is mirrored to the upstream server although http2 is disabled, e.g. client offers {leaking[0][0] if leaking else ''} -> server offers {leaking[0][1] if leaking else ''}: upstream may negotiate h2 and the client is then given h2",
              desc="h2 filtered from mirrored offers when http2 is off")
    ctx.expect_instances("R18.3", 3 + n_worlds + 3)


def _r18_4(ctx):
    """Cooperating site of R18.3: tls_start_client computes the *override* handed to the callback from attributes of the Client object.  For
    TLS-over-TLS (a secure web proxy's CONNECT tunnel) the same Client object already carries the outer session's values, so
    ClientTLSLayer.__init__ must reset every attribute the override is computed from before the inner handshake - otherwise the outer protocol
    (http/1.1) is forced on the inner session although the upstream protocol is known.  Which attributes the override depends on is found
    semantically (the override is recomputed with one attribute of an established session changed at a time - helpers are followed by the
    interpreter); the statements of __init__ before super().__init__ are interpreted (pyint) on a client that has completed an outer session."""
    m = ctx.model
    tsc = ctx.func(T, "TlsConfig.tls_start_client")
    stmts, expr = _client_alpn_slice(tsc)
    ctx.require(len(tsc.args.args) == 2, "tls_start_client signature changed")
    P = tsc.args.args[1].arg
    OUTER = {"alpn": b"http/1.1", "alpn_offers": [b"http/1.1"], "sni": "proxy.example", "cipher": "TLS_AES_128_GCM_SHA256", "cipher_list": ["x"], "tls_version": "TLSv1.3",
             "timestamp_tls_setup": 1.0, "certificate_list": ["cert"], "mitmcert": "cert", "tls": True, "tls_established": True}
    OTHER = {"alpn": b"h2", "alpn_offers": [b"h2", b"zz"], "sni": "other.example", "cipher": "OTHER", "cipher_list": ["y", "z"], "tls_version": "TLSv1.2",
             "timestamp_tls_setup": 2.0, "certificate_list": ["cert", "cert2"], "mitmcert": "cert2", "tls": False, "tls_established": False}
    ctx.require(set(OUTER) == set(_FRESH_CLIENT) == set(OTHER), "R18.4: client models out of sync")
    worlds, modes_explicit, inner_stacks = _worlds(ctx)
    # the inner handshake of a TLS-over-TLS session: stacks as NextLayer builds them for a CONNECT through a secure web proxy
    inner = [(mode, *st, "HttpStream", "ClientTLSLayer") for mode in modes_explicit for st in inner_stacks]
    inner += [(mode, *st, "HttpStream", "ServerTLSLayer", "ClientTLSLayer") for mode in modes_explicit for st in inner_stacks]
    read = set()
    for stack in [w for w, swp in worlds if not swp]:
        base = _override_in_world(m, stmts, expr, stack, Rec("Client", **OUTER), P=P)
        ctx.require(not (isinstance(base, str) and base.startswith("<raises")), f"tls_start_client's override computation {base} on an established client (R18.4 model incomplete)")
        for a in OUTER:
            if _override_in_world(m, stmts, expr, stack, Rec("Client", **{**OUTER, a: OTHER[a]}), P=P) != base:
                read.add(a)
            ctx.cells += 1
    ctx.require(read, "tls_start_client: the client_alpn override no longer depends on an attribute of the client connection (R18.4 premise changed)")
    init = ctx.func(PT, "ClientTLSLayer.__init__")
    params = [a.arg for a in init.args.args]
    ctx.require(len(params) == 2, "ClientTLSLayer.__init__ signature changed")
    is_super_init = lambda st: any(isinstance(c, ast.Call) and isinstance(c.func, ast.Attribute) and c.func.attr == "__init__" for c in ast.walk(st))  # noqa: E731
    ctx.require(any(is_super_init(st) for st in init.body), "ClientTLSLayer.__init__: super().__init__ call not found")
    ctx.assume("the base classes' __init__ (TLSLayer / TunnelLayer / Layer) do not touch the TLS attributes of context.client; they store context as self.context")
    client = Rec("Client", **OUTER)
    context = Rec("Context", client=client, layers=[_layer_rec(m, "HttpProxy"), _layer_rec(m, "ClientTLSLayer"), _layer_rec(m, "HttpLayer")])
    me = Rec("ClientTLSLayer", _impl=(PT, "ClientTLSLayer"), context=context, conn=client)
    it = _Sem(m)
    env = {params[0]: me, params[1]: context}
    seen_super, not_followed = False, []
    for st in init.body:
        if is_super_init(st):
            seen_super = True
            continue
        try:
            it.stmt(st, env, m.module(PT), 0)
        except _PyReturn:
            break  # an early `return` of __init__
        except Raised as r:
            raise AnalysisError(f"ClientTLSLayer.__init__ raises {r.name} on a TLS-over-TLS client in the interpretation")
        except AnalysisError as e:
            if not seen_super:
                raise
            not_followed.append(f"{norm(st)[:60]}: {e}")  # after super().__init__: needs state of the base classes the model does not have

    def undecided(what):
        if not_followed:
            raise AnalysisError(f"ClientTLSLayer.__init__: {what} and statements after super().__init__ could not be interpreted ({not_followed[0]})")
        return False

    for a in sorted(read):
        v = getattr(client, a)
        ctx.check(not v or undecided(f"client.{a} is not reset"), "R18.4", (PT, "ClientTLSLayer.__init__", init), f"client.{a} reset before the inner (TLS-over-TLS) handshake",
                  f"client.{a} still holds the outer session's value {v!r} when the inner handshake starts: tls_start_client passes it to the ALPN callback as an override, "
                  "so the inner session is pinned to the outer protocol instead of following the upstream server", desc=f"TLS-over-TLS: client.{a} cleared by ClientTLSLayer.__init__")
    # and semantically: after the reset the override equals that of a fresh connection (no protocol is forced on the inner session)
    for stack in inner:
        got = _override_in_world(m, stmts, expr, stack, client, P=P)
        fresh = _override_in_world(m, stmts, expr, stack, Rec("Client", **_FRESH_CLIENT), P=P)
        ctx.check(got == fresh or undecided("the override differs from a fresh client's"), "R18.4", (PT, "ClientTLSLayer.__init__", init), f"override after the reset for layer stack [{', '.join(stack)}]",
                  f"after ClientTLSLayer.__init__ the ALPN override computed by tls_start_client is {got!r}, a fresh client connection gives {fresh!r}: state of the outer session leaks into the inner handshake",
                  desc=f"[{', '.join(stack)}]: override after reset = override of a fresh client ({fresh!r})")
    ctx.expect_instances("R18.4", 2)


def check(ctx):
    ctx.rule("R18.4", "ClientTLSLayer.__init__ clears, for TLS-over-TLS, every client attribute from which tls_start_client computes the ALPN override")
    ctx.rule("R18.1", "every return of alpn_select_callback is NO_OVERLAPPING_PROTOCOLS or proven a member of the offers on that path")
    ctx.rule("R18.2", "alpn_select_callback decision table over protocol classes x client override x upstream state x http2")
    ctx.rule("R18.3", "tls_start_client wiring of AppData (secure-web-proxy override, server.alpn, http2) and installation of the callback; no h2 mirrored upstream with http2 off")
    ctx.trust("pyOpenSSL set_alpn_select_callback / NO_OVERLAPPING_PROTOCOLS semantics")
    fn = ctx.func(T, "alpn_select_callback")
    params = [a.arg for a in fn.args.args]
    ctx.require(len(params) == 2 and not (fn.args.vararg or fn.args.kwarg or fn.args.kwonlyargs), "alpn_select_callback signature changed")
    table = _run_table(ctx, fn)
    # each rule is guarded: what a rule cannot model is reported (exit 2) only if no rule finds a violation
    ctx.guard(_r18_1, ctx, fn, params[1], table)
    ctx.guard(_r18_2, ctx, fn, table)
    ctx.guard(_r18_3, ctx)
    ctx.guard(_r18_4, ctx)


MUTANTS = [
    Mutant("tls-over-tls-keeps-outer-alpn", PT, "            context.client.alpn = None\n", "", "R18.4"),
    # reverse of the F-C18 fix (a66ecfd88)
    Mutant("F-C18-reverted-upstream-known-falls-through", T,
           "    if server_alpn:\n        if server_alpn in options:\n            return server_alpn\n        else:\n            # The remote server negotiated a protocol the client does not offer.\n            return SSL.NO_OVERLAPPING_PROTOCOLS\n",
           "    if server_alpn and server_alpn in options:\n        return server_alpn\n", "R18.2"),
    Mutant("override-returned-without-membership-test", T, "        if client_alpn in options:\n            return client_alpn\n        else:\n            return SSL.NO_OVERLAPPING_PROTOCOLS\n    if server_alpn:",
           "        return client_alpn\n    if server_alpn:", "R18.1"),
    Mutant("generic-loop-over-http-alpns-returns-unoffered", T, "    for alpn in options:\n        if alpn in http_alpns:\n            return alpn\n",
           "    for alpn in http_alpns:\n        if alpn in options or alpn == b\"http/1.1\":\n            return alpn\n", "R18.1"),
    Mutant("http2-flag-inverted", T, "proxy_tls.HTTP_ALPNS if http2 else proxy_tls.HTTP1_ALPNS", "proxy_tls.HTTP1_ALPNS if http2 else proxy_tls.HTTP_ALPNS", "R18.2"),
    Mutant("upstream-none-not-mirrored", T, "    if server_alpn == b\"\":\n", "    if server_alpn == b\"\" and not http2:\n", "R18.2"),
    Mutant("http1-alpns-gain-h2", PT, "HTTP1_ALPNS = (b\"http/1.1\", b\"http/1.0\", b\"http/0.9\")", "HTTP1_ALPNS = (b\"http/1.1\", b\"http/1.0\", b\"http/0.9\", b\"h2\")", "R18.2"),
    Mutant("server-preference-order", T, "    for alpn in options:\n        if alpn in http_alpns:\n            return alpn\n",
           "    for cand in http_alpns:\n        for alpn in options:\n            if alpn == cand:\n                return alpn\n", "R18.2"),
    # reverse of the F-C18b fix (91f49e320): the outer connection is recognised by "exactly two layers", which the real stack never has
    Mutant("F-C18b-reverted-two-layers-only", T, "        if is_outer_tls and isinstance(\n            proxy_layers[0], (modes.HttpProxy, modes.HttpUpstreamProxy)\n        ):",
           "        if len(proxy_layers) == 2 and isinstance(proxy_layers[0], modes.HttpProxy):", "R18.3"),
    Mutant("secure-web-proxy-upstream-mode-forgotten", T, "proxy_layers[0], (modes.HttpProxy, modes.HttpUpstreamProxy)", "proxy_layers[0], modes.HttpProxy", "R18.3"),
    Mutant("secure-web-proxy-inner-tls-also-forced", T, "            and not any(\n                isinstance(x, proxy_tls.ClientTLSLayer) for x in proxy_layers[2:]\n            )\n", "", "R18.3"),
    Mutant("secure-web-proxy-or", T, "        if is_outer_tls and isinstance(", "        if is_outer_tls or isinstance(", "R18.3"),
    Mutant("next-layer-builds-http-before-tls", "mitmproxy/addons/next_layer.py", "            stack /= layers.ClientTLSLayer(context)\n\n        if isinstance(context.layers[0], modes.HttpUpstreamProxy):",
           "            stack /= layers.ClientTLSLayer(context)\n            stack /= layers.ServerTLSLayer(context)\n            stack /= layers.ClientTLSLayer(context)\n\n        if isinstance(context.layers[0], modes.HttpUpstreamProxy):", "R18.3"),
    Mutant("appdata-server-alpn-from-client", T, "                server_alpn=server.alpn,\n", "                server_alpn=client.alpn,\n", "R18.3"),
    Mutant("appdata-http2-hardcoded", T, "                http2=ctx.options.http2,\n", "                http2=True,\n", "R18.3"),
    Mutant("callback-not-passed", T, "            alpn_select_callback=alpn_select_callback,\n", "            alpn_select_callback=None,\n", "R18.3"),
    Mutant("h2-mirrored-with-http2-off", T, "                        x for x in client.alpn_offers if x != b\"h2\"\n", "                        x for x in client.alpn_offers if x != b\"h3\"\n", "R18.3"),
]
