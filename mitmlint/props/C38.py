"""C38 - flows from older mitmproxy versions load correctly.

Decided (io/compat.py, version.py, io/io.py):
  R38.1 converter chain: ``converters`` is a literal table; every converter function assigns exactly one constant next
        version (unconditionally) and returns its data on every path; normalising versions as ``migrate_flow`` does
        (non-int -> first N components), the chain from EVERY key reaches version.FLOW_FORMAT_VERSION without a
        cycle or a gap; integer versions advance by exactly one; no function serves two versions; no converter for
        the current version; tuple keys have the length migrate_flow compares; and each converter writes the
        version under the key kind (bytes before the first convert_unicode in the chain, str from then on) that
        ``migrate_flow`` reads first - a stale key of the other kind would be re-read forever.
  R38.2 ``migrate_flow``: returns only after deciding ``version == FLOW_FORMAT_VERSION`` (so current states pass
        through untouched - no converter runs after that decision - and unknown versions never slip through);
        a version that is neither current nor in the table raises ValueError whose message carries the offending
        version; known versions are converted by ``converters[version](data)`` and the result replaces the data;
        ``FlowReader.stream`` turns that ValueError into FlowReadException.
  R38.3 cross-record migration state ("every flow file written by a supported older version loads into valid current
        flows"): some historical formats spread one current flow over several records (format <= 11: a WebSocket
        handshake record and a later websocket record that refers to it by id; format <= 4: flows sharing a connection),
        so converters keep module-level containers between records.  Records of different connections interleave
        arbitrarily in old dumps, hence such a container may only be touched BY KEY from the code reachable from
        ``converters`` / ``migrate_flow``: keyed insert (``X[k] = v`` / ``setdefault`` / ``update``), keyed lookup
        (``X[k]`` / ``get`` / ``k in X``) and removal by the lookup that consumes the entry (``pop(k)`` whose value is
        used, ``del X[k]`` next to a read of the same key).  Bulk or unkeyed eviction (``clear()``, ``popitem()``,
        rebinding the global, a discarded ``pop``) loses the partner of a record that arrives later; a container that is
        consumed but never filled loses every partner.  Any other use (``len``, iteration, aliasing) is refused (exit 2).
NOT decided: what each converter does to the rest of the state (value-level migration), the historical dump files.
Narrowed from DESIGN: "message distinguishes newer versions" is reduced to "the message contains the offending
version" - the exact wording is not a necessary condition of an explanatory error.
"""

from __future__ import annotations

import ast

from ..core import AnalysisError
from ..core import norm
from ..model import attr_chain
from ..model import last_attr
from ..selftest import Mutant
from ._helpers_E import dict_literal
from ._helpers_E import params
from ._helpers_E import expect
from ._helpers_E import paths
from ._helpers_E import raises_at
from ._helpers_E import show

PROP = "C38"
REG = {
    "strength": "partial",
    "technique": "literal-table chain analysis (converters x version constants) + path enumeration of migrate_flow and FlowReader.stream + use classification of the "
    "module-level containers reachable from the converters",
    "claim": "every historical format version in compat.converters is carried, step by step and without cycle or gap, to "
    "version.FLOW_FORMAT_VERSION under the version key migrate_flow reads; migrate_flow is the identity on current-version states, "
    "rejects unknown versions with a ValueError naming the version, and FlowReader.stream reports it as FlowReadException; the containers converters "
    "keep between records (WebSocket handshakes, connection ids) are only inserted into, looked up and consumed by key - never evicted in bulk.",
    "note": "Does not decide what the converters do to the rest of the state. Loops unrolled twice.",
}

CP = "mitmproxy/io/compat.py"
VR = "mitmproxy/version.py"
IO = "mitmproxy/io/io.py"


def _normaliser(ctx, mf):
    """(version variable, N) from ``if not isinstance(v, int): v = tuple(v)[:N]`` in migrate_flow."""
    for n in ast.walk(mf):
        if isinstance(n, ast.Assign) and isinstance(n.value, ast.Subscript) and isinstance(n.value.slice, ast.Slice):
            v = n.value
            if isinstance(v.value, ast.Call) and last_attr(v.value.func) == "tuple" and v.slice.lower is None and isinstance(v.slice.upper, ast.Constant):
                tgt = n.targets[0]
                arg = v.value.args[0] if v.value.args else None
                if isinstance(tgt, ast.Name) and isinstance(arg, ast.Name) and arg.id == tgt.id:
                    guard = n._parent
                    ok = isinstance(guard, ast.If) and ast.unparse(guard.test) == f"not isinstance({tgt.id}, int)"
                    ctx.require(ok, f"migrate_flow: version normalisation is not guarded by 'not isinstance({tgt.id}, int)': {ast.unparse(guard)[:80]}")
                    return tgt.id, v.slice.upper.value
    ctx.require(False, "migrate_flow: version normalisation tuple(v)[:N] not found (shape not modelled)")

_KEYED_READ = {"get", "setdefault", "__getitem__", "__contains__"}
_KEYED_STORE = {"setdefault", "update", "__setitem__"}
_EVICT = {"clear": "clear() drops every pending entry", "popitem": "popitem() drops an entry chosen by insertion order, not by the record that refers to it"}


def _cross_record_state(ctx, rows):
    """R38.3: classify every use of a module-level mutable container in the code reachable from converters/migrate_flow."""
    mod = ctx.model.module(CP)
    containers = {}
    for st in mod.tree.body:
        tg, val = None, None
        if isinstance(st, ast.Assign) and len(st.targets) == 1 and isinstance(st.targets[0], ast.Name):
            tg, val = st.targets[0].id, st.value
        elif isinstance(st, ast.AnnAssign) and isinstance(st.target, ast.Name) and st.value is not None:
            tg, val = st.target.id, st.value
        if tg is None or tg == "converters":
            continue
        if isinstance(val, (ast.Dict, ast.List, ast.Set)) or (isinstance(val, ast.Call) and last_attr(val.func) in ("dict", "list", "set", "OrderedDict", "defaultdict", "deque", "WeakValueDictionary")):
            containers[tg] = st
    funcs = {d.name: d for d in mod.tree.body if isinstance(d, (ast.FunctionDef, ast.AsyncFunctionDef))}
    reach, todo = {}, [f for f in set(rows.values()) | {"migrate_flow"} if f in funcs]
    while todo:
        name = todo.pop()
        if name in reach:
            continue
        reach[name] = funcs[name]
        for n in ast.walk(funcs[name]):
            if isinstance(n, ast.Name) and n.id in funcs and n.id not in reach:  # called or passed on: both may run it
                todo.append(n.id)
    unknown = []
    uses = {c: {"store": [], "read": [], "consume": []} for c in containers}
    bad = False
    for fname in sorted(reach):
        fn = reach[fname]
        globs = {g for n in ast.walk(fn) if isinstance(n, ast.Global) for g in n.names}
        shadow = {a.arg for n in ast.walk(fn) if isinstance(n, ast.arguments) for a in n.posonlyargs + n.args + n.kwonlyargs + ([n.vararg] if n.vararg else []) + ([n.kwarg] if n.kwarg else [])}
        keyed_reads = set()
        dels = []
        for n in ast.walk(fn):
            if not (isinstance(n, ast.Name) and n.id in containers):
                continue
            c = n.id
            if c in shadow:
                unknown.append(f"{fname}: parameter {c} shadows the module-level container")
                continue
            p = n._parent
            if isinstance(n.ctx, (ast.Store, ast.Del)):
                if c in globs:
                    bad = True
                    ctx.fail("R38.3", (CP, fname, n), f"{fname}: rebinds {c}",
                             f"the converter replaces the container {c} that carries state from earlier records: every pending entry is dropped, so a later record "
                             "that refers to an earlier one (e.g. the websocket record of an interleaved connection) loses its partner and loads as a wrong flow")
                else:
                    unknown.append(f"{fname}: local name {c} shadows the module-level container")
                continue
            if isinstance(p, ast.Subscript) and p.value is n and not isinstance(p.slice, ast.Slice):
                k = norm(p.slice)
                if isinstance(p.ctx, ast.Store):
                    uses[c]["store"].append(f"{fname}: {c}[{k}] = ...")
                elif isinstance(p.ctx, ast.Load):
                    uses[c]["read"].append(f"{fname}: {c}[{k}]")
                    keyed_reads.add((c, k))
                else:
                    dels.append((c, k, p))
                continue
            if isinstance(p, ast.Attribute) and p.value is n and isinstance(getattr(p, "_parent", None), ast.Call) and p._parent.func is p:
                call, meth = p._parent, p.attr
                if meth in _EVICT:
                    bad = True
                    ctx.fail("R38.3", (CP, fname, call), f"{fname}: {c}.{meth}()",
                             f"{_EVICT[meth]}: records of different connections interleave in old dumps, so a record that refers to an evicted entry "
                             "(e.g. the websocket record whose handshake was written before another handshake) is migrated without its partner and loads as a wrong flow")
                    continue
                if meth == "pop" and call.args:
                    k = norm(call.args[0])
                    if isinstance(getattr(call, "_parent", None), ast.Expr):
                        bad = True
                        ctx.fail("R38.3", (CP, fname, call), f"{fname}: {c}.pop({k}) discarded",
                                 "an entry is removed without being joined to the record that refers to it: that record later loads without its partner")
                    else:
                        uses[c]["consume"].append(f"{fname}: {c}.pop({k})")
                        keyed_reads.add((c, k))
                    continue
                if meth in _KEYED_READ | _KEYED_STORE and (call.args or call.keywords):
                    if meth in _KEYED_STORE:
                        uses[c]["store"].append(f"{fname}: {c}.{meth}(...)")
                    if meth in _KEYED_READ:
                        uses[c]["read"].append(f"{fname}: {c}.{meth}({norm(call.args[0]) if call.args else ''})")
                        if call.args:
                            keyed_reads.add((c, norm(call.args[0])))
                    continue
                unknown.append(f"{fname}: {norm(call)[:80]}")
                continue
            if isinstance(p, ast.Compare) and len(p.ops) == 1 and isinstance(p.ops[0], (ast.In, ast.NotIn)) and p.comparators[0] is n:
                uses[c]["read"].append(f"{fname}: {norm(p.left)} in {c}")
                keyed_reads.add((c, norm(p.left)))
                continue
            unknown.append(f"{fname}: {norm(p)[:80]}")
        for c, k, node in dels:
            if (c, k) in keyed_reads:
                uses[c]["consume"].append(f"{fname}: del {c}[{k}]")
            else:
                bad = True
                ctx.fail("R38.3", (CP, fname, node), f"{fname}: del {c}[{k}] without a lookup of that key",
                         "an entry is removed without being joined to the record that refers to it: that record later loads without its partner")
    if bad:
        return
    if unknown:
        raise AnalysisError("R38.3: use of cross-record migration state that is not a keyed operation (not modelled): " + "; ".join(unknown[:4]))
    live = 0
    for c, u in sorted(uses.items()):
        if not (u["store"] or u["read"] or u["consume"]):
            continue
        live += 1
        if (u["read"] or u["consume"]) and not u["store"]:
            ctx.fail("R38.3", (CP, "<module>", containers[c]), f"{c}: looked up but never filled",
                     f"converters look entries up in {c} ({(u['consume'] + u['read'])[0]}) but no reachable converter inserts any: every record that refers to an earlier record loses its partner")
            continue
        ctx.ok("R38.3", f"{c}: keyed only - {len(u['store'])} insert(s), {len(u['read'])} lookup(s), {len(u['consume'])} consuming removal(s); no bulk eviction in {len(reach)} reachable functions")
    ctx.require(live >= 1, "R38.3: no module-level container is used by the converters any more (anchor moved)")



def check(ctx):
    ctx.rule("R38.1", "converter table: constant next versions, chain from every key reaches FLOW_FORMAT_VERSION (no cycle/gap, ints +1, key kind consistent with what migrate_flow reads)")
    ctx.rule("R38.2", "migrate_flow: identity on the current version, ValueError naming the version for unknown ones, conversion result replaces the data; stream maps it to FlowReadException")
    ctx.rule("R38.3", "cross-record migration state (module-level containers reachable from converters) is inserted into, looked up and consumed by key only - no bulk/unkeyed eviction, never consumed without being filled")
    m = ctx.model
    cur = m.literal(VR, "FLOW_FORMAT_VERSION")
    ctx.require(isinstance(cur, int) and not isinstance(cur, bool), f"FLOW_FORMAT_VERSION is not an int: {cur!r}")
    mf = ctx.func(CP, "migrate_flow")
    vvar, ncomp = _normaliser(ctx, mf)

    def normv(v):
        return v if isinstance(v, int) else tuple(v)[:ncomp]

    # which key does migrate_flow read first?
    reads = [n for n in ast.walk(mf) if isinstance(n, ast.Assign) and any(isinstance(t, ast.Name) and t.id == vvar for t in n.targets) and isinstance(n.value, ast.Call) and last_attr(n.value.func) == "get"]
    ctx.require(len(reads) == 1, "migrate_flow: version read (data.get(k1, data.get(k2))) not found")
    g = reads[0].value
    dvar = attr_chain(g.func.value)
    inner = g.args[1] if len(g.args) == 2 else None
    ok = (dvar and isinstance(g.args[0], ast.Constant) and isinstance(inner, ast.Call) and last_attr(inner.func) == "get" and attr_chain(inner.func.value) == dvar
          and len(inner.args) == 1 and isinstance(inner.args[0], ast.Constant))
    ctx.require(ok, f"migrate_flow: version read has an unmodelled shape: {ast.unparse(g)}")
    k1, k2 = g.args[0].value, inner.args[0].value
    ctx.require({k1, k2} == {b"version", "version"}, f"migrate_flow reads the version from {k1!r}/{k2!r}")
    primary_bytes = isinstance(k1, bytes)

    # ---- R38.1 the table
    table = dict_literal(m.const(CP, "converters"), "compat.converters")
    rows = {}
    funcs_used = {}
    tbad = False
    for k, v in table:
        try:
            key = ast.literal_eval(k)
        except Exception:
            ctx.require(False, f"converters key is not a literal: {ast.unparse(k)}")
        ctx.require(isinstance(v, ast.Name) and m.has(CP, v.id), f"converters[{key!r}] is not a module-level function name: {ast.unparse(v)}")
        ctx.cells += 1
        if key in rows:
            tbad = True
            ctx.fail("R38.1", (CP, "<module>", k), f"converters: duplicate key {key!r}", "two converters for one version: the first is silently dropped")
        if isinstance(key, tuple) and len(key) != ncomp:
            tbad = True
            ctx.fail("R38.1", (CP, "<module>", k), f"converters: key {key!r}", f"migrate_flow compares the first {ncomp} components, so this key can never match: files of that version are rejected")
        if v.id in funcs_used:
            tbad = True
            ctx.fail("R38.1", (CP, "<module>", k), f"converters: {v.id} serves {funcs_used[v.id]!r} and {key!r}", "one converter registered for two versions: one of them is migrated by the wrong step")
        funcs_used[v.id] = key
        rows[key] = v.id
    ctx.require(len(rows) >= 20, f"converters has only {len(rows)} rows")

    nxt, kind, uni = {}, {}, {}
    for key, fname in rows.items():
        fn = ctx.func(CP, fname)
        ps = params(fn, drop_self=False)
        ctx.require(len(ps) == 1, f"{fname} no longer takes exactly the flow state")
        data = ps[0]
        writes = []
        for n in ast.walk(fn):
            if isinstance(n, ast.Assign):
                for t in n.targets:
                    if isinstance(t, ast.Subscript) and attr_chain(t.value) == data and isinstance(t.slice, ast.Constant) and t.slice.value in (b"version", "version"):
                        writes.append((n, t.slice.value))
        if not writes:
            tbad = True
            ctx.fail("R38.1", (CP, fname, fn), f"{fname}: no version assignment", "the converter does not advance the version: migrate_flow applies it again and again")
            continue
        ctx.require(len(writes) == 1 and writes[0][0] in fn.body, f"{fname}: version assigned {len(writes)}x or conditionally - shape not modelled")
        node, wkey = writes[0]
        try:
            val = ast.literal_eval(node.value)
        except Exception:
            ctx.require(False, f"{fname}: next version is not a constant: {ast.unparse(node.value)}")
        nxt[key] = normv(val)
        kind[key] = "bytes" if isinstance(wkey, bytes) else "str"
        # convert_unicode applied (and its result bound to the data variable) before the version write?
        uni[key] = any(isinstance(s, ast.Assign) and isinstance(s.value, ast.Call) and last_attr(s.value.func) == "convert_unicode" and attr_chain(s.targets[0]) == data
                       and s.lineno < node.lineno for s in fn.body)
        # returns its data on every path
        trs, eng = paths(fn, keep=lambda e: e[0] == "return", record_conds=False)
        ctx.paths += len(trs)
        rets = {tuple(e[1] for e in t if e[0] == "return") for t, how in trs if how == "return"}
        if rets != {(data,)}:
            tbad = True
            ctx.fail("R38.1", (CP, fname, fn), f"{fname}: returns {sorted(rets)}", "a converter path does not return the state: migrate_flow continues with None")

    # chain from every key
    n_chain = 0
    for key in rows:
        if key not in nxt:
            continue
        seen, k = [key], key
        why = None
        while True:
            if k not in nxt:
                why = f"version {k!r} has no usable converter"
                break
            n = nxt[k]
            if isinstance(k, int) and n != k + 1:
                why = f"converter for integer version {k} produces {n!r}, not {k + 1} (a migration step is skipped or repeated)"
                break
            if n == cur:
                break
            if n in seen:
                why = f"cycle {seen + [n]!r}"
                break
            if n not in rows:
                why = f"chain stops at {n!r}, which is neither in converters nor the current version {cur}"
                break
            seen.append(n)
            k = n
        ctx.cells += 1
        if why:
            tbad = True
            ctx.fail("R38.1", (CP, "converters", 0), f"chain: {why}", f"files of historical versions (e.g. {key!r}) cannot be migrated to the current format")
        else:
            n_chain += 1
            ctx.ok("R38.1", f"{rows[key]}: chain from {key!r} reaches {cur} in {len(seen)} step(s)")
    if cur in rows:
        tbad = True
        ctx.fail("R38.1", (CP, "<module>", 0), f"converters has a row for the current version {cur}", "current-format states would not pass through unchanged")

    # key kind along the (unique) chain
    roots = [k for k in rows if k not in set(nxt.values())]
    if not tbad:
        ctx.require(len(roots) == 1, f"converters: expected one oldest version, found {roots!r}")
        order, k = [], roots[0]
        while k in rows and k not in order:
            order.append(k)
            k = nxt[k]
        ctx.require(primary_bytes, "migrate_flow now prefers the str 'version' key: key-kind rule must be re-derived")
        converted = False
        for k in order:
            converted = converted or uni[k]
            want = "str" if converted else "bytes"
            ctx.cells += 1
            if kind[k] != want:
                tbad = True
                ctx.fail("R38.1", (CP, rows[k], 0), f"{rows[k]}: writes the {kind[k]} version key",
                         f"at this point of the chain the state has {want} keys; migrate_flow reads b'version' first, so a stale key of the other kind is read again (endless/failed migration)")
        ctx.require(any(uni.values()), "no converter applies convert_unicode any more: key-kind rule must be re-derived")
    if not tbad:
        ctx.ok("R38.1", f"{len(rows)} converters: constant next version, return data; {n_chain} chains reach {cur}; ints +1; key kinds consistent (bytes until {next(rows[k] for k in order if uni[k])})")
        ctx.sample({"chain": [repr(k) for k in order] + [cur]})

    # ---- R38.2 migrate_flow paths
    dps = params(mf, drop_self=False)
    ctx.require(len(dps) == 1 and dps[0] == dvar, "migrate_flow: data parameter changed")

    def is_eq(x):
        if isinstance(x, ast.Compare) and len(x.ops) == 1 and isinstance(x.ops[0], ast.Eq):
            sides = {ast.unparse(x.left), ast.unparse(x.comparators[0])}
            return sides == {vvar, "version.FLOW_FORMAT_VERSION"}
        return False

    def is_member(x):
        return isinstance(x, ast.Compare) and len(x.ops) == 1 and isinstance(x.ops[0], ast.In) and ast.unparse(x.left) == vvar and ast.unparse(x.comparators[0]) == "converters"

    def classify(e):
        if e[0] != "cond":
            return None
        x = ast.parse(e[1], mode="eval").body
        if is_eq(x):
            return ("eq", e[2])
        if is_member(x):
            return ("in", e[2])
        return None

    conv_call = f"converters[{vvar}]"
    trs, eng = paths(mf, unroll=2, keep=lambda e: (e[0] == "call" and e[1].startswith("converters")) or (e[0] == "assign" and e[1] in (vvar, dvar)) or e[0] == "raise")
    ctx.paths += len(trs)
    bad = False
    n_ret = n_rej = n_conv = 0
    for t, how in trs:
        probs = []
        # segment the trace at version reads
        last_eq = None
        for i, e in enumerate(t):
            c = classify(e)
            if e[0] == "assign" and e[1] == vvar and ".get(" in e[2]:
                last_eq = None
            elif c and c[0] == "eq":
                last_eq = c[1]
            elif e[0] == "call" and e[1].startswith("converters"):
                n_conv += 1
                if last_eq is True:
                    probs.append("a converter runs although the state already has the current version (current states must pass through unchanged)")
                good = e[1] == conv_call and e[2] == (dvar,) and i + 1 < len(t) and t[i + 1][0] == "assign" and t[i + 1][1] == dvar
                if not good:
                    probs.append(f"conversion is not '{dvar} = converters[{vvar}]({dvar})': the converted state is lost or the wrong converter runs")
        if how == "return":
            n_ret += 1
            if last_eq is not True:
                probs.append("returns without having decided version == FLOW_FORMAT_VERSION: unknown or unmigrated versions are passed on as current flows")
        elif how.startswith("raise:"):
            decided = [classify(e) for e in t if classify(e)]
            if decided[-2:] and ("in", False) in decided[-2:] and ("eq", True) not in decided[-2:]:
                n_rej += 1
                if how != "raise:ValueError":
                    probs.append(f"unknown versions are rejected with {how[6:]}, not ValueError (FlowReader.stream converts ValueError)")
        for p in probs:
            bad = True
            ctx.fail("R38.2", (CP, "migrate_flow", mf), f"migrate_flow: path [{show([e for e in t if e[0] in ('cond', 'call', 'raise')], 8)}]", p)
    if not bad and n_ret == 0:
        bad = True
        ctx.fail("R38.2", (CP, "migrate_flow", mf), "migrate_flow: no returning path", "a state that already has the current version is not returned")
    if not bad and n_rej == 0:
        bad = True
        ctx.fail("R38.2", (CP, "migrate_flow", mf), "migrate_flow: no rejecting path", "a version that is neither current nor in converters is not rejected with an error")
    if not bad and n_conv == 0:
        bad = True
        ctx.fail("R38.2", (CP, "migrate_flow", mf), "migrate_flow: no converting path", "known historical versions are not converted")
    if not bad:
        ctx.ok("R38.2", f"migrate_flow: {len(trs)} paths (return only after ==current; converters[v](data) replaces data; unknown -> ValueError)")

    # the error names the offending version
    raises = [n for n in ast.walk(mf) if isinstance(n, ast.Raise) and n.exc is not None]
    ctx.require(raises, "migrate_flow has no raise statement") if not bad else None
    for r in raises:
        names = {n.id for n in ast.walk(r.exc) if isinstance(n, ast.Name)}
        for s in ast.walk(mf):  # one level of local string-building definitions (not flags derived from the version)
            if isinstance(s, ast.Assign) and isinstance(s.value, (ast.Call, ast.JoinedStr, ast.BinOp)) and any(isinstance(t, ast.Name) and t.id in names for t in s.targets):
                names |= {n.id for n in ast.walk(s.value) if isinstance(n, ast.Name)}
        ctx.check(vvar in names, "R38.2", (CP, "migrate_flow", r), f"raise {last_attr(r.exc)}(...)",
                  "the rejection message does not contain the offending flow format version: not an explanatory error",
                  desc="rejection message carries the version")

    # stream maps the ValueError
    stream = ctx.func(IO, "FlowReader.stream")
    mcalls = [c for c in ast.walk(stream) if isinstance(c, ast.Call) and last_attr(c.func) == "migrate_flow"]
    ctx.require(len(mcalls) == 1, f"FlowReader.stream calls migrate_flow {len(mcalls)}x")
    trs, eng = paths(stream, keep=lambda e: e[0] == "raise", record_conds=False,
                     may_raise=raises_at(mcalls[0], ["ValueError"]))
    ctx.paths += len(trs)
    outcomes = {how for t, how in trs if any(e[0] == "except" and e[1] == "ValueError" for e in t) or how == "raise:ValueError"}
    ctx.check(outcomes and outcomes <= {"raise:FlowReadException"}, "R38.2", (IO, "FlowReader.stream", stream), "stream: ValueError from migrate_flow",
              f"the rejection of an unknown flow format version leaves stream() as {sorted(outcomes) or 'an unhandled ValueError'} instead of FlowReadException",
              desc="stream: ValueError from migrate_flow -> FlowReadException")

    # ---- R38.3 state carried between records
    ctx.guard(_cross_record_state, ctx, rows)

    expect(ctx, "R38.1", 29 + 1)
    expect(ctx, "R38.2", 3)
    expect(ctx, "R38.3", 3)


MUTANTS = [
    Mutant("format-bumped-without-converter", VR, "FLOW_FORMAT_VERSION = 21", "FLOW_FORMAT_VERSION = 22", "R38.1"),
    Mutant("table-row-removed", CP, "    12: convert_12_13,\n", "", "R38.1"),
    Mutant("converter-does-not-advance", CP, "def convert_12_13(data):\n    data[\"version\"] = 13\n", "def convert_12_13(data):\n    data[\"version\"] = 12\n", "R38.1"),
    Mutant("row-skips-a-step", CP, "    7: convert_7_8,\n", "    7: convert_8_9,\n", "R38.1"),
    Mutant("str-key-before-unicode-conversion", CP, "    data[b\"version\"] = (0, 17)\n", "    data[\"version\"] = (0, 17)\n", "R38.1"),
    Mutant("bytes-key-after-unicode-conversion", CP, "    data[\"version\"] = (2, 0, 0)\n", "    data[b\"version\"] = (2, 0, 0)\n", "R38.1"),
    Mutant("three-component-key", CP, "    (3, 0): convert_300_4,\n", "    (3, 0, 0): convert_300_4,\n", "R38.1"),
    Mutant("converter-drops-return", CP, "        data[\"server_conn\"][\"tls_version\"] = \"QUICv1\"\n    return data\n", "        data[\"server_conn\"][\"tls_version\"] = \"QUICv1\"\n", "R38.1"),
    Mutant("converter-for-current-version", CP, "    20: convert_20_21,\n}", "    20: convert_20_21,\n    21: convert_unicode,\n}", "R38.1"),
    Mutant("unknown-version-accepted", CP,
           "            should_upgrade = (\n                isinstance(flow_version, int)\n                and flow_version > version.FLOW_FORMAT_VERSION\n            )\n            raise ValueError(\n                \"{} cannot read files with flow format version {}{}.\".format(\n                    version.MITMPROXY,\n                    flow_version,\n                    \", please update mitmproxy\" if should_upgrade else \"\",\n                )\n            )\n",
           "            break\n", "R38.2"),
    Mutant("current-version-not-recognised", CP, "        if flow_version == version.FLOW_FORMAT_VERSION:\n            break\n        elif flow_version in converters:", "        if flow_version in converters:", "R38.2"),
    Mutant("conversion-result-dropped", CP, "            flow_data = converters[flow_version](flow_data)\n", "            converters[flow_version](copy.deepcopy(flow_data))\n", "R38.2"),
    Mutant("converter-before-version-check", CP, "        if flow_version == version.FLOW_FORMAT_VERSION:\n            break\n        elif flow_version in converters:\n            flow_data = converters[flow_version](flow_data)\n",
           "        if flow_version == version.FLOW_FORMAT_VERSION:\n            flow_data = converters[flow_version](flow_data)\n            break\n        elif flow_version in converters:\n            flow_data = converters[flow_version](flow_data)\n", "R38.2"),
    Mutant("message-without-version", CP, "                    version.MITMPROXY,\n                    flow_version,\n", "                    version.MITMPROXY,\n                    \"?\",\n", "R38.2"),
    # seed C38b: the handshake cache is emptied before a new handshake is remembered
    Mutant("handshake-cache-cleared-on-insert", CP, "        _websocket_handshakes[data[\"id\"]] = copy.deepcopy(data)\n",
           "        _websocket_handshakes.clear()\n        _websocket_handshakes[data[\"id\"]] = copy.deepcopy(data)\n", "R38.3"),
    Mutant("handshake-cache-rebound", CP, "        _websocket_handshakes[data[\"id\"]] = copy.deepcopy(data)\n",
           "        global _websocket_handshakes\n        _websocket_handshakes = {data[\"id\"]: copy.deepcopy(data)}\n", "R38.3"),
    Mutant("handshake-cache-bounded-popitem", CP, "        _websocket_handshakes[data[\"id\"]] = copy.deepcopy(data)\n",
           "        if _websocket_handshakes:\n            _websocket_handshakes.popitem()\n        _websocket_handshakes[data[\"id\"]] = copy.deepcopy(data)\n", "R38.3"),
    Mutant("handshake-never-remembered", CP, "    if \"websocket\" in data[\"metadata\"]:\n        _websocket_handshakes[data[\"id\"]] = copy.deepcopy(data)\n\n", "", "R38.3"),
    Mutant("connection-ids-forgotten-per-flow", CP, "def convert_4_5(data):\n    data[\"version\"] = 5\n", "def convert_4_5(data):\n    data[\"version\"] = 5\n    server_connections.clear()\n", "R38.3"),
    Mutant("rejection-not-mapped", IO, "raise exceptions.FlowReadException(e) from e\n            except (\n                ValueError,\n", "raise\n            except (\n", "R38.2"),
]
