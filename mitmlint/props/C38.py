"""C38 - flows from older mitmproxy versions load correctly.

Decided (io/compat.py, version.py, io/io.py).  R38.1 / R38.2 are decided by INTERPRETING ``compat.migrate_flow`` and ``FlowReader.stream`` from
their ASTs (mitmlint/pyint.py; nothing is imported or executed) on synthetic flow states of historical format versions - how the functions are
written (local names, if/elif vs guard clauses, break vs return, helpers the version lookup or the error construction was moved into, logging,
assertions, f-strings) does not matter, only what they do with those states:
  R38.1 converter chain.  The converter table (the module-level mapping version -> converter function of compat.py, whatever it is called) is
        obtained by EXECUTING the module's top-level statements in order (``_MInterp.run_module``): a dict literal, a registry filled by a
        registering decorator on every converter (``@converts_from(7)``), ``TABLE[k] = f`` / ``TABLE.update(..)`` statements or a loop over
        pairs all give the same mapping; a top level that raises (a duplicate registration caught by an assertion) is reported.  ``migrate_flow`` is interpreted on entry states modelled on the shipped historical dumps - an HTTP flow of format (0, 11, x)
        with bytes keys, a WebSocket handshake/messages pair and a lone messages record of format 7, an HTTP flow without response of format 10
        - and every converter invocation is observed: the migration terminates (no converter runs twice for one state: a converter that does
        not advance the version migrate_flow reads - wrong constant, wrong key kind bytes/str, result dropped - is applied again and again),
        ends in a state whose ``version`` is version.FLOW_FORMAT_VERSION and that migrate_flow then leaves alone, never stops at a version
        without converter, applies the rows in key order with integer versions advancing by exactly one and the last one reaching the
        current version, and the entry states together exercise EVERY row of the table (a row nothing reaches - e.g. a tuple key of the
        wrong length - is reported).  Table sanity on the evaluated mapping: no function serves two versions, no row for the current version.
  R38.2 ``migrate_flow`` on the boundary: a state that already has the current version comes back untouched (same content, not modified in
        place, no converter runs); unknown versions - the next integer, a far future integer, an unknown tuple - raise ValueError (no converter runs,
        nothing is returned) whose message contains the offending version; ``FlowReader.stream``, interpreted on a one-record file of an
        unknown version, raises FlowReadException; interpreted on files holding an old / a current record it hands ``Flow.from_state`` a
        state of the current version (the reader really migrates).
  R38.3 cross-record migration state ("every flow file written by a supported older version loads into valid current flows"): some historical
        formats spread one current flow over several records (format <= 11: a WebSocket handshake record and a later websocket record that
        refers to it by id; format <= 4: flows sharing a connection), so converters keep module-level containers between records.  Records of
        different connections interleave arbitrarily in old dumps, hence such a container may only be touched BY KEY from the code reachable
        from the converter table / ``migrate_flow``: keyed insert (``X[k] = v`` / ``setdefault`` / ``update``), keyed lookup (``X[k]`` /
        ``get`` / ``k in X``) and removal by the lookup that consumes the entry (``pop(k)`` whose value is used, ``del X[k]`` next to a read
        of the same key).  The container is followed through its other names: a local alias (``t = X``, ``t = X if c else Y``, walrus, ``for t in (X, Y)``,
        ``for t, conn, field in ((X, ..), (Y, ..))``) and the parameter of a module helper it is handed to (``_stable_id(X, conn, "address")``) -
        the uses of that name are classified like uses of ``X`` itself; ``len(X)`` / ``bool(X)`` / truth tests only observe.  Bulk or unkeyed eviction (``clear()``, ``popitem()``, rebinding the global, a discarded ``pop``) loses the partner
        of a record that arrives later; a container that is consumed but never filled loses every partner.  Any other use (iteration, returning / storing
        the container, handing it to code outside the module) is refused (exit 2).  In addition the interleaving itself is interpreted: two handshakes followed by their two message
        records (in the other order) must each be joined with their own handshake.
NOT decided: what each converter does to the rest of the state (value-level migration) beyond the paths the entry states take, the
historical dump files themselves.
Narrowed from DESIGN: "message distinguishes newer versions" is reduced to "the message contains the offending version" - the exact wording is
not a necessary condition of an explanatory error.
"""

from __future__ import annotations

import ast
import builtins
import copy
import io
import time
import uuid

from ..core import AnalysisError
from ..core import norm
from ..model import last_attr
from ..pyint import ClassRef
from ..pyint import Func
from ..pyint import Interp
from ..pyint import NullLog
from ..pyint import Raised
from ..pyint import Rec
from ..selftest import Mutant
from ._helpers_E import expect

PROP = "C38"
REG = {
    "strength": "partial",
    "technique": "AST interpretation (pyint) of migrate_flow / the converters / FlowReader.stream on synthetic historical flow states with every "
    "converter invocation observed + use classification of the module-level containers reachable from the converters",
    "claim": "synthetic states of the historical formats (0.11 HTTP, 7 WebSocket pair, 10 HTTP without response) are carried by the interpreted "
    "migrate_flow, step by step in table order and without repeating a converter, to version.FLOW_FORMAT_VERSION, exercising every row of the "
    "converter table; migrate_flow is the identity on current-version states, rejects unknown versions with a ValueError naming the version, and "
    "the interpreted FlowReader.stream reports that as FlowReadException and hands Flow.from_state migrated states; the containers converters "
    "keep between records (WebSocket handshakes, connection ids) are only inserted into, looked up and consumed by key - never evicted in bulk.",
    "note": "Decides the version bookkeeping of the chain on the paths the entry states take, not what the converters do to the rest of the state.",
}

CP = "mitmproxy/io/compat.py"
VR = "mitmproxy/version.py"
IO = "mitmproxy/io/io.py"
TN = "mitmproxy/io/tnetstring.py"
FLOW = "mitmproxy/flow.py"


# ---------------------------------------------------------------------------------------------------
# the interpreter: pyint + exception values that keep their message, handler types resolved by evaluation (module constants), observed calls


class _ExcVal(str):
    """An exception instance: pyint's ``"<exc:Name>"`` marker that also remembers the constructor arguments; ``str(e)`` is the message."""

    def __new__(cls, name, args=()):
        o = str.__new__(cls, f"<exc:{name}>")
        o.exc_name = name
        o.exc_args = tuple(args)
        return o

    def __str__(self):
        a = self.exc_args
        return "" if not a else (str(a[0]) if len(a) == 1 else str(tuple(a)))

    __repr__ = lambda self: f"{self.exc_name}({', '.join(repr(a) for a in self.exc_args)})"  # noqa: E731


class _NullWarnings:
    """trusted stand-in for the `warnings` module: warning about an old format has no effect on the migrated state"""

    _pyint_accepts_abstract = True

    def warn(self, *a, **k):
        return None

    def warn_explicit(self, *a, **k):
        return None


class _Endless(Exception):
    def __init__(self, name):
        super().__init__(name)
        self.name = name


class _ModuleFails(Exception):
    def __init__(self, raised):
        super().__init__(raised.name)
        self.raised = raised


_EXC_BASES = {n for n in dir(builtins) if isinstance(getattr(builtins, n), type) and issubclass(getattr(builtins, n), BaseException)}


class _MInterp(Interp):
    def __init__(self, model):
        super().__init__(model, trusted_modules={"copy": copy, "uuid": uuid, "io": io, "time": time, "logging": NullLog(), "warnings": _NullWarnings()},
                         max_depth=60, max_steps=3_000_000)
        self.overrides[(TN, "memoryview")] = memoryview
        self.watch: dict = {}  # id(FunctionDef) -> converter name
        self.seq: list = []  # converter names in the order they ran (reset per scenario)
        self.from_state_node = model.func(FLOW, "Flow.from_state")
        self.handed: list = []  # states handed to Flow.from_state

    # -- exceptions ------------------------------------------------------------------------------
    def _is_exc_class(self, c: ClassRef) -> bool:
        qual = getattr(c.node, "_qual", c.node.name)
        return any(last_attr(b) in _EXC_BASES for _, cc in self.model.mro(c.mod.rel, qual) for b in cc.bases)

    def ev_call(self, e, env, mod, depth):
        f = e.func
        root = f
        while isinstance(root, ast.Attribute):
            root = root.value
        if isinstance(root, ast.Name) and root.id not in env:  # a module-level callee: looking it up twice is harmless
            try:
                v = self.ev(f, env, mod, depth)
            except (AnalysisError, Raised):
                v = None
            name = v[1] if isinstance(v, tuple) and len(v) == 2 and v[0] == "$exc" else (v.node.name if isinstance(v, ClassRef) and self._is_exc_class(v) else None)
            if name is not None:
                args = self.elts(e.args, env, mod, depth)
                for k in e.keywords:
                    self.ev(k.value, env, mod, depth)
                return _ExcVal(name, args)
        return super().ev_call(e, env, mod, depth)

    def _raise(self, v, node):
        if isinstance(v, _ExcVal):
            return Raised(v.exc_name, str(v))
        if isinstance(v, str) and v.startswith("<exc:"):
            return Raised(v[5:-1])
        if isinstance(v, tuple) and len(v) == 2 and v[0] == "$exc":
            return Raised(v[1])
        if isinstance(v, ClassRef):
            return Raised(v.node.name)
        raise AnalysisError(f"pyint: raise of a value that is not an exception: {norm(node)[:80]}")

    def stmt(self, st, env, mod, depth):
        if isinstance(st, ast.Raise) and st.exc is not None:
            self.tick()
            raise self._raise(self.ev(st.exc, env, mod, depth), st)
        return super().stmt(st, env, mod, depth)

    def _handler_names(self, h, env, mod, depth):
        if h.type is None:
            return ["BaseException"]
        try:
            v = self.ev(h.type, env, mod, depth)
        except (AnalysisError, Raised):
            return [last_attr(x) for x in (h.type.elts if isinstance(h.type, ast.Tuple) else [h.type])]
        out = []

        def flat(x):
            if isinstance(x, tuple) and len(x) == 2 and x[0] == "$exc":
                out.append(x[1])
            elif isinstance(x, ClassRef):
                out.append(x.node.name)
            elif isinstance(x, (tuple, list)):
                for y in x:
                    flat(y)
            elif isinstance(x, type) and issubclass(x, BaseException):
                out.append(x.__name__)
            else:
                raise AnalysisError(f"pyint: except clause names a non-exception: {norm(h.type)[:60]}")

        flat(v)
        return out

    def try_(self, st, env, mod, depth):
        try:
            try:
                self.block(st.body, env, mod, depth)
            except Raised as r:
                for h in st.handlers:
                    if any(self.exc_isa(r.name, n, mod) for n in self._handler_names(h, env, mod, depth)):
                        if h.name:
                            env[h.name] = _ExcVal(r.name, (r.msg,) if r.msg else ())
                        prev = env.get("$handling")
                        env["$handling"] = r.name
                        try:
                            self.block(h.body, env, mod, depth)
                        finally:
                            if prev is None:
                                env.pop("$handling", None)
                            else:
                                env["$handling"] = prev
                        break
                else:
                    raise
            else:
                self.block(st.orelse, env, mod, depth)
        finally:
            if st.finalbody:
                self.block(st.finalbody, env, mod, depth)

    # -- module top level ------------------------------------------------------------------------
    def run_module(self, rel):
        """Execute the top-level statements of module ``rel`` in order, so that module state is what importing the module leaves behind however
        it is built: a dict literal, a registry filled by a registering decorator on every function (``@converts_from(7)``), ``TABLE[k] = f`` /
        ``TABLE.update(..)`` statements, a loop over pairs.  pyint by itself evaluates module constants lazily from their last assignment
        and ignores decorators.  Name assignments are evaluated in order (kept lazy when their value is outside the interpreter's model:
        type aliases ...); decorators are applied bottom-up - a decorator that is a repository function is interpreted, one the interpreter
        cannot evaluate (typing / library decorators) is transparent as in pyint; other statements run when they mention a module-level
        container."""
        mod = self.model.module(rel)
        mutable = (dict, list, set)

        def mentions_state(st):
            for n in ast.walk(st):
                if isinstance(n, ast.Name) and mod.assigns(n.id):
                    try:
                        if isinstance(self.modconst(mod, n.id, 0), mutable):
                            return True
                    except (AnalysisError, Raised):
                        pass
            return False

        for st in mod.tree.body:
            if isinstance(st, (ast.Import, ast.ImportFrom, ast.ClassDef, ast.Pass)) or (isinstance(st, ast.Expr) and isinstance(st.value, ast.Constant)):
                continue
            if isinstance(st, (ast.FunctionDef, ast.AsyncFunctionDef)):
                v = Func(mod, st)
                for dec in reversed(st.decorator_list):
                    try:
                        d = self.ev(dec, {}, mod, 0)
                    except AnalysisError:
                        continue  # not a repository decorator the interpreter can see: transparent (pyint's default)
                    if isinstance(d, Func):
                        v = self.apply(d, [v], {}, 0, dec)
                    elif callable(d):
                        try:
                            v = self.apply(d, [v], {}, 0, dec)
                        except AnalysisError:
                            continue
                if not (isinstance(v, Func) and v.node is st):
                    self.overrides[(rel, st.name)] = v
                continue
            name_target = None
            if isinstance(st, ast.Assign) and len(st.targets) == 1 and isinstance(st.targets[0], ast.Name):
                name_target = st.targets[0].id
            elif isinstance(st, ast.AnnAssign) and isinstance(st.target, ast.Name):
                if st.value is None:
                    continue
                name_target = st.target.id
            if name_target is not None:
                key = (rel, name_target)
                if key in self.overrides:
                    continue
                try:
                    self._modconst[key] = self.ev(st.value, {}, mod, 0)
                except AnalysisError:
                    self._modconst.pop(key, None)  # stays lazy: evaluated (or refused) when something needs it
                continue
            if mentions_state(st):
                self.stmt(st, {}, mod, 0)

    # -- observed calls --------------------------------------------------------------------------
    def call_func(self, f: Func, args, kwargs, depth):
        if f.node is self.from_state_node:
            self.handed.append(args[-1] if args else kwargs.get("state"))
            return Rec("Flow", _name="flow restored by the intercepted Flow.from_state")
        name = self.watch.get(id(f.node))
        if name is not None:
            if name in self.seq:
                raise _Endless(name)
            self.seq.append(name)
        return super().call_func(f, args, kwargs, depth)


# ---------------------------------------------------------------------------------------------------
# entry states: synthetic flow states of historical formats (structure modelled on the shipped dumps of those versions)


def _entry_011():
    """HTTP flow as mitmproxy 0.11 wrote it: bytes keys everywhere, three-component version, nested address records."""
    def addr(host, port):
        return {b"address": [host, port], b"use_ipv6": False}
    return {
        b"client_conn": {b"address": addr(b"127.0.0.1", 60786), b"clientcert": None, b"ssl_established": True, b"timestamp_end": None,
                         b"timestamp_ssl_setup": 1469208634.706, b"timestamp_start": 1469208633.936},
        b"error": None, b"id": b"e072a53a-711a-46b7-aaa5-ad61ac7e4459", b"intercepted": False,
        b"request": {b"content": b"", b"form_in": b"relative", b"form_out": b"relative", b"headers": [[b"Host", b"example.com"], [b"Accept", b"*/*"]],
                     b"host": b"example.com", b"httpversion": [1, 1], b"is_replay": False, b"method": b"GET", b"path": b"/", b"port": 443,
                     b"scheme": b"https", b"timestamp_end": 1469208634.706, b"timestamp_start": 1469208634.706},
        b"response": {b"code": 200, b"content": b"<!doctype html>", b"headers": [[b"Content-Type", b"text/html"]], b"httpversion": [1, 1],
                      b"msg": b"OK", b"timestamp_end": 1469208634.797, b"timestamp_start": 1469208634.761},
        b"server_conn": {b"address": addr(b"example.com", 443), b"cert": b"-----BEGIN CERTIFICATE-----", b"sni": b"example.com",
                         b"source_address": addr(b"192.168.10.90", 60788), b"ssl_established": True, b"state": [], b"timestamp_end": None,
                         b"timestamp_ssl_setup": 1469208634.325, b"timestamp_start": 1469208634.252, b"timestamp_tcp_setup": 1469208634.268},
        b"type": b"http", b"version": [0, 11, 3],
    }


def _conn_7(cid, client):
    c = {"address": ["::ffff:127.0.0.1", 52473, 0] if client else ["echo.websocket.org", 80], "alpn_proto_negotiated": None, "id": cid, "sni": None,
         "timestamp_end": None, "timestamp_start": 1612375499.02, "timestamp_tls_setup": None, "tls_established": False, "tls_version": None}
    if client:
        c.update({"cipher_name": None, "clientcert": None, "mitmcert": None, "tls_extensions": None})
    else:
        c.update({"cert": None, "ip_address": ["174.129.224.73", 80], "source_address": ["192.168.188.20", 52474], "timestamp_tcp_setup": 1612375499.22, "via": None})
    return c


def _entry_7_handshake(fid, host=b"echo.websocket.org"):
    return {
        "client_conn": _conn_7("c-" + fid, True), "error": None, "id": fid, "intercepted": False, "marked": False, "metadata": {"websocket": True},
        "mode": "transparent",
        "request": {"content": b"", "first_line_format": "relative", "headers": [[b"Host", host]], "host": host, "http_version": b"HTTP/1.1",
                    "is_replay": False, "method": b"GET", "path": b"/?encoding=text", "port": 80, "scheme": b"http",
                    "timestamp_end": 1612375499.03, "timestamp_start": 1612375499.02},
        "response": {"content": b"", "headers": [[b"Upgrade", b"websocket"]], "http_version": b"HTTP/1.1", "reason": b"Switching Protocols",
                     "status_code": 101, "timestamp_end": 1612375499.4, "timestamp_start": None},
        "server_conn": _conn_7("s-" + fid, False), "type": "http", "version": 7,
    }


def _entry_7_messages(fid, handshake_id, text="Rock it"):
    return {
        "client_conn": _conn_7("c-" + handshake_id, True), "client_extensions": "permessage-deflate", "client_key": "psOeQKar8m7Otzq5uzGAhw==",
        "client_protocol": None, "close_code": 1005, "close_message": "(message missing)", "close_reason": "", "close_sender": "client",
        "error": None, "id": fid, "intercepted": False, "marked": False, "messages": [[1, True, text], [1, False, text]],
        "metadata": {"websocket_handshake": handshake_id}, "server_accept": "KHQasWKt4lBrFLDDBlc9uW9oLDc=",
        "server_conn": dict(_conn_7("s-" + handshake_id, False), timestamp_end=1612375503.45), "server_extensions": None, "server_protocol": None,
        "type": "websocket", "version": 7,
    }


def _entry_10():
    def conn(client):
        c = {"address": ["", 0] if client else [b"example.com", 443], "alpn_offers": [], "alpn_proto_negotiated": None, "certificate_list": [],
             "cipher_list": [], "cipher_name": None, "error": None, "id": "8b758ba3" if client else "14ddf3ed", "sni": None if client else "example.com",
             "state": 0, "timestamp_end": None, "timestamp_start": None, "timestamp_tls_setup": None, "tls": False, "tls_established": False,
             "tls_version": "QUIC" if client else None}
        if client:
            c.update({"mitmcert": None, "sockname": ["", 0], "tls_extensions": None})
        else:
            c.update({"ip_address": ["example.com", 443], "source_address": ["", 0], "timestamp_tcp_setup": None, "via": None, "via2": None})
        return c
    return {
        "client_conn": conn(True), "error": None, "id": "fac79186-100e-45ee-a9ab-f73692", "intercepted": False, "is_replay": None, "marked": True,
        "metadata": {}, "mode": "regular",
        "request": {"authority": b"", "content": b"", "headers": [[b"Host", b"example.com"]], "host": "example.com", "http_version": b"HTTP/1.1",
                    "method": b"GET", "path": b"/", "port": 443, "scheme": b"https", "timestamp_end": 1621870806.73, "timestamp_start": 1621870806.72,
                    "trailers": None},
        "response": None, "server_conn": conn(False), "type": "http", "version": 10,
    }


def _entry_11():
    """format 11 as mitmproxy 6 wrote it (connection records already restructured; `sni: True` = "use the address")"""
    st = _entry_10()
    st["version"] = 11
    for c in ("client_conn", "server_conn"):
        st[c]["alpn"] = st[c].pop("alpn_proto_negotiated")
    st["server_conn"]["sni"] = True
    st["server_conn"]["address"] = ["example.com", 443]
    st["response"] = {"content": b"ok", "headers": [], "http_version": b"HTTP/1.1", "reason": b"OK", "status_code": 200,
                      "timestamp_end": 1621870807.0, "timestamp_start": 1621870806.9, "trailers": None}
    st["marked"] = False
    return st


def _tnet(v) -> bytes:
    """tnetstring encoding (format specification + mitmproxy's `;` text tag) of a synthetic state, for the interpreted reader"""
    if v is None:
        return b"0:~"
    if v is True or v is False:
        body, tag = (b"true" if v else b"false"), b"!"
    elif isinstance(v, int):
        body, tag = str(v).encode(), b"#"
    elif isinstance(v, float):
        body, tag = repr(v).encode(), b"^"
    elif isinstance(v, bytes):
        body, tag = v, b","
    elif isinstance(v, str):
        body, tag = v.encode("utf8"), b";"
    elif isinstance(v, (list, tuple)):
        body, tag = b"".join(_tnet(x) for x in v), b"]"
    elif isinstance(v, dict):
        body, tag = b"".join(_tnet(k) + _tnet(x) for k, x in v.items()), b"}"
    else:
        raise AnalysisError(f"C38: synthetic state holds an unserialisable {type(v).__name__}")
    return str(len(body)).encode() + b":" + body + tag


_KEYED_READ = {"get", "setdefault", "__getitem__", "__contains__"}
_KEYED_STORE = {"setdefault", "update", "__setitem__"}
_EVICT = {"clear": "clear() drops every pending entry", "popitem": "popitem() drops an entry chosen by insertion order, not by the record that refers to it"}


_MUTATORS = {"pop", "popitem", "clear", "update", "setdefault", "append", "extend", "insert", "remove", "add", "discard", "sort", "reverse", "appendleft", "popleft",
             "__setitem__", "__delitem__"}


def _param_untouched(funcs, g, param, seen) -> bool:
    """True when function ``g`` never changes the object bound to its parameter ``param`` (nor the values reached by iterating over it): no item /
    attribute store or delete, no mutating method, no rebinding or aliasing, handed on only to module functions that do not touch it either."""
    key = (g.name, param)
    if key in seen:
        return True  # on a cycle: decided by the other uses
    seen = seen | {key}
    derived = {param}
    for _ in range(3):  # loop targets over the parameter / its .items() / .values() / .keys() denote parts of the same object
        for n in ast.walk(g):
            if isinstance(n, (ast.For, ast.comprehension)):
                it = n.iter
                if isinstance(it, ast.Call) and isinstance(it.func, ast.Attribute) and it.func.attr in ("items", "values", "keys") and not it.args:
                    it = it.func.value
                if isinstance(it, ast.Name) and it.id in derived:
                    derived |= {x.id for x in ast.walk(n.target) if isinstance(x, ast.Name)}
    for n in ast.walk(g):
        if not (isinstance(n, ast.Name) and n.id in derived):
            continue
        p = n._parent
        if isinstance(n.ctx, (ast.Store, ast.Del)):
            if isinstance(p, (ast.For, ast.comprehension, ast.Tuple)) or isinstance(p, ast.arg):
                continue  # the loop target itself
            return False
        if isinstance(p, (ast.Subscript, ast.Attribute)) and p.value is n:
            if isinstance(p.ctx, (ast.Store, ast.Del)):
                return False
            pp = getattr(p, "_parent", None)
            if isinstance(p, ast.Attribute) and isinstance(pp, ast.Call) and pp.func is p and p.attr in _MUTATORS:
                return False
            if isinstance(p, ast.Subscript):
                # an element read out of it: fine unless that element is then changed in place (x[k][j] = ..): refuse nested stores
                q, child = pp, p
                while isinstance(q, (ast.Subscript, ast.Attribute)) and q.value is child:
                    if isinstance(q.ctx, (ast.Store, ast.Del)) or (isinstance(q, ast.Attribute) and q.attr in _MUTATORS):
                        return False
                    q, child = getattr(q, "_parent", None), q
            continue
        if isinstance(p, ast.Subscript) and p.slice is n:
            continue  # used as a key / index into something else
        call = p if isinstance(p, ast.Call) else (p._parent if isinstance(p, ast.keyword) and isinstance(getattr(p, "_parent", None), ast.Call) else None)
        if call is not None and call.func is not n:
            if isinstance(call.func, ast.Name) and call.func.id in funcs:
                h = funcs[call.func.id]
                hp = [a.arg for a in h.args.posonlyargs + h.args.args]
                if isinstance(p, ast.keyword):
                    tgt = p.arg
                elif n in call.args and not any(isinstance(a, ast.Starred) for a in call.args) and call.args.index(n) < len(hp):
                    tgt = hp[call.args.index(n)]
                else:
                    return False
                if tgt is None or not _param_untouched(funcs, h, tgt, seen):
                    return False
                continue
            if isinstance(call.func, ast.Name) and call.func.id in ("len", "bool", "isinstance", "sorted", "list", "tuple", "dict", "set", "frozenset", "iter", "enumerate", "repr", "str", "any", "all"):
                continue
            return False  # handed to something we cannot see into
        if isinstance(p, (ast.Compare, ast.BoolOp, ast.UnaryOp, ast.If, ast.While, ast.IfExp, ast.For, ast.comprehension)):
            continue  # tested / iterated
        return False  # returned, aliased, stored somewhere: not modelled
    return True


def _cross_record_state(ctx, rows, tname="converters"):
    """R38.3: classify every use of a module-level mutable container in the code reachable from converters/migrate_flow."""
    mod = ctx.model.module(CP)
    containers = {}
    for st in mod.tree.body:
        tg, val = None, None
        if isinstance(st, ast.Assign) and len(st.targets) == 1 and isinstance(st.targets[0], ast.Name):
            tg, val = st.targets[0].id, st.value
        elif isinstance(st, ast.AnnAssign) and isinstance(st.target, ast.Name) and st.value is not None:
            tg, val = st.target.id, st.value
        if tg is None or tg == tname:
            continue
        if isinstance(val, (ast.Dict, ast.List, ast.Set)) or (isinstance(val, ast.Call) and last_attr(val.func) in ("dict", "list", "set", "OrderedDict", "defaultdict", "deque", "WeakValueDictionary")):
            containers[tg] = st
    funcs = {d.name: d for d in mod.tree.body if isinstance(d, (ast.FunctionDef, ast.AsyncFunctionDef))}
    reach, todo = {}, [f for f in set(rows.values()) | {"migrate_flow"} if f in funcs]
    while todo:
        name = todo.pop()
        if name in reach:
            continue
        reach[name] = funcs[name]
        for n in ast.walk(funcs[name]):
            if isinstance(n, ast.Name) and n.id in funcs and n.id not in reach:  # called or passed on: both may run it
                todo.append(n.id)
    unknown = []
    uses = {c: {"store": [], "read": [], "consume": []} for c in containers}
    state = {"bad": False}
    scanned = set()

    def fail(where, construct, why):
        state["bad"] = True
        ctx.fail("R38.3", where, construct, why)

    def stores_of(fn, name):
        out = [n for n in ast.walk(fn) if isinstance(n, ast.Name) and n.id == name and isinstance(n.ctx, (ast.Store, ast.Del))]
        out += [a for n in ast.walk(fn) if isinstance(n, ast.arguments) for a in n.posonlyargs + n.args + n.kwonlyargs + ([n.vararg] if n.vararg else []) + ([n.kwarg] if n.kwarg else []) if a.arg == name]
        return out

    def alias_target(fn, n):
        """The local name that denotes the same object as the Name node ``n`` from here on, when ``n`` is only given another name:
        ``t = n`` / ``t = n if c else m`` / ``(t := n)`` / ``for t in (n, m)`` / ``for t, a, b in ((n, x, y), (m, x2, y2))``.  The target must be
        bound exactly once in the function (by this very construct), so it denotes nothing else."""
        p = n._parent
        src = n
        if isinstance(p, ast.IfExp) and src in (p.body, p.orelse):
            src, p = p, p._parent
        tgt = binder = None
        if isinstance(p, ast.Assign) and p.value is src and len(p.targets) == 1 and isinstance(p.targets[0], ast.Name):
            tgt, binder = p.targets[0], p
        elif isinstance(p, ast.AnnAssign) and p.value is src and isinstance(p.target, ast.Name):
            tgt, binder = p.target, p
        elif isinstance(p, ast.NamedExpr) and p.value is src:
            tgt, binder = p.target, p
        elif isinstance(p, (ast.Tuple, ast.List)) and src in p.elts:
            pp = getattr(p, "_parent", None)
            if isinstance(pp, ast.For) and pp.iter is p and isinstance(pp.target, ast.Name):
                tgt, binder = pp.target, pp
            elif isinstance(pp, (ast.Tuple, ast.List)) and isinstance(getattr(pp, "_parent", None), ast.For) and pp._parent.iter is pp:
                loop, i = pp._parent, p.elts.index(src)
                if (isinstance(loop.target, (ast.Tuple, ast.List)) and all(isinstance(r, (ast.Tuple, ast.List)) and len(r.elts) == len(loop.target.elts) for r in pp.elts)
                        and not any(isinstance(x, ast.Starred) for r in pp.elts for x in r.elts) and isinstance(loop.target.elts[i], ast.Name)):
                    tgt, binder = loop.target.elts[i], loop
        if tgt is None:
            return None
        others = [x for x in stores_of(fn, tgt.id) if x is not tgt]
        if others or any(tgt.id in g.names for g in ast.walk(fn) if isinstance(g, (ast.Global, ast.Nonlocal))) or tgt.id in containers or tgt.id in funcs:
            return None
        return tgt.id

    def scan(fname, fn, local, c, kind, keyed_reads, dels):
        """classify every use, inside ``fn``, of the name ``local`` that denotes the module-level container ``c`` there (kind: 'global' - the
        module-level name itself, 'param' - a parameter the container was passed for, 'alias' - a local name bound to it once)"""
        if (id(fn), local, c) in scanned:
            return
        scanned.add((id(fn), local, c))
        shown = c if local == c else f"{c} (as {local})"
        globs = {g for n in ast.walk(fn) if isinstance(n, ast.Global) for g in n.names}
        shadow = {a.arg for n in ast.walk(fn) if isinstance(n, ast.arguments) for a in n.posonlyargs + n.args + n.kwonlyargs + ([n.vararg] if n.vararg else []) + ([n.kwarg] if n.kwarg else [])}
        for n in ast.walk(fn):
            if not (isinstance(n, ast.Name) and n.id == local):
                continue
            if kind == "global" and c in shadow:
                unknown.append(f"{fname}: parameter {c} shadows the module-level container")
                continue
            p = n._parent
            if isinstance(n.ctx, (ast.Store, ast.Del)):
                if kind == "alias":
                    continue  # its one binding (alias_target made sure there is no other)
                if kind == "param":
                    unknown.append(f"{fname}: rebinds its parameter {local} that stands for {c}")
                elif c in globs:
                    fail((CP, fname, n), f"{fname}: rebinds {c}",
                         f"the converter replaces the container {c} that carries state from earlier records: every pending entry is dropped, so a later record "
                         "that refers to an earlier one (e.g. the websocket record of an interleaved connection) loses its partner and loads as a wrong flow")
                else:
                    unknown.append(f"{fname}: local name {c} shadows the module-level container")
                continue
            if isinstance(p, ast.Subscript) and p.value is n and not isinstance(p.slice, ast.Slice):
                k = norm(p.slice)
                if isinstance(p.ctx, ast.Store):
                    uses[c]["store"].append(f"{fname}: {shown}[{k}] = ...")
                elif isinstance(p.ctx, ast.Load):
                    uses[c]["read"].append(f"{fname}: {shown}[{k}]")
                    keyed_reads.add((c, k))
                else:
                    dels.append((c, k, p))
                continue
            if isinstance(p, ast.Attribute) and p.value is n and isinstance(getattr(p, "_parent", None), ast.Call) and p._parent.func is p:
                call, meth = p._parent, p.attr
                if meth in _EVICT:
                    fail((CP, fname, call), f"{fname}: {c}.{meth}()",
                         f"{_EVICT[meth]}: records of different connections interleave in old dumps, so a record that refers to an evicted entry "
                         "(e.g. the websocket record whose handshake was written before another handshake) is migrated without its partner and loads as a wrong flow")
                    continue
                if meth == "pop" and call.args:
                    k = norm(call.args[0])
                    if isinstance(getattr(call, "_parent", None), ast.Expr):
                        fail((CP, fname, call), f"{fname}: {c}.pop({k}) discarded",
                             "an entry is removed without being joined to the record that refers to it: that record later loads without its partner")
                    else:
                        uses[c]["consume"].append(f"{fname}: {shown}.pop({k})")
                        keyed_reads.add((c, k))
                    continue
                if meth in _KEYED_READ | _KEYED_STORE and (call.args or call.keywords):
                    if meth in _KEYED_STORE:
                        uses[c]["store"].append(f"{fname}: {shown}.{meth}(...)")
                    if meth in _KEYED_READ:
                        uses[c]["read"].append(f"{fname}: {shown}.{meth}({norm(call.args[0]) if call.args else ''})")
                        if call.args:
                            keyed_reads.add((c, norm(call.args[0])))
                    continue
                unknown.append(f"{fname}: {norm(call)[:80]}")
                continue
            if isinstance(p, ast.Compare) and len(p.ops) == 1 and isinstance(p.ops[0], (ast.In, ast.NotIn)) and p.comparators[0] is n:
                uses[c]["read"].append(f"{fname}: {norm(p.left)} in {shown}")
                keyed_reads.add((c, norm(p.left)))
                continue
            # looked at as a whole without touching an entry: len(X) / bool(X) / a truth test (e.g. for a log line or a guard)
            top, tp = n, p
            while isinstance(tp, ast.BoolOp) or (isinstance(tp, ast.UnaryOp) and isinstance(tp.op, ast.Not)):
                top, tp = tp, getattr(tp, "_parent", None)
            if (isinstance(p, ast.Call) and isinstance(p.func, ast.Name) and p.func.id in ("len", "bool") and p.func.id not in funcs and p.args == [n] and not p.keywords) or \
                    (isinstance(tp, (ast.If, ast.While, ast.IfExp, ast.Assert)) and tp.test is top) or (top is not n and isinstance(top, ast.UnaryOp)):
                continue
            # given another local name (assignment, conditional expression, walrus, loop over the containers): the uses of that name count
            t = alias_target(fn, n)
            if t is not None:
                scan(fname, fn, t, c, "alias", keyed_reads, dels)
                continue
            # handed to a module function: one that only reads the corresponding parameter (a constant table passed on) is a read; otherwise
            # the parameter stands for the container inside the callee and its uses there are classified like the ones here
            call = p if isinstance(p, ast.Call) else (p._parent if isinstance(p, ast.keyword) and isinstance(getattr(p, "_parent", None), ast.Call) else None)
            if call is not None and call.func is not n and isinstance(call.func, ast.Name) and call.func.id in funcs and call.func.id not in shadow and not stores_of(fn, call.func.id):
                g = funcs[call.func.id]
                gparams = [a.arg for a in g.args.posonlyargs + g.args.args]
                target = None
                if isinstance(p, ast.keyword):
                    target = p.arg if p.arg in gparams + [a.arg for a in g.args.kwonlyargs] else None
                elif n in call.args and not any(isinstance(a, ast.Starred) for a in call.args) and call.args.index(n) < len(gparams):
                    target = gparams[call.args.index(n)]
                if target is not None and _param_untouched(funcs, g, target, set()):
                    uses[c]["read"].append(f"{fname}: {shown} handed to {g.name}({target}=...) which only reads it")
                    continue
                if target is not None and len([x for x in stores_of(g, target)]) == 1 and not isinstance(g, ast.AsyncFunctionDef):
                    kr, dl = set(), []
                    scan(g.name, g, target, c, "param", kr, dl)
                    settle_dels(g.name, kr, dl)
                    continue
            unknown.append(f"{fname}: {norm(p)[:80]}")

    def settle_dels(fname, keyed_reads, dels):
        for c, k, node in dels:
            if (c, k) in keyed_reads:
                uses[c]["consume"].append(f"{fname}: del {c}[{k}]")
            else:
                fail((CP, fname, node), f"{fname}: del {c}[{k}] without a lookup of that key",
                     "an entry is removed without being joined to the record that refers to it: that record later loads without its partner")

    for fname in sorted(reach):
        fn = reach[fname]
        keyed_reads, dels = set(), []
        for c in sorted({n.id for n in ast.walk(fn) if isinstance(n, ast.Name) and n.id in containers}):
            scan(fname, fn, c, c, "global", keyed_reads, dels)
        settle_dels(fname, keyed_reads, dels)
    bad = state["bad"]
    if bad:
        return
    if unknown:
        raise AnalysisError("R38.3: use of cross-record migration state that is not a keyed operation (not modelled): " + "; ".join(unknown[:4]))
    live = 0
    for c, u in sorted(uses.items()):
        if not (u["store"] or u["read"] or u["consume"]):
            continue
        init = containers[c].value
        prefilled = (isinstance(init, ast.Dict) and init.keys) or (isinstance(init, (ast.List, ast.Set)) and init.elts) or (isinstance(init, ast.Call) and (init.args or init.keywords))
        if prefilled and not u["store"] and not u["consume"]:
            ctx.note(f"R38.3: {c} is a constant table (filled where it is defined, only read by the converters): not cross-record state")
            continue
        live += 1
        if (u["read"] or u["consume"]) and not u["store"]:
            ctx.fail("R38.3", (CP, "<module>", containers[c]), f"{c}: looked up but never filled",
                     f"converters look entries up in {c} ({(u['consume'] + u['read'])[0]}) but no reachable converter inserts any: every record that refers to an earlier record loses its partner")
            continue
        ctx.ok("R38.3", f"{c}: keyed only - {len(u['store'])} insert(s), {len(u['read'])} lookup(s), {len(u['consume'])} consuming removal(s); no bulk eviction in {len(reach)} reachable functions")
    ctx.require(live >= 1, "R38.3: no module-level container is used by the converters any more (anchor moved)")



def _converter_table(ctx, it):
    """The converter table: the module-level mapping of compat.py whose values are all functions (evaluated, not read as a literal)."""
    mod = ctx.model.module(CP)
    found = []
    for st in mod.tree.body:
        tg = st.targets[0] if isinstance(st, ast.Assign) and len(st.targets) == 1 else (st.target if isinstance(st, ast.AnnAssign) and st.value is not None else None)
        if not isinstance(tg, ast.Name):
            continue
        try:
            v = it.modconst(mod, tg.id, 0)
        except (AnalysisError, Raised):
            continue
        if isinstance(v, dict) and len(v) >= 5 and all(isinstance(f, Func) and isinstance(f.node, ast.FunctionDef) for f in v.values()):
            found.append((tg.id, st, v))
    if len(found) > 1:
        # several mappings (e.g. the table assembled from per-era parts): the one migrate_flow works with is the one that contains the others
        full = [f for f in found if all(set(g[2].items()) <= set(f[2].items()) or g is f for g in found)]
        names = {n.id for fn in _reachable(mod, "migrate_flow").values() for n in ast.walk(fn) if isinstance(n, ast.Name)}
        used = [f for f in found if f[0] in names]
        found = full[:1] if len(full) == 1 and (not used or full[0] in used) else used
    ctx.require(len(found) == 1, f"compat.py: expected one module-level table version -> converter function, found {[n for n, _, _ in found]}")
    return found[0]


def _reachable(mod, start: str) -> dict:
    """module-level functions of ``mod`` reachable from ``start`` by name (called or passed on)"""
    funcs = {d.name: d for d in mod.tree.body if isinstance(d, (ast.FunctionDef, ast.AsyncFunctionDef))}
    reach, todo = {}, [start]
    while todo:
        name = todo.pop()
        if name in reach or name not in funcs:
            continue
        reach[name] = funcs[name]
        todo.extend(n.id for n in ast.walk(funcs[name]) if isinstance(n, ast.Name) and n.id in funcs and n.id not in reach)
    return reach


def _vkey(k):
    """sort key of a format version: the tuple era precedes the integer era"""
    return (0, tuple(k)) if isinstance(k, tuple) else (1, (k,))


def check(ctx):
    ctx.rule("R38.1", "converter chain (interpreted): historical entry states reach FLOW_FORMAT_VERSION step by step in table order, no converter repeats, every table row is exercised")
    ctx.rule("R38.2", "migrate_flow (interpreted): identity on the current version, ValueError naming the version for unknown ones; FlowReader.stream reports it as FlowReadException and restores migrated states")
    ctx.rule("R38.3", "cross-record migration state (module-level containers reachable from converters) is inserted into, looked up and consumed by key only - no bulk/unkeyed eviction, never consumed without being filled")
    m = ctx.model
    cur = m.literal(VR, "FLOW_FORMAT_VERSION")
    ctx.require(isinstance(cur, int) and not isinstance(cur, bool), f"FLOW_FORMAT_VERSION is not an int: {cur!r}")
    mf = ctx.func(CP, "migrate_flow")
    stream = ctx.func(IO, "FlowReader.stream")
    ctx.require(len(mf.args.posonlyargs + mf.args.args) == 1, "migrate_flow no longer takes exactly the flow state")
    where_mf, where_tab = (CP, "migrate_flow", mf), (CP, "<module>", 0)

    def fresh():
        it = _MInterp(m)
        try:
            it.run_module(CP)
        except Raised as r:
            raise _ModuleFails(r)
        tname, tnode, table = _converter_table(ctx, it)
        it.watch = {id(f.node): f.node.name for f in table.values()}
        return it, tname, tnode, table

    try:
        it, tname, tnode, table = fresh()
    except _ModuleFails as e:
        ctx.fail("R38.1", where_tab, "compat.py: module top level raises", f"executing the module's top-level statements (the converter registrations) raises {e.raised.name}"
                 f"{': ' + str(e.raised.msg)[:80] if e.raised.msg else ''}: the module cannot be imported / a converter is registered twice, no flow file loads")
        return
    where_tab = (CP, "<module>", tnode)
    rows = {k: f.node.name for k, f in table.items()}
    ctx.require(len(rows) >= 20, f"{tname} has only {len(rows)} rows")
    ctx.cells += len(rows)
    for k in rows:
        ctx.require((isinstance(k, int) and not isinstance(k, bool)) or (isinstance(k, tuple) and all(isinstance(x, int) for x in k)),
                    f"{tname}: key {k!r} is neither an integer nor a tuple of integers")
    for name in rows.values():
        ctx.functions.add(f"{CP}::{name}")

    def migrate(interp, state):
        """('ok', result, converters run) | ('raise', name, msg, converters run) | ('endless', converter, converters run)"""
        interp.seq = []
        ctx.paths += 1
        try:
            return ("ok", interp.call(CP, "migrate_flow", state), list(interp.seq))
        except Raised as r:
            return ("raise", r.name, r.msg, list(interp.seq))
        except _Endless as e:
            return ("endless", e.name, list(interp.seq))

    # ---- R38.1 table sanity on the evaluated mapping
    tbad = False
    by_func: dict = {}
    for k, name in rows.items():
        if name in by_func:
            tbad = True
            ctx.fail("R38.1", where_tab, f"{tname}: {name} serves {by_func[name]!r} and {k!r}", "one converter registered for two versions: one of them is migrated by the wrong step")
        by_func.setdefault(name, k)
    if isinstance(tnode.value, ast.Dict):
        seen = set()
        for kn in tnode.value.keys:
            t = norm(kn) if kn is not None else None
            if t is not None and t in seen:
                tbad = True
                ctx.fail("R38.1", where_tab, f"{tname}: duplicate key {t}", "two converters for one version: the first is silently dropped")
            seen.add(t)
    if cur in rows:
        tbad = True
        ctx.fail("R38.1", where_tab, f"{tname} has a row for the current version {cur}", "current-format states would not pass through unchanged")

    # ---- R38.1 the chain, observed on the entry states
    hs, ms = "468a3735-e4c2-4dea-b6e7-827a47", "bb2e201b-2e25-471d-8cc7-a08f6f"
    entries = [
        ("HTTP flow of format (0, 11, 3) (bytes keys)", [_entry_011()]),
        ("WebSocket handshake + messages records of format 7", [_entry_7_handshake(hs), _entry_7_messages(ms, hs)]),
        ("WebSocket messages record of format 7 without its handshake", [_entry_7_messages(ms, "missing-handshake")]),
        ("HTTP flow without response of format 10 (marked, QUIC client)", [_entry_10()]),
        ("HTTP flow of format 11 (server sni recorded as True)", [_entry_11()]),
    ]
    exercised: set = set()
    key_of = {name: k for k, name in rows.items()}
    for label, records in entries:
        it_e = fresh()[0]  # one file: the records of one entry share the cross-record state
        for idx, state in enumerate(records):
            res = migrate(it_e, state)
            ran = res[-1]
            exercised.update(ran)
            what = f"{label}" + (f", record {idx + 1}" if len(records) > 1 else "")
            keys = [key_of[n] for n in ran]
            problem = None
            if res[0] == "endless":
                problem = (f"converter {res[1]} is applied a second time to the same state (after {', '.join(ran[-3:])}): the version migrate_flow reads did not advance "
                           "(wrong next version, version written under the other key kind, or the converted state dropped) - the migration never ends")
            elif res[0] == "raise":
                problem = (f"the migration stops after {ran[-1] if ran else 'no converter'} with {res[1]}: {str(res[2])[:120]} - files of that historical version cannot be "
                           "migrated to the current format (chain gap, missing row, or a converter that fails on / does not return the state)")
            else:
                out = res[1]
                if not isinstance(out, dict) or out.get("version") != cur:
                    problem = f"the migrated state has version {out.get('version') if isinstance(out, dict) else type(out).__name__!r}, not the current {cur}"
                else:
                    again = migrate(it_e, out)
                    if again[0] != "ok" or again[-1] or again[1] != out:
                        problem = "migrate_flow does not leave the state it just produced alone (it is not recognised as current)"
                if problem is None:
                    for a, b in zip(keys, keys[1:] + [cur]):
                        if isinstance(a, int) and b != a + 1:
                            problem = f"after the converter for integer version {a} the one for {b!r} runs, not {a + 1} (a migration step is skipped or repeated)"
                            break
                        if _vkey(b) <= _vkey(a):
                            problem = f"converters run out of order: {a!r} then {b!r}"
                            break
            ctx.cells += 1
            if problem:
                tbad = True
                ctx.fail("R38.1", where_mf, f"chain from {what}", problem)
            else:
                ctx.ok("R38.1", f"{what}: {len(ran)} converter(s) {keys[0]!r}..{keys[-1]!r} in table order, none twice, result has version {cur} and is left alone")
    unreached = sorted((k for k, n in rows.items() if n not in exercised), key=_vkey)
    if unreached and not tbad:
        oldest = min(rows, key=_vkey)
        if _vkey(oldest) < _vkey((0, 11)):
            raise AnalysisError(f"R38.1: {tname} has rows older than the oldest synthetic entry state (0, 11): {unreached!r} - extend the entry states")
        tbad = True
        ctx.fail("R38.1", where_tab, f"{tname}: rows {unreached!r} are never reached",
                 "the chain from the oldest format never arrives at these keys (a key migrate_flow's normalised version can never equal, or a gap before it): "
                 "files of that version are rejected")
    if not tbad:
        ctx.ok("R38.1", f"{len(rows)} converters, each serving one version, all exercised by the entry states; no row for the current version {cur}")
        ctx.sample({"chain": [repr(k) for k in sorted(rows, key=_vkey)] + [cur]})

    # ---- R38.2 migrate_flow on the boundary
    bad2 = False
    it2 = fresh()[0]
    current = {"version": cur, "type": "http", "id": "c0ffee", "metadata": {"k": ["v"]}, "marked": "", "comment": "current"}
    snap = copy.deepcopy(current)
    res = migrate(it2, current)
    ctx.cells += 1
    if res[0] != "ok" or res[1] != snap or current != snap or res[-1]:
        bad2 = True
        why = (f"raises {res[1]}: {str(res[2])[:100]}" if res[0] == "raise" else f"runs {res[-1]}" if res[-1] else "returns a different / modified state" if res[0] == "ok" else f"never ends ({res[1]})")
        ctx.fail("R38.2", where_mf, "migrate_flow: state of the current version", f"a state that already has version {cur} must pass through unchanged, but migrate_flow {why}")
    else:
        ctx.ok("R38.2", f"migrate_flow: a state of the current version {cur} comes back untouched (equal content, nothing modified in place, no converter runs)")
    n_rej = 0
    for v, shown in ((cur + 1, str(cur + 1)), (98765, "98765"), ([97, 53, 1], "(97, 53)")):
        ctx.require((tuple(v[:2]) if isinstance(v, list) else v) not in rows, f"probe version {v!r} is in the table")
        res = migrate(it2, {"version": v, "type": "http", "id": "f00"})
        ctx.cells += 1
        if res[0] == "raise" and res[1] == "ValueError" and not res[-1]:
            if shown in str(res[2]):
                n_rej += 1
            else:
                bad2 = True
                ctx.fail("R38.2", where_mf, "migrate_flow: rejection message", f"the ValueError for the unknown flow format version {v!r} reads {str(res[2])[:120]!r}: "
                         "it does not contain the offending version - not an explanatory error")
        else:
            bad2 = True
            got = ("is accepted as a current flow" if res[0] == "ok" and not res[-1] else f"is run through {res[-1]}" if res[-1] else
                   f"raises {res[1]}, not ValueError (FlowReader.stream converts ValueError)" if res[0] == "raise" else "never ends")
            ctx.fail("R38.2", where_mf, f"migrate_flow: unknown version {'newer than' if isinstance(v, int) and v > cur else 'other than'} the current one",
                     f"a state of the unknown flow format version {v!r} {got}: unknown versions must be rejected with an explanatory ValueError")
    if n_rej == 3:
        ctx.ok("R38.2", f"migrate_flow: unknown versions {cur + 1}, 98765, (97, 53) raise ValueError naming the version; no converter runs")

    # FlowReader.stream, interpreted on one-record files
    def read_one(state):
        it_s = fresh()[0]
        ctx.paths += 1
        try:
            # FlowReader(fo): the constructor is interpreted too, so whatever it sets up is there
            rec = it_s.apply(ClassRef(m.module(IO), m.cls(IO, "FlowReader")), [io.BufferedReader(io.BytesIO(_tnet(state)))], {}, 0)
            gen = it_s.method(rec, "stream")
            first = next(iter(gen))
            return ("yield", first, it_s.handed)
        except StopIteration:
            return ("stop", None, it_s.handed)
        except Raised as r:
            return ("raise", r.name, r.msg)
        except _Endless as e:
            return ("endless", e.name, None)

    where_st = (IO, "FlowReader.stream", stream)
    res = read_one({"version": 98765, "type": "http", "id": "f00"})
    ctx.cells += 1
    okr = res[0] == "raise" and res[1] == "FlowReadException"
    ctx.check(okr, "R38.2", where_st, "stream: ValueError from migrate_flow",
              f"reading a file whose record has the unknown flow format version 98765 {'raises ' + str(res[1]) + ': ' + str(res[2])[:80] if res[0] == 'raise' else 'yields a flow' if res[0] == 'yield' else 'ends silently'} "
              "instead of raising FlowReadException", desc="stream: a record of an unknown version -> FlowReadException")
    bad2 = bad2 or not okr
    for label, state in (("format (0, 11, 3)", _entry_011()), (f"the current format {cur}", dict(current))):
        res = read_one(state)
        ctx.cells += 1
        handed = res[2] if res[0] == "yield" else None
        okh = res[0] == "yield" and len(handed) == 1 and isinstance(handed[0], dict) and handed[0].get("version") == cur
        got = (f"raises {res[1]}: {str(res[2])[:80]}" if res[0] == "raise" else "yields nothing" if res[0] == "stop" else "never ends" if res[0] == "endless" else
               f"hands Flow.from_state {[h.get('version') if isinstance(h, dict) else type(h).__name__ for h in handed]!r}")
        ctx.check(okh, "R38.2", where_st, f"stream: record of {label.split(' ')[0]} format reaches Flow.from_state migrated",
                  f"reading a one-record file of {label}: stream {got} instead of restoring the flow from a state of version {cur}",
                  desc=f"stream: a record of {label} is handed to Flow.from_state with version {cur}")
        bad2 = bad2 or not okh

    # ---- R38.3 state carried between records
    ctx.guard(_cross_record_state, ctx, rows, tname)
    ctx.guard(_interleaved_handshakes, ctx, fresh()[0], migrate, cur)

    expect(ctx, "R38.1", sum(len(r) for _, r in entries) + 1)
    expect(ctx, "R38.2", 5)
    expect(ctx, "R38.3", 4)


def _interleaved_handshakes(ctx, it, migrate, cur):
    """Two connections whose records interleave (handshake A, handshake B, messages B, messages A): each messages record must be joined with
    the handshake it names."""
    a, b = "aaaa1111-0000-4000-8000-000000000001", "bbbb2222-0000-4000-8000-000000000002"
    recs = [_entry_7_handshake(a, b"a.example"), _entry_7_handshake(b, b"b.example"), _entry_7_messages("m-b", b, "to b"), _entry_7_messages("m-a", a, "to a")]
    outs = [migrate(it, r) for r in recs]
    mf = ctx.func(CP, "migrate_flow")
    if any(o[0] != "ok" or not isinstance(o[1], dict) for o in outs):
        return  # reported by R38.1 on the plain entry states
    wrong = []
    for o, host, text in ((outs[2], b"b.example", "to b"), (outs[3], b"a.example", "to a")):
        st = o[1]
        req, ws = st.get("request") or {}, st.get("websocket") or {}
        if req.get("host") != host or not ws or [m[2] for m in ws.get("messages", [])][:1] != [text]:
            wrong.append(f"messages '{text}' joined with the handshake of {req.get('host')!r}")
    ctx.check(not wrong, "R38.3", (CP, "migrate_flow", mf), "interleaved WebSocket records of two connections",
              f"{'; '.join(wrong)}: the handshake kept for a later messages record was lost or mixed up, the migrated flow is not the one that was saved",
              desc="interleaved handshakes A, B and messages B, A: each messages record is joined with its own handshake")


MUTANTS = [
    Mutant("format-bumped-without-converter", VR, "FLOW_FORMAT_VERSION = 21", "FLOW_FORMAT_VERSION = 22", "R38.1"),
    Mutant("table-row-removed", CP, "    12: convert_12_13,\n", "", "R38.1"),
    Mutant("converter-does-not-advance", CP, "def convert_12_13(data):\n    data[\"version\"] = 13\n", "def convert_12_13(data):\n    data[\"version\"] = 12\n", "R38.1"),
    Mutant("row-skips-a-step", CP, "    7: convert_7_8,\n", "    7: convert_8_9,\n", "R38.1"),
    Mutant("str-key-before-unicode-conversion", CP, "    data[b\"version\"] = (0, 17)\n", "    data[\"version\"] = (0, 17)\n", "R38.1"),
    Mutant("bytes-key-after-unicode-conversion", CP, "    data[\"version\"] = (2, 0, 0)\n", "    data[b\"version\"] = (2, 0, 0)\n", "R38.1"),
    Mutant("three-component-key", CP, "    (3, 0): convert_300_4,\n", "    (3, 0, 0): convert_300_4,\n", "R38.1"),
    Mutant("converter-drops-return", CP, "        data[\"server_conn\"][\"tls_version\"] = \"QUICv1\"\n    return data\n", "        data[\"server_conn\"][\"tls_version\"] = \"QUICv1\"\n", "R38.1"),
    Mutant("converter-for-current-version", CP, "    20: convert_20_21,\n}", "    20: convert_20_21,\n    21: convert_unicode,\n}", "R38.1"),
    Mutant("unknown-version-accepted", CP,
           "            should_upgrade = (\n                isinstance(flow_version, int)\n                and flow_version > version.FLOW_FORMAT_VERSION\n            )\n            raise ValueError(\n                \"{} cannot read files with flow format version {}{}.\".format(\n                    version.MITMPROXY,\n                    flow_version,\n                    \", please update mitmproxy\" if should_upgrade else \"\",\n                )\n            )\n",
           "            break\n", "R38.2"),
    Mutant("current-version-not-recognised", CP, "        if flow_version == version.FLOW_FORMAT_VERSION:\n            break\n        elif flow_version in converters:", "        if flow_version in converters:", "R38.2"),
    Mutant("conversion-result-dropped", CP, "            flow_data = converters[flow_version](flow_data)\n", "            converters[flow_version](copy.deepcopy(flow_data))\n", "R38.2"),
    Mutant("converter-before-version-check", CP, "        if flow_version == version.FLOW_FORMAT_VERSION:\n            break\n        elif flow_version in converters:\n            flow_data = converters[flow_version](flow_data)\n",
           "        if flow_version == version.FLOW_FORMAT_VERSION:\n            flow_data = converters[flow_version](flow_data)\n            break\n        elif flow_version in converters:\n            flow_data = converters[flow_version](flow_data)\n", "R38.2"),
    Mutant("message-without-version", CP, "                    version.MITMPROXY,\n                    flow_version,\n", "                    version.MITMPROXY,\n                    \"?\",\n", "R38.2"),
    # seed C38b: the handshake cache is emptied before a new handshake is remembered
    Mutant("handshake-cache-cleared-on-insert", CP, "        _websocket_handshakes[data[\"id\"]] = copy.deepcopy(data)\n",
           "        _websocket_handshakes.clear()\n        _websocket_handshakes[data[\"id\"]] = copy.deepcopy(data)\n", "R38.3"),
    Mutant("handshake-cache-rebound", CP, "        _websocket_handshakes[data[\"id\"]] = copy.deepcopy(data)\n",
           "        global _websocket_handshakes\n        _websocket_handshakes = {data[\"id\"]: copy.deepcopy(data)}\n", "R38.3"),
    Mutant("handshake-cache-bounded-popitem", CP, "        _websocket_handshakes[data[\"id\"]] = copy.deepcopy(data)\n",
           "        if _websocket_handshakes:\n            _websocket_handshakes.popitem()\n        _websocket_handshakes[data[\"id\"]] = copy.deepcopy(data)\n", "R38.3"),
    Mutant("handshake-never-remembered", CP, "    if \"websocket\" in data[\"metadata\"]:\n        _websocket_handshakes[data[\"id\"]] = copy.deepcopy(data)\n\n", "", "R38.3"),
    Mutant("connection-ids-forgotten-per-flow", CP, "def convert_4_5(data):\n    data[\"version\"] = 5\n", "def convert_4_5(data):\n    data[\"version\"] = 5\n    server_connections.clear()\n", "R38.3"),
    Mutant("registries-cleared-through-loop-alias", CP, "def convert_4_5(data):\n    data[\"version\"] = 5\n",
           "def convert_4_5(data):\n    data[\"version\"] = 5\n    for registry in (client_connections, server_connections):\n        if len(registry) > 4096:\n            registry.clear()\n", "R38.3"),
    Mutant("handshake-cache-bounded-inside-helper", CP, "_websocket_handshakes = {}\n\n\ndef convert_11_12(data):\n    data[\"version\"] = 12\n\n    if \"websocket\" in data[\"metadata\"]:\n",
           "_websocket_handshakes = {}\n\n\ndef _bound(cache, limit=64):\n    while len(cache) >= limit:\n        cache.popitem()\n\n\ndef convert_11_12(data):\n    data[\"version\"] = 12\n\n"
           "    if \"websocket\" in data[\"metadata\"]:\n        _bound(_websocket_handshakes)\n", "R38.3"),
    Mutant("stream-skips-migration", IO, "yield flow.Flow.from_state(compat.migrate_flow(loaded))", "yield flow.Flow.from_state(loaded)", "R38.2"),
    Mutant("version-bump-only-when-marked", CP, "def convert_12_13(data):\n    data[\"version\"] = 13\n    if data[\"marked\"]:\n        data[\"marked\"] = \":default:\"\n",
           "def convert_12_13(data):\n    if data[\"marked\"]:\n        data[\"version\"] = 13\n        data[\"marked\"] = \":default:\"\n", "R38.1"),
    Mutant("normalisation-keeps-three-components", CP, "flow_version = tuple(flow_version)[:2]", "flow_version = tuple(flow_version)[:3]", "R38.1"),
    Mutant("older-unknown-version-passed-through", CP, "        elif flow_version in converters:\n            flow_data = converters[flow_version](flow_data)\n        else:\n",
           "        elif flow_version in converters:\n            flow_data = converters[flow_version](flow_data)\n        elif not isinstance(flow_version, int):\n            break\n        else:\n", "R38.2"),
    Mutant("handshake-remembered-under-connection-id", CP, "        _websocket_handshakes[data[\"id\"]] = copy.deepcopy(data)\n",
           "        _websocket_handshakes[data[\"client_conn\"][\"id\"]] = copy.deepcopy(data)\n", "R38.3"),
    Mutant("rejection-not-mapped", IO, "raise exceptions.FlowReadException(e) from e\n            except (\n                ValueError,\n", "raise\n            except (\n", "R38.2"),
]
