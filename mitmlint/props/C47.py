"""C47 - flow edits through mitmweb are atomic (FlowHandler.put).

Decided (nothing executed).  The *edit* is the body of the one try statement with handlers on the unconditional spine of ``put`` (top
level, inside ``with`` / try-finally); the *flow* is ``self.flow`` or a local alias; helpers of the handler class and module functions
of app.py are followed; local names, statement order, if/match, annotations, logging and assertions do not matter.
  R47.1 (E5) every exception that can be raised inside the edit on an untrusted JSON document (explicit APIError, int(v) ->
        ValueError/TypeError/OverflowError, add(*header) -> TypeError, .items()/iteration on a non-dict/non-list, and everything raised
        by the Request/Response property setters the edit triggers: idna/ascii encoding, type checks, content encoders) reaches a handler
        that restores the flow (``<flow>.set_state(x)`` / ``<flow>.revert()``, directly or through a helper) before anything else can
        happen; and nothing raised on untrusted data leaves ``put`` between a mutation placed before the try statement and that statement.
  R47.2 the restore point is taken before the first mutation on every path, and every normally completing path notifies the view
        (``...view.update(..)``).  Mutation = attribute / item store on anything but the handler object, setattr, or a mutator method
        (clear, add, insert, ...), also inside inlined helpers.
  R47.3 the state restored by the failure handler is the state at entry of ``put``: either a local bound once, unconditionally before
        the edit, to ``<flow>.get_state()`` and restored with ``<flow>.set_state(X)``, or ``backup()``/``revert()`` with an unconditional
        backup.  ``set_state(<flow>.get_state())`` evaluated in the handler is reported.
  R47.4 (E3, pyint) the restore point is a *snapshot*: ``HTTPFlow.get_state`` (with ``Flow.get_state``, ``Message.get_state``,
        ``MessageData.get_state``, ``MultiDict.get_state``) is interpreted from its AST on an abstract flow for every combination of
        request/response headers {empty, non-empty} x trailers {None, empty, non-empty} x response {present, absent}; the returned state
        must not contain (at any depth) one of the live objects of the flow - in particular none of the four ``Headers`` objects the edit
        mutates in place (``.clear()``/``.add()``, and the ``text``/``content`` setters).  A live object inside the snapshot is edited
        together with the flow, so ``set_state(old_state)`` "restores" the rejected edit - clause "leaves the flow exactly as it was".
        Truthiness of a Headers object is modelled as "has fields" (checked: no ``__bool__`` in the MRO and the interpreted ``__len__`` is 0
        exactly for an object without fields).
Untrusted data is ``self.json`` and every local computed from it before the try statement.  ``<flow>.request`` / ``<flow>.response`` and
un-annotated locals bound to them are typed http.Request / http.Response (so their property setters are analysed with or without the
annotated temporaries).
NOT decided: that set_state(get_state()) is the identity (C36/C40 territory); exceptions outside the modelled table; flows other than
HTTPFlow.
"""

from __future__ import annotations

import ast

from ..core import AnalysisError
from ..core import norm
from ..model import walk_in_order
from ..paths import GenericSpec
from ..paths import precedes
from ..paths import traces_of
from ..selftest import Mutant
from ._helpers_H import Config
from ._helpers_H import MayRaise
from ._helpers_H import _own_nodes

PROP = "C47"
REG = {
    "strength": "partial",
    "technique": "exception-escape sets vs. reverting handlers (E5, property setters resolved through annotated locals) + must-precede path facts "
    "+ AST interpretation of HTTPFlow.get_state on abstract flows (snapshot independence)",
    "claim": "every explicit raise and modelled implicit raiser of FlowHandler.put's edit loop (including the Request/Response property setters it "
    "drives) reaches a handler that restores the flow; the restore point is taken before the first mutation and is the state at entry; success "
    "paths update the view; the snapshot restored from contains none of the flow's live (in-place edited) objects for any headers/trailers shape.",
    "note": "Untrusted data: the decoded JSON body (any JSON type at every level). Codec libraries (zlib/brotli/zstd/codecs) are summarised as raising "
    "Exception subclasses only.",
}

APP = "mitmproxy/tools/web/app.py"
FLOW = "mitmproxy/flow.py"
HTTP = "mitmproxy/http.py"
QUAL = "FlowHandler.put"

RESTORE_METHODS = ("revert", "set_state")
# in-place mutators of the objects put() edits (Headers / MultiDict / list / dict API); matched on the method name, any receiver
MUTATORS = frozenset("clear add insert set_all update pop popitem setdefault extend append remove sort reverse set_text set_content "
                     "__setitem__ __delitem__ __setattr__ decode encode".split())


def _single_bindings(fn):
    """local name -> (value expression, binding statement) for the locals of ``fn`` that are bound exactly once, by a plain
    ``x = e`` / ``x: T = e`` statement (a bare declaration ``x: T`` is not a binding); parameters are excluded."""
    declared = {id(n.target) for n in _own_nodes(fn) if isinstance(n, ast.AnnAssign) and n.value is None}
    stores: dict[str, int] = {}
    vals = {}
    for n in _own_nodes(fn):
        if isinstance(n, ast.Name) and isinstance(n.ctx, (ast.Store, ast.Del)) and id(n) not in declared:
            stores[n.id] = stores.get(n.id, 0) + 1
        if isinstance(n, ast.Assign) and len(n.targets) == 1 and isinstance(n.targets[0], ast.Name):
            vals[n.targets[0].id] = (n.value, n)
        elif isinstance(n, ast.AnnAssign) and n.value is not None and isinstance(n.target, ast.Name):
            vals[n.target.id] = (n.value, n)
    a = fn.args
    ps = {x.arg for x in a.posonlyargs + a.args + a.kwonlyargs} | {x.arg for x in (a.vararg, a.kwarg) if x is not None}
    return {k: v for k, v in vals.items() if stores.get(k) == 1 and k not in ps}


def _closure(fn, seeds):
    """``seeds`` plus the single-assignment locals of ``fn`` that are plain aliases of one of them (text of the expression)."""
    names = set(seeds)
    single = _single_bindings(fn)
    changed = True
    while changed:
        changed = False
        for k, (v, _) in single.items():
            if k not in names and norm(v) in names:
                names.add(k)
                changed = True
    return names


def _spine(fn):
    """[(statements executed unconditionally before it, Try)] for the try statements with handlers that lie on the unconditional
    spine of ``fn`` (top level, descending into ``with`` blocks and handler-less try/finally bodies)."""
    found, pre = [], []

    def walk(stmts):
        for s in stmts:
            if isinstance(s, ast.Try) and s.handlers:
                found.append((list(pre), s))
            elif isinstance(s, (ast.With, ast.AsyncWith)) or (isinstance(s, ast.Try) and not s.handlers):
                walk(s.body)
            pre.append(s)

    walk(fn.body)
    return found


def _restore_in(model, cls_qual, stmts, flows, depth=0):
    """(method, snapshot argument | None, call) when the statement list restores the flow before anything else can happen: its first
    compound / raise / return statement comes after a ``<flow>.set_state(x)`` / ``<flow>.revert()`` call; a ``self.helper(...)`` call
    is followed into the helper (arguments mapped onto its parameters).  A conditional restore is not a restore."""
    for st in stmts:
        if isinstance(st, ast.Expr) and isinstance(st.value, ast.Call):
            c = st.value
            f = c.func
            if isinstance(f, ast.Attribute) and f.attr in RESTORE_METHODS and norm(f.value) in flows:
                return f.attr, (c.args[0] if len(c.args) == 1 and not c.keywords else None) if f.attr == "set_state" else None, c
            if depth < 2 and isinstance(f, ast.Attribute) and isinstance(f.value, ast.Name) and f.value.id in ("self", "cls") and model.method(APP, cls_qual, f.attr) is not None:
                m, callee = model.method(APP, cls_qual, f.attr)
                decs = {norm(d) for d in callee.decorator_list}
                ps = [a.arg for a in callee.args.posonlyargs + callee.args.args][0 if "staticmethod" in decs else 1:]
                if any(isinstance(a, ast.Starred) for a in c.args) or any(k.arg is None for k in c.keywords) or len(c.args) > len(ps):
                    continue
                bound = dict(zip(ps, c.args))
                bound.update({k.arg: k.value for k in c.keywords})
                inner = _restore_in(model, cls_qual, callee.body, _closure(callee, {"self.flow"} | {p for p, a in bound.items() if norm(a) in flows}), depth + 1)
                if inner is not None:
                    snap = inner[1]
                    if snap is not None:
                        snap = bound.get(snap.id) if isinstance(snap, ast.Name) and snap.id in bound and snap.id not in {k for k in _single_bindings(callee)} else None
                    return inner[0], snap, c
        if isinstance(st, (ast.Raise, ast.Return, ast.If, ast.For, ast.While, ast.Try, ast.With, ast.Match, ast.AsyncFor, ast.AsyncWith)):
            return None  # something else happens first (a conditional restore is not a restore)
    return None


def _is_mut_target(text: str) -> bool:
    """An attribute / item store on anything but the handler object itself (``self.flow.x`` is the flow) is taken for a mutation of the flow."""
    return "." in text and (not text.startswith("self.") or text.startswith("self.flow."))


def _local_types(frame):
    """Types the annotations of a function do not spell out: ``<flow>.request`` / ``<flow>.response`` of the edited (HTTP) flow - and
    un-annotated single-assignment locals bound to them - are http.Request / http.Response, so that their property setters are analysed
    whether or not the code keeps them in annotated locals.  (Flows other than HTTPFlow are outside the property, see NOT decided.)"""
    fn = frame.fn
    flows = _closure(fn, {"self.flow"} | {n for n, (_, c) in frame.types.items() if c.name in ("Flow", "HTTPFlow")})
    out = {}
    for f in flows:
        out[f + ".request"] = (HTTP, "Request")
        out[f + ".response"] = (HTTP, "Response")
    for k, (v, _) in _single_bindings(fn).items():
        if norm(v) in out:
            out[k] = out[norm(v)]
    return out


def check(ctx):
    ctx.rule("R47.1", "escape set of the edit (the body of put's try statement) is within the handlers that restore the flow")
    ctx.rule("R47.2", "restore point taken before the first mutation; success paths call view.update")
    ctx.rule("R47.3", "the restore point used on failure is the state at entry of put")
    fn = ctx.func(APP, QUAL)
    cls_qual = QUAL.rsplit(".", 1)[0]
    ctx.func(FLOW, "Flow.backup")
    ctx.func(FLOW, "Flow.revert")
    flows = _closure(fn, {"self.flow"})  # texts that denote the edited flow
    tries = _spine(fn)
    # the edit is guarded by the try statement that has a restoring handler (other try statements - e.g. around the view update - are not it)
    restoring = [(p, x) for p, x in tries if any(_restore_in(ctx.model, cls_qual, h.body, flows) is not None for h in x.handlers)]
    ctx.require(len(restoring) == 1 or (not restoring and len(tries) == 1),
                f"FlowHandler.put: expected exactly one try statement with a restoring handler on the unconditional spine of put, found {len(restoring)} of {len(tries)}")
    pre, t = (restoring or tries)[0]
    # untrusted data: the decoded JSON document (self.json) and every local computed from it before the try statement
    single = _single_bindings(fn)
    env = {"self.json": "A"}
    changed = True
    while changed:
        changed = False
        for st in pre:
            for n in [st] + list(_own_nodes(st)):
                tgts, val = ([n.target], n.value) if isinstance(n, (ast.AnnAssign, ast.NamedExpr, ast.AugAssign)) else (n.targets, n.value) if isinstance(n, ast.Assign) else ([], None)
                if val is None or not any(norm(x) in env for x in ast.walk(val) if isinstance(x, (ast.Name, ast.Attribute))):
                    continue
                for tg in tgts:
                    for x in ast.walk(tg):
                        if isinstance(x, ast.Name) and isinstance(x.ctx, ast.Store) and x.id not in env:
                            env[x.id] = "A"
                            changed = True

    # ---- R47.1
    cfg = Config(local_types=_local_types, externals={
        "zlib.compress": (("Exception",), "V"), "brotli.compress": (("Exception",), "V"), "zstd.compress": (("Exception",), "V"),
        "codecs.encode": (("LookupError", "ValueError", "TypeError"), "V"), "CachedDecode": ((), "V"),
    })
    ctx.trust("zlib/brotli/zstd compress and codecs.encode raise Exception subclasses only")
    mr = MayRaise(ctx, cfg)
    esc = mr.region(APP, QUAL, t.body, env)
    key = mr.key_of_region(APP, QUAL, env)
    ctx.require(mr.sites >= 30 and len(mr.functions) >= 15, f"escape analysis collapsed: {mr.sites} sites, {sorted(mr.functions)}")
    ctx.require({"APIError", "ValueError", "TypeError", "AttributeError"} <= {e.exc for e in esc},
                f"modelled raisers of the edit vanished: {sorted({e.exc for e in esc})}")
    ctx.paths += mr.sites
    for f in mr.functions:
        ctx.functions.add(f)
    mod = mr.model.module(APP)
    hs = []
    for h in t.handlers:
        names = ["BaseException"] if h.type is None else [mr.h.canon(mod, e) for e in (h.type.elts if isinstance(h.type, ast.Tuple) else [h.type])]
        hs.append((h, names, _restore_in(ctx.model, cls_qual, h.body, flows)))
    bad = {}
    for e in sorted(esc, key=lambda e: (e.exc, e.rel, e.qual, e.text)):
        hit = next(((h, r) for h, names, r in hs if any(mr.h.isa(e.exc, n) for n in names)), None)
        if hit is None:
            bad.setdefault(e.exc, ("no handler of the edit catches it", e))
        elif hit[1] is None:
            bad.setdefault(e.exc, (f"the handler `except {norm(hit[0].type) if hit[0].type else ''}` does not restore the flow first", e))
    for typ, (why, e) in sorted(bad.items()):
        ctx.fail("R47.1", (APP, QUAL, t), f"{typ} leaves the edit loop without a revert",
                 f"{typ} raised at {e.site()} ({e.why}): {why}; earlier fields of the same edit stay applied; call chain: " + " -> ".join(mr.chain(key, e)),
                 chain=mr.chain(key, e))
    # mutations between the restore point and the try statement are not covered by any handler: nothing raised there on untrusted data
    # may leave put() (statements after the try run only when the whole edit was applied)
    amod = ctx.model.module(APP)

    def resolver(call):
        # private helpers of the handler (self._x(...), FlowHandler._x(...)) and module functions of app.py are inlined
        f = call.func
        if isinstance(f, ast.Attribute) and isinstance(f.value, ast.Name) and f.value.id in ("self", "cls", cls_qual):
            r = ctx.model.method(APP, cls_qual, f.attr)
            return r[1] if r is not None and r[0].rel == APP else None
        if isinstance(f, ast.Name):
            r = ctx.model.resolve_name(amod, f)
            return r[1] if r is not None and r[0].rel == APP and isinstance(r[1], ast.FunctionDef) else None
        return None

    def mutates(node, depth=0):
        for n in [node] + list(_own_nodes(node)):
            tg = n.targets if isinstance(n, (ast.Assign, ast.Delete)) else [n.target] if isinstance(n, (ast.AugAssign, ast.AnnAssign)) and getattr(n, "value", True) is not None else []
            for x in tg:
                for e in ast.walk(x):
                    if isinstance(e, (ast.Attribute, ast.Subscript)) and isinstance(e.ctx, (ast.Store, ast.Del)) and _is_mut_target(norm(e)):
                        return True
            if isinstance(n, ast.Call):
                if (isinstance(n.func, ast.Name) and n.func.id == "setattr") or (isinstance(n.func, ast.Attribute) and n.func.attr in MUTATORS):
                    return True
                callee = resolver(n) if depth < 3 else None
                if callee is not None and any(mutates(s, depth + 1) for s in callee.body):
                    return True
        return False

    first = next((i for i, st in enumerate(pre) if mutates(st)), None)
    if first is not None:
        outside = mr.region(APP, QUAL, pre[first:], env)
        for e in sorted(outside, key=lambda e: (e.exc, e.rel, e.qual, e.text)):
            if e.exc not in bad:
                bad[e.exc] = ("raised outside the try statement", e)
                ctx.fail("R47.1", (APP, QUAL, pre[first]), f"{e.exc} leaves put() outside the restoring try statement",
                         f"`{norm(pre[first])[:60]}` mutates the flow before the try statement is entered and {e.exc} raised at {e.site()} ({e.why}) is not answered by any "
                         "restoring handler: the part of the edit applied so far stays")
    if not bad:
        ctx.ok("R47.1", f"{mr.sites} raiser sites in {len(mr.functions)} functions; escape set {sorted({e.exc for e in esc})} all reach a restoring handler")
    ctx.sample({"rule": "R47.1", "escape_set": sorted({e.exc for e in esc}), "handlers": [(names, bool(r)) for _, names, r in hs],
                "setters_analysed": sorted(f for f in mr.functions if "http.py" in f)})
    ctx.expect_instances("R47.1", 1)

    # ---- R47.3 (which restore point) and R47.2 (when it is taken)
    restores = [r for _, _, r in hs if r is not None]
    ctx.require(restores, "no handler of the edit restores the flow (R47.1 reports it); restore point unknown") if not bad else None
    point = None  # method that takes the restore point
    for what, snap, r in restores:
        if what == "set_state":
            if isinstance(snap, ast.Call) and isinstance(snap.func, ast.Attribute) and snap.func.attr == "get_state" and norm(snap.func.value) in flows:
                ctx.fail("R47.3", (APP, QUAL, r), "flow.set_state(<snapshot>) restores a snapshot taken at entry",
                         f"the failure handler restores `{norm(snap)}` evaluated at the time of the failure: that state already contains the rejected part of the edit")
                point = "get_state"
                continue
            ctx.require(isinstance(snap, ast.Name), f"unmodelled restore {norm(r)}")
            val, st = single.get(snap.id, (None, None))
            ok = st is not None and any(st is p for p in pre) and isinstance(val, ast.Call) and isinstance(val.func, ast.Attribute) and val.func.attr == "get_state" \
                and norm(val.func.value) in flows and not val.args and not val.keywords
            ctx.check(ok, "R47.3", (APP, QUAL, r), "flow.set_state(<snapshot>) restores a snapshot taken at entry",
                      f"`{snap.id}` is not an unconditional `flow.get_state()` snapshot taken once before the edit", desc=f"snapshot {snap.id} = flow.get_state() restored on failure")
            point = "get_state"
        else:
            bk = ctx.func(FLOW, "Flow.backup")
            stores = [s for s in walk_in_order(bk) if isinstance(s, ast.Assign) and any(norm(x) == "self._backup" for x in s.targets)]
            uncond = any(s._parent is bk for s in stores)
            ctx.check(uncond, "R47.3", (APP, QUAL, r), "flow.revert() restores the oldest backup, not the state at entry",
                      "Flow.backup() keeps an existing backup (`if not self._backup`), so after an earlier successful edit a failing edit reverts to "
                      "the state before BOTH edits: the flow is not left exactly as it was", desc="backup() unconditional")
            point = "backup"
    ctx.expect_instances("R47.3", 1) if restores else None

    if point is not None:
        def is_point(ev):
            return ev[0] == "call" and "." in ev[1] and ev[1].rsplit(".", 1)[1] == point and ev[1].rsplit(".", 1)[0] in flows

        def is_update(ev):
            return ev[0] == "call" and (ev[1] == "view.update" or ev[1].endswith(".view.update"))

        def is_mut(ev):
            if ev[0] == "call":
                return not is_point(ev) and not is_update(ev) and (ev[1] == "setattr" or ev[1].rsplit(".", 1)[-1] in MUTATORS and "." in ev[1])
            return ev[0] in ("assign", "del") and _is_mut_target(ev[1])

        traces, eng = traces_of(fn, GenericSpec(keep=lambda ev: is_point(ev) or is_update(ev) or is_mut(ev), resolver=resolver, unroll=1))
        ctx.paths += len(traces)
        muts = sum(1 for tr, how, st in traces for ev in tr if is_mut(ev))
        ctx.require(muts >= 10, f"R47.2: mutation events vanished from the model ({muts})")
        early = []  # mutation events that happen before the restore point exists on some path
        for tr, how, st in traces:
            for ev in tr:
                if is_point(ev):
                    break
                if is_mut(ev) and ev not in early:
                    early.append(ev)
        ok = all(precedes(tr, is_point, is_mut) for tr, how, st in traces) and not early
        ctx.check(ok, "R47.2", (APP, QUAL, fn), f"flow.{point}() precedes the first mutation",
                  "a path mutates the flow before the restore point is taken: " + ", ".join(sorted(f"{ev[0]} {ev[1]}" for ev in early)[:6])
                  + f" happen(s) before flow.{point}(), so the state restored on failure already contains that part of the rejected edit",
                  desc=f"flow.{point}() precedes every mutation on {len(traces)} paths")
        done = [tr for tr, how, st in traces if how == "return"]
        ok = bool(done) and all(any(is_update(ev) for ev in tr) for tr in done)
        ctx.check(ok, "R47.2", (APP, QUAL, fn), "self.view.update([flow]) on every completing path", "an applied edit is not announced to the view",
                  desc=f"view.update on all {len(done)} completing paths")
        ctx.expect_instances("R47.2", 2)

    # ---- R47.4
    ctx.rule("R47.4", "the state put() restores from contains none of the flow's live objects (a snapshot, not an alias)")
    ctx.guard(_snapshot_rule, ctx)
    ctx.expect_instances("R47.4", 1)


def _snapshot_rule(ctx):
    import copy as _copy
    import itertools

    from ..pyint import DictRec
    from ..pyint import Interp
    from ..pyint import Raised
    from ..pyint import Rec

    m = ctx.model
    for qual in ("HTTPFlow.get_state", "Message.get_state", "MessageData.get_state"):
        ctx.func(HTTP, qual)
    ctx.func(FLOW, "Flow.get_state")
    ctx.require(m.method(HTTP, "Headers", "__len__") is not None and m.method(HTTP, "Headers", "__bool__") is None,
                "Headers truthiness is no longer given by __len__ (sized container without __bool__): the abstract Headers record of R47.4 does not apply")
    for fields in ((), ((b"x-a", b"1"), (b"X-A", b"2"))):  # truthiness of the abstract record == the interpreted __len__ != 0
        probe = Rec("Headers", _impl=(HTTP, "Headers"), fields=fields)
        try:
            n = Interp(m).method(probe, "__len__")
        except Raised as r:
            raise AnalysisError(f"R47.4: Headers.__len__ raises {r.name} on the abstract record")
        ctx.require(isinstance(n, int) and bool(n) == bool(fields), f"R47.4: Headers.__len__ is {n!r} for fields {fields!r}: 'falsy iff no fields' does not hold")

    class SizedRec(DictRec):
        def __len__(self):
            return len(self._items)

    def headers(name, fields):
        # a sized container: falsy when it has no fields (DictRec truthiness == has items)
        return SizedRec("Headers", items={i: f for i, f in enumerate(fields)}, _impl=(HTTP, "Headers"), _name=name, fields=tuple(fields))

    def public(rec):
        return {k: v for k, v in rec.__dict__.items() if not k.startswith("_")}

    H = {"empty": (), "non-empty": ((b"x-a", b"1"), (b"x-b", b"2"))}
    T = {"None": None, **H}
    cases = [(rh, rt, sh, st_) for rh, rt in itertools.product(H, T) for sh, st_ in itertools.product(H, T)] + [(rh, rt, None, None) for rh, rt in itertools.product(H, T)]
    aliased: dict = {}
    for rh, rt, sh, st_ in cases:
        live = {}

        def mk(owner, attr, kind):
            if kind == "None":
                return None
            live[f"{owner}.{attr}"] = headers(f"{owner}.{attr}", H[kind])
            return live[f"{owner}.{attr}"]

        def message(cls, dcls, owner, hk, tk, **extra):
            data = Rec(dcls, _impl=(HTTP, dcls), _name=f"{owner}.data", http_version=b"HTTP/1.1", headers=mk(owner, "headers", hk), content=b"body",
                       trailers=mk(owner, "trailers", tk), timestamp_start=1.0, timestamp_end=2.0, **extra)
            live[f"{owner}.data"] = data
            live[owner] = Rec(cls, _impl=(HTTP, cls), _name=owner, data=data)
            return live[owner]

        req = message("Request", "RequestData", "request", rh, rt, host="example.org", port=80, method=b"GET", scheme=b"http", authority=b"", path=b"/")
        resp = message("Response", "ResponseData", "response", sh, st_, status_code=200, reason=b"OK") if sh is not None else None

        def conn(name):
            return Rec("Connection", _name=name, get_state=lambda: {"id": name})

        flow = Rec("HTTPFlow", _impl=(HTTP, "HTTPFlow"), _name="flow", type="http", id="flow-id", error=None, client_conn=conn("client_conn"), server_conn=conn("server_conn"),
                   intercepted=False, is_replay=None, marked="", metadata={"k": ["v"]}, comment="", timestamp_created=0.5, _backup=None, request=req, response=resp, websocket=None)
        it = Interp(m, trusted_modules={"copy": _copy}, externals={"vars": public})
        try:
            state = it.method(flow, "get_state")
        except Raised as r:
            raise AnalysisError(f"R47.4: HTTPFlow.get_state raises {r.name} on the abstract flow ({r.msg})")
        ctx.cells += 1
        ctx.require(isinstance(state, dict) and isinstance(state.get("request"), dict), "R47.4: HTTPFlow.get_state no longer returns a mapping with a 'request' mapping")

        def walk(v, path, seen):
            if isinstance(v, Rec):
                yield path, v
                return
            if id(v) in seen:
                return
            if isinstance(v, dict):
                seen.add(id(v))
                for k, x in v.items():
                    yield from walk(x, f"{path}[{k!r}]", seen)
            elif isinstance(v, (list, tuple, set, frozenset)):
                seen.add(id(v))
                for i, x in enumerate(v):
                    yield from walk(x, f"{path}[{i}]", seen)

        for path, rec in walk(state, "state", set()):
            what = next((n for n, o in live.items() if o is rec), rec._name)
            case = f"request headers {rh} / trailers {rt}" + (f", response headers {sh} / trailers {st_}" if sh is not None else ", no response")
            aliased.setdefault((path, what), case)
    where = (HTTP, "MessageData.get_state", ctx.func(HTTP, "MessageData.get_state")) if aliased and all(p.startswith(("state['request']", "state['response']")) for p, _ in aliased) \
        else (HTTP, "HTTPFlow.get_state", ctx.func(HTTP, "HTTPFlow.get_state"))
    ctx.check(not aliased, "R47.4", where, "flow.get_state() shares no live object with the flow",
              "the state FlowHandler.put restores from on failure contains live objects of the flow: "
              + "; ".join(f"{p} is the live `{w}` object (e.g. {c})" for (p, w), c in sorted(aliased.items())[:4])
              + " - the rejected edit mutates it in place (clear()/add()/setters), so flow.set_state(old_state) keeps the rejected values while everything else is rolled back",
              desc=f"HTTPFlow.get_state interpreted on {len(cases)} header/trailer shapes: no live object in the snapshot", aliased=[f"{p} -> {w} ({c})" for (p, w), c in sorted(aliased.items())])
    ctx.bounds.append(f"R47.4: {len(cases)} abstract HTTP flows (headers empty/non-empty x trailers None/empty/non-empty, with and without response)")


H_OLD = "        except Exception:\n            flow.set_state(old_state)\n            raise\n        self.view.update([flow])"
MUTANTS = [
    # R47.1: reverse of the F-C47 fix and variants
    Mutant("reverse-fix-only-apierror-reverts", APP, H_OLD, H_OLD.replace("except Exception:", "except APIError:"), "R47.1"),
    Mutant("handler-list-misses-typeerror", APP, H_OLD, H_OLD.replace("except Exception:", "except (APIError, ValueError, AttributeError, UnicodeError):"), "R47.1"),
    Mutant("handler-reraises-before-restore", APP, H_OLD, H_OLD.replace("            flow.set_state(old_state)\n", ""), "R47.1"),
    Mutant("restore-only-for-api-errors-inside-handler", APP, H_OLD,
           "        except Exception as e:\n            if isinstance(e, APIError):\n                flow.set_state(old_state)\n            raise\n        self.view.update([flow])", "R47.1"),
    # R47.3: reverse of the F-C47b fix and variants
    Mutant("reverse-fix-revert-to-oldest-backup", APP, H_OLD, H_OLD.replace("flow.set_state(old_state)", "flow.revert()"), "R47.3"),
    Mutant("snapshot-is-the-old-backup", APP, "        old_state = flow.get_state()\n", "        old_state = flow._backup or flow.get_state()\n", "R47.3"),
    # R47.2
    Mutant("snapshot-after-a-mutation", APP, "        old_state = flow.get_state()\n", "        flow.marked = \"\"\n        old_state = flow.get_state()\n", "R47.2"),
    # seed C47a: fields applied before the snapshot is taken (through an alias of the edit document)
    Mutant("annotations-applied-before-snapshot", APP, "        old_state = flow.get_state()\n        flow.backup()\n        try:\n            for a, b in self.json.items():",
           "        update: dict = self.json\n        if \"comment\" in update:\n            flow.comment = update.pop(\"comment\")\n        old_state = flow.get_state()\n        flow.backup()\n        try:\n            for a, b in update.items():", "R47.2"),
    Mutant("headers-cleared-before-snapshot", APP, "        old_state = flow.get_state()\n", "        if \"headers\" in self.json.get(\"request\", {}):\n            self.flow.request.headers.clear()\n        old_state = flow.get_state()\n", "R47.2"),
    Mutant("view-not-updated", APP, "            raise\n        self.view.update([flow])\n\n\nclass DuplicateFlow", "            raise\n\n\nclass DuplicateFlow", "R47.2"),
    # generalised shapes: a field applied outside the restoring try statement; the handler restores a state taken at failure time
    Mutant("fields-applied-before-the-try", APP, "        flow.backup()\n        try:\n            for a, b in self.json.items():",
           "        flow.backup()\n        if \"marked\" in self.json:\n            flow.marked = self.json[\"marked\"]\n        if \"request\" in self.json and \"port\" in self.json[\"request\"]:\n"
           "            flow.request.port = int(self.json[\"request\"].pop(\"port\"))\n        try:\n            for a, b in self.json.items():", "R47.1"),
    Mutant("restores-state-taken-at-failure", APP, H_OLD, H_OLD.replace("flow.set_state(old_state)", "flow.set_state(flow.get_state())"), "R47.3"),
    # R47.4 - seed C47b and other ways of leaving a live object in the snapshot
    Mutant("snapshot-keeps-empty-trailers-object", HTTP, "        if state[\"trailers\"] is not None:\n            state[\"trailers\"] = state[\"trailers\"].get_state()", "        if state[\"trailers\"]:\n            state[\"trailers\"] = state[\"trailers\"].get_state()", "R47.4"),
    Mutant("snapshot-keeps-headers-object", HTTP, "        state[\"headers\"] = state[\"headers\"].get_state()\n        if state[\"trailers\"] is not None:", "        if state[\"trailers\"] is not None:", "R47.4"),
    Mutant("snapshot-converts-only-non-empty-headers", HTTP, "        state[\"headers\"] = state[\"headers\"].get_state()\n        if state[\"trailers\"] is not None:", "        if len(state[\"headers\"]):\n            state[\"headers\"] = state[\"headers\"].get_state()\n        if state[\"trailers\"] is not None:", "R47.4"),
    Mutant("flow-snapshot-holds-the-response-object", HTTP, "            \"response\": self.response.get_state() if self.response else None,", "            \"response\": self.response,", "R47.4"),
]
