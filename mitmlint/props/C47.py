"""C47 - flow edits through mitmweb are atomic (FlowHandler.put).

Decided (nothing executed; repository code is only parsed and *interpreted from its AST*).
  R47.1 (E5, may-raise) the *edit* is the part of ``put`` guarded by the one try statement with a restoring handler on the unconditional
        spine of ``put`` (top level, inside ``with`` / try-finally) - written in put, or supplied by a @contextmanager generator of app.py
        that put enters (``with _guarded(flow):`` - the with-body runs at the generator's ``yield``, so the handlers around that yield
        are the handlers of the with-body).  Every exception that can be raised inside the edit on an untrusted JSON document (explicit
        APIError, int(v) -> ValueError/TypeError/OverflowError, add(*header) -> TypeError, .items()/iteration on a non-dict/non-list, and
        everything raised by the Request/Response property setters the edit triggers: idna/ascii encoding, type checks, content encoders)
        reaches a handler that restores the flow (``<flow>.set_state(x)`` / ``<flow>.revert()``, directly or through a helper) before
        anything else can happen; and nothing raised on untrusted data leaves ``put`` between a mutation placed before the guarded
        statements and those statements.  The flow is ``self.flow`` or a local alias / the generator's parameter bound to it; helpers of
        the handler class and module functions of app.py are followed; ``setattr(obj, NAME, v)`` is analysed for every string NAME can
        denote (guards, module-level tables incl. computed ones, ``TABLE.get(k)`` locals, parameters through all call sites).
  R47.2 (E3, pyint) every accepted edit is announced to the view: ``put`` is interpreted on valid edit documents; when it returns,
        ``view.update([flow])`` has been called with the flow in its final state.
  R47.3 (E3, pyint) every rejected edit leaves the flow exactly as it was at entry: ``put`` (with its helpers, tables, context managers,
        ``Flow.backup`` / ``Flow.revert``) is interpreted on edit documents with one invalid part (unknown field, malformed port / status
        code / header list / trailer list, invalid host, a section that is no mapping) at every position of the request, the response
        and the document, on abstract HTTP flows with / without an earlier backup and with / without trailers; the observable state
        (all message fields, header / trailer fields, marked, comment, metadata, backup) after the rejection must equal the state at
        entry.  This covers: restore point taken after a mutation, restoring the oldest backup (``revert()`` after an earlier edit),
        restoring a state evaluated at failure time, conditional restores.  Local names, statement order, if/match/tables, helper
        extraction, annotations, logging and assertions do not matter.
  R47.4 (E3, pyint) the restore point is a *snapshot*: ``HTTPFlow.get_state`` (with ``Flow.get_state``, ``Message.get_state``,
        ``MessageData.get_state``, ``MultiDict.get_state``) is interpreted from its AST on an abstract flow for every combination of
        request/response headers {empty, non-empty} x trailers {None, empty, non-empty} x response {present, absent}; the returned state
        must not contain (at any depth) one of the live objects of the flow - in particular none of the four ``Headers`` objects the edit
        mutates in place (``.clear()``/``.add()``, and the ``text``/``content`` setters).  A live object inside the snapshot is edited
        together with the flow, so ``set_state(old_state)`` "restores" the rejected edit - clause "leaves the flow exactly as it was".
        Truthiness of a Headers object is modelled as "has fields" (checked: no ``__bool__`` in the MRO and the interpreted ``__len__`` is 0
        exactly for an object without fields).
Untrusted data is ``self.json`` and every local of put computed from it.  ``<flow>.request`` / ``<flow>.response`` and
un-annotated locals bound to them are typed http.Request / http.Response (so their property setters are analysed with or without the
annotated temporaries).
In the worlds of R47.2/R47.3 the messages are abstract records (the property setters are abstracted to their type checks and the host
check - R47.1 analyses the real setters), Headers is an ordered multi-dict stand-in, and get_state / set_state of the abstract flow are
a deep snapshot and its restore (R47.4 decides the snapshot part for the real code).
NOT decided: that set_state(get_state()) is the identity (C36/C40 territory); exceptions outside the modelled table; flows other than
HTTPFlow; edit documents outside the enumerated world for R47.2/R47.3 (R47.1 covers every document for the exception-coverage clause).
"""

from __future__ import annotations

import ast

from ..core import AnalysisError
from ..core import norm
from ..model import attr_chain
from ..model import enclosing_func
from ..selftest import Mutant
from ._helpers_H import Config
from ._helpers_H import ExcHierarchy
from ._helpers_H import MayRaise
from ._helpers_H import _is_cm
from ._helpers_H import _own_nodes
from ._helpers_H import bounded_strings
from ._helpers_H import cached_model
from ._helpers_H import guards_at
from ._helpers_H import modules_mentioning

PROP = "C47"
REG = {
    "strength": "partial",
    "technique": "exception-escape sets vs. reverting handlers (E5, property setters resolved through annotated locals) + AST interpretation of "
    "FlowHandler.put on a world of valid/invalid edit documents (state after a rejected edit == state at entry) "
    "+ AST interpretation of HTTPFlow.get_state on abstract flows (snapshot independence)",
    "claim": "every explicit raise and modelled implicit raiser of FlowHandler.put's edit loop (including the Request/Response property setters it "
    "drives) reaches a handler that restores the flow; the restore point is taken before the first mutation and is the state at entry; success "
    "paths update the view; the snapshot restored from contains none of the flow's live (in-place edited) objects for any headers/trailers shape.",
    "note": "Untrusted data: the decoded JSON body (any JSON type at every level). Codec libraries (zlib/brotli/zstd/codecs) are summarised as raising "
    "Exception subclasses only.",
}

APP = "mitmproxy/tools/web/app.py"
FLOW = "mitmproxy/flow.py"
HTTP = "mitmproxy/http.py"
QUAL = "FlowHandler.put"

RESTORE_METHODS = ("revert", "set_state")
# in-place mutators of the objects put() edits (Headers / MultiDict / list / dict API); matched on the method name, any receiver
MUTATORS = frozenset("clear add insert set_all update pop popitem setdefault extend append remove sort reverse set_text set_content "
                     "__setitem__ __delitem__ __setattr__ decode encode".split())


def _single_bindings(fn):
    """local name -> (value expression, binding statement) for the locals of ``fn`` that are bound exactly once, by a plain
    ``x = e`` / ``x: T = e`` statement (a bare declaration ``x: T`` is not a binding); parameters are excluded."""
    declared = {id(n.target) for n in _own_nodes(fn) if isinstance(n, ast.AnnAssign) and n.value is None}
    stores: dict[str, int] = {}
    vals = {}
    for n in _own_nodes(fn):
        if isinstance(n, ast.Name) and isinstance(n.ctx, (ast.Store, ast.Del)) and id(n) not in declared:
            stores[n.id] = stores.get(n.id, 0) + 1
        if isinstance(n, ast.Assign) and len(n.targets) == 1 and isinstance(n.targets[0], ast.Name):
            vals[n.targets[0].id] = (n.value, n)
        elif isinstance(n, ast.AnnAssign) and n.value is not None and isinstance(n.target, ast.Name):
            vals[n.target.id] = (n.value, n)
    a = fn.args
    ps = {x.arg for x in a.posonlyargs + a.args + a.kwonlyargs} | {x.arg for x in (a.vararg, a.kwarg) if x is not None}
    return {k: v for k, v in vals.items() if stores.get(k) == 1 and k not in ps}


def _closure(fn, seeds):
    """``seeds`` plus the single-assignment locals of ``fn`` that are plain aliases of one of them (text of the expression)."""
    names = set(seeds)
    single = _single_bindings(fn)
    changed = True
    while changed:
        changed = False
        for k, (v, _) in single.items():
            if k not in names and norm(v) in names:
                names.add(k)
                changed = True
    return names


def _spine(fn):
    """[(statements executed unconditionally before it, Try)] for the try statements with handlers that lie on the unconditional
    spine of ``fn`` (top level, descending into ``with`` blocks and handler-less try/finally bodies)."""
    found, pre = [], []

    def walk(stmts):
        for s in stmts:
            if isinstance(s, ast.Try) and s.handlers:
                found.append((list(pre), s))
            elif isinstance(s, (ast.With, ast.AsyncWith)) or (isinstance(s, ast.Try) and not s.handlers):
                walk(s.body)
            pre.append(s)

    walk(fn.body)
    return found


def _restore_in(model, cls_qual, stmts, flows, depth=0):
    """(method, snapshot argument | None, call) when the statement list restores the flow before anything else can happen: its first
    compound / raise / return statement comes after a ``<flow>.set_state(x)`` / ``<flow>.revert()`` call; a ``self.helper(...)`` call
    is followed into the helper (arguments mapped onto its parameters).  A conditional restore is not a restore."""
    for st in stmts:
        if isinstance(st, ast.Expr) and isinstance(st.value, ast.Call):
            c = st.value
            f = c.func
            if isinstance(f, ast.Attribute) and f.attr in RESTORE_METHODS and norm(f.value) in flows:
                return f.attr, (c.args[0] if len(c.args) == 1 and not c.keywords else None) if f.attr == "set_state" else None, c
            callee = None
            if depth < 2 and isinstance(f, ast.Attribute) and isinstance(f.value, ast.Name) and f.value.id in ("self", "cls") and model.method(APP, cls_qual, f.attr) is not None:
                m, callee = model.method(APP, cls_qual, f.attr)
                decs = {norm(d) for d in callee.decorator_list}
                ps = [a.arg for a in callee.args.posonlyargs + callee.args.args][0 if "staticmethod" in decs else 1:]
                seeds = {"self.flow"}
            elif depth < 2 and isinstance(f, ast.Name):
                # a module function of app.py: `_undo(flow, snapshot)`
                r = model.resolve_name(model.module(APP), f)
                if r is not None and r[0].rel == APP and isinstance(r[1], ast.FunctionDef) and not r[1].decorator_list:
                    callee = r[1]
                    ps = [a.arg for a in callee.args.posonlyargs + callee.args.args]
                    seeds = set()
            if callee is not None:
                if any(isinstance(a, ast.Starred) for a in c.args) or any(k.arg is None for k in c.keywords) or len(c.args) > len(ps):
                    continue
                bound = dict(zip(ps, c.args))
                bound.update({k.arg: k.value for k in c.keywords})
                inner = _restore_in(model, cls_qual, callee.body, _closure(callee, seeds | {p for p, a in bound.items() if norm(a) in flows}), depth + 1)
                if inner is not None:
                    snap = inner[1]
                    if snap is not None:
                        snap = bound.get(snap.id) if isinstance(snap, ast.Name) and snap.id in bound and snap.id not in {k for k in _single_bindings(callee)} else None
                    return inner[0], snap, c
        if isinstance(st, (ast.Raise, ast.Return, ast.If, ast.For, ast.While, ast.Try, ast.With, ast.Match, ast.AsyncFor, ast.AsyncWith)):
            return None  # something else happens first (a conditional restore is not a restore)
    return None


def _is_mut_target(text: str) -> bool:
    """An attribute / item store on anything but the handler object itself (``self.flow.x`` is the flow) is taken for a mutation of the flow."""
    return "." in text and (not text.startswith("self.") or text.startswith("self.flow."))


def _local_types(frame):
    """Types the annotations of a function do not spell out: ``<flow>.request`` / ``<flow>.response`` of the edited (HTTP) flow - and
    un-annotated single-assignment locals bound to them - are http.Request / http.Response, so that their property setters are analysed
    whether or not the code keeps them in annotated locals.  (Flows other than HTTPFlow are outside the property, see NOT decided.)"""
    fn = frame.fn
    flows = _closure(fn, {"self.flow"} | {n for n, (_, c) in frame.types.items() if c.name in ("Flow", "HTTPFlow")})
    out = {}
    for f in flows:
        out[f + ".request"] = (HTTP, "Request")
        out[f + ".response"] = (HTTP, "Response")
    for k, (v, _) in _single_bindings(fn).items():
        if norm(v) in out:
            out[k] = out[norm(v)]
    return out


def _table_strings(model, mod, name: str):
    """values a module-level table denotes, when it is a literal / comprehension over literals that pyint evaluates to a mapping or
    collection of strings: (keys-or-elements, values | None)"""
    from ..pyint import Interp

    if len(mod.assigns(name)) != 1:
        return None
    try:
        v = Interp(model).modconst(mod, name, 0)
    except Exception:  # noqa: BLE001 - not a constant table
        return None
    if isinstance(v, dict) and v and all(isinstance(k, str) for k in v):
        return list(v), list(v.values())
    if isinstance(v, (list, tuple, set, frozenset)) and v and all(isinstance(k, str) for k in v):
        return sorted(v), None
    return None


def _attr_names(model, mod, fn, node, e, depth=0):
    """The finite set of strings the expression ``e`` can denote when ``node`` (inside ``fn``) is evaluated, or None when it is not bounded:
    a constant; a name guarded by ``k in (<constants>)`` / ``k in TABLE`` / ``k == c`` / a match arm; a local bound once to
    ``TABLE[x]`` / ``TABLE.get(x)`` (module-level table of strings; the ``None`` default excluded by an ``is not None`` / truth guard);
    a parameter of a private function of the module: the union over every call site (the function must not escape as a value)."""
    if isinstance(e, ast.Constant):
        return [e.value] if isinstance(e.value, str) else None
    if not isinstance(e, ast.Name) or depth > 3:
        return None
    got = bounded_strings(node, fn, e.id, mod)
    if got is None:
        for g, val in guards_at(node, fn):  # `k in TABLE` where TABLE is computed (frozenset({...}), dict comprehension ...)
            if val and isinstance(g, ast.Compare) and len(g.ops) == 1 and isinstance(g.ops[0], ast.In) and norm(g.left) == e.id and isinstance(g.comparators[0], ast.Name) \
                    and not any(isinstance(n, ast.Name) and n.id == g.comparators[0].id and isinstance(n.ctx, ast.Store) for n in _own_nodes(fn)):
                tv = _table_strings(model, mod, g.comparators[0].id)
                if tv is not None:
                    got = tv[0]
    if got is not None:
        return got if all(isinstance(x, str) for x in got) else None
    a = fn.args
    params = [x.arg for x in a.posonlyargs + a.args + a.kwonlyargs]
    stores = [n for n in _own_nodes(fn) if isinstance(n, ast.Name) and n.id == e.id and isinstance(n.ctx, (ast.Store, ast.Del))]
    if e.id in params:
        if stores or a.vararg is not None or a.kwarg is not None:
            return None
        return _param_strings(model, mod, fn, e.id, depth)
    if len(stores) != 1:
        return None
    bind = getattr(stores[0], "_parent", None)
    val = bind.value if isinstance(bind, (ast.NamedExpr, ast.Assign, ast.AnnAssign)) and getattr(bind, "value", None) is not None and \
        (bind.target if not isinstance(bind, ast.Assign) else bind.targets[0]) is stores[0] and (not isinstance(bind, ast.Assign) or len(bind.targets) == 1) else None
    if val is None:
        return None
    tbl, maybe_none = None, False
    if isinstance(val, ast.Subscript) and isinstance(val.value, ast.Name):
        tbl = val.value.id
    elif isinstance(val, ast.Call) and isinstance(val.func, ast.Attribute) and val.func.attr == "get" and isinstance(val.func.value, ast.Name) and not val.keywords and len(val.args) in (1, 2):
        tbl = val.func.value.id
        default = val.args[1] if len(val.args) == 2 else ast.Constant(value=None)
        if not isinstance(default, ast.Constant) or (default.value is not None and not isinstance(default.value, str)):
            return None
        maybe_none = default.value is None
        extra = [] if default.value is None else [default.value]
    else:
        return _attr_names(model, mod, fn, bind, val, depth + 1) if isinstance(val, (ast.Name, ast.Constant)) else None
    if any(isinstance(n, ast.Name) and n.id == tbl and isinstance(n.ctx, ast.Store) for n in _own_nodes(fn)) or tbl in params:
        return None
    tv = _table_strings(model, mod, tbl)
    if tv is None or tv[1] is None or not all(isinstance(x, str) for x in tv[1]):
        return None
    names = list(tv[1]) + (extra if isinstance(val, ast.Call) else [])
    if maybe_none:
        # the None default must be excluded where the name is used: `if (k := T.get(x)) is not None`, `if k is not None`, `if k:`
        def excludes_none(g):
            if isinstance(g, ast.Compare) and len(g.ops) == 1 and isinstance(g.ops[0], ast.IsNot) and isinstance(g.comparators[0], ast.Constant) and g.comparators[0].value is None:
                g = g.left
            elif not isinstance(g, (ast.Name, ast.NamedExpr)):
                return False
            return (isinstance(g, ast.Name) and g.id == e.id) or (isinstance(g, ast.NamedExpr) and g.target.id == e.id)

        if not any(val_ and excludes_none(g) for g, val_ in guards_at(node, fn)):
            return None
    return names


def _param_strings(model, mod, fn, pname: str, depth):
    parent = getattr(fn, "_parent", None)
    if not fn.name.startswith("_") or fn.name.startswith("__") or fn.decorator_list and any(norm(d) not in ("staticmethod", "classmethod") for d in fn.decorator_list):
        return None
    if not isinstance(parent, (ast.Module, ast.ClassDef)):
        return None
    if [m for m in modules_mentioning(model, fn.name) if m.rel != mod.rel]:
        return None  # the private name occurs in another module: its callers are not all known
    a = fn.args
    pos = [x.arg for x in a.posonlyargs + a.args]
    method = isinstance(parent, ast.ClassDef) and "staticmethod" not in {norm(d) for d in fn.decorator_list}
    out: list = []
    sites = 0
    for n in ast.walk(mod.tree):
        ref = (isinstance(n, ast.Name) and n.id == fn.name and isinstance(n.ctx, ast.Load)) or (isinstance(n, ast.Attribute) and n.attr == fn.name)
        if not ref:
            continue
        call = getattr(n, "_parent", None)
        if not (isinstance(call, ast.Call) and call.func is n):
            return None  # the function is used as a value (stored, passed on): callers unknown
        if any(isinstance(x, ast.Starred) for x in call.args) or any(k.arg is None for k in call.keywords):
            return None
        arg = next((k.value for k in call.keywords if k.arg == pname), None)
        if arg is None and pname in pos:
            i = pos.index(pname) - (1 if method and isinstance(n, ast.Attribute) and not (isinstance(n.value, ast.Name) and n.value.id == getattr(parent, "name", None)) else 0)
            arg = call.args[i] if 0 <= i < len(call.args) else None
        if arg is None:
            d = dict(zip(pos[len(pos) - len(a.defaults):], a.defaults))
            d.update({k.arg: v for k, v in zip(a.kwonlyargs, a.kw_defaults) if v is not None})
            arg = d.get(pname)
        site_fn = enclosing_func(call)
        if arg is None or site_fn is None:
            return None
        got = _attr_names(model, mod, site_fn, call, arg, depth + 1)
        if got is None:
            return None
        out.extend(x for x in got if x not in out)
        sites += 1
    return out if sites else None


def _setattr_by_table(frame, call):
    """Config.dynamic hook of the may-raise engine: ``setattr(<typed object>, NAME, v)`` whose NAME the engine's own guard matching does
    not bound but which ranges over a finite set of strings (see _attr_names) is analysed as the property stores ``obj.<name> = v``
    for every such name - what the engine does for ``if k in [..]: setattr(obj, k, v)``."""
    f = call.func
    if not (isinstance(f, ast.Name) and f.id == "setattr" and len(call.args) == 3 and not call.keywords) or frame._is_local("setattr"):
        return None
    obj, k, _ = call.args
    typed = (isinstance(obj, ast.Name) and obj.id in frame.types) or (isinstance(obj, ast.Attribute) and attr_chain(obj) in frame.types)
    if not typed:
        return None
    if isinstance(k, ast.Name) and bounded_strings(call, frame.fn, k.id, frame.mod) is not None:
        return None  # the engine bounds it itself
    names = _attr_names(frame.eng.model, frame.mod, frame.fn, call, k)
    if names is None:
        return None  # the engine refuses (unbounded attribute name)
    pos = frame.arg_kinds(call)[0]
    for n in names:
        frame.property_access(ast.Attribute(value=obj, attr=n, ctx=ast.Store()), store=True, value_kind=pos[2])
    return ("raises", (), None)


class _Guard:
    """A try statement with handlers that guards part of ``put``: written in put itself, or supplied by a @contextmanager generator of
    app.py whose ``yield`` lies in the body of the try statement (the with-body of put then runs *at* the yield, so the handlers of
    the generator answer the exceptions of the with-body exactly like the handlers of a try statement written in put)."""

    def __init__(self, pre, body, t, owner, flows, stmt, cm_pre=(), cm_body=(), cm_env=None):
        self.pre, self.body, self.t, self.owner, self.flows, self.stmt = pre, body, t, owner, flows, stmt
        self.cm_pre, self.cm_body, self.cm_env = list(cm_pre), list(cm_body), cm_env or {}


def _yield_stmts(stmts):
    """statements of the unconditional spine of ``stmts`` (descending into with / handler-less try) that are a bare yield"""
    out = []
    for s in stmts:
        if isinstance(s, (ast.Expr, ast.Assign, ast.AnnAssign)) and isinstance(getattr(s, "value", None), ast.Yield):
            out.append(s)
        elif isinstance(s, (ast.With, ast.AsyncWith)) or (isinstance(s, ast.Try) and not s.handlers):
            out.extend(_yield_stmts(s.body))
    return out


def _guards(fn, flows, resolver, tainted):
    """[_Guard] for the unconditional spine of ``fn`` (top level, descending into ``with`` blocks and handler-less try/finally bodies)."""
    found, pre = [], []

    def cm_guard(s, call):
        callee = resolver(call)
        if callee is None or not _is_cm(callee):
            return None
        ys = [n for n in _own_nodes(callee) if isinstance(n, (ast.Yield, ast.YieldFrom))]
        if len(ys) != 1 or not isinstance(ys[0], ast.Yield):
            raise AnalysisError(f"{callee.name}: a @contextmanager with {len(ys)} yield expressions is not modelled")
        for cpre, t in _spine(callee):
            y = _yield_stmts(t.body)
            if not y:
                continue
            a = callee.args
            decs = {norm(d) for d in callee.decorator_list}
            method = isinstance(getattr(callee, "_parent", None), ast.ClassDef) and "staticmethod" not in decs
            ps = [x.arg for x in a.posonlyargs + a.args][1 if method else 0:]
            if any(isinstance(x, ast.Starred) for x in call.args) or any(k.arg is None for k in call.keywords) or len(call.args) > len(ps):
                raise AnalysisError(f"{callee.name}: call shape `{norm(call)}` not modelled")
            bound = dict(zip(ps, call.args))
            bound.update({k.arg: k.value for k in call.keywords})
            cflows = _closure(callee, ({"self.flow"} if method else set()) | {p for p, x in bound.items() if norm(x) in flows})
            cenv = {p: "A" for p, x in bound.items() if tainted(x)}
            inner = [x for x in t.body if x is not y[0]]
            if any(y[0] is not x and y[0] in list(ast.walk(x)) for x in t.body):
                inner = list(t.body)  # the yield sits inside a nested with / try-finally of the try body: keep those statements as they are
            return _Guard(list(pre), s.body, t, callee, cflows, s, cm_pre=cpre, cm_body=inner, cm_env=cenv)
        return None

    def walk(stmts):
        for s in stmts:
            if isinstance(s, ast.Try) and s.handlers:
                found.append(_Guard(list(pre), s.body, s, fn, flows, s))
            elif isinstance(s, (ast.With, ast.AsyncWith)):
                for item in s.items:
                    g = cm_guard(s, item.context_expr) if isinstance(item.context_expr, ast.Call) else None
                    if g is not None:
                        found.append(g)
                walk(s.body)
            elif isinstance(s, ast.Try):
                walk(s.body)
            pre.append(s)

    walk(fn.body)
    return found


def check(ctx):
    ctx.rule("R47.1", "escape set of the edit (the statements of put guarded by the restoring try statement) is within the handlers that restore the flow")
    ctx.rule("R47.2", "every accepted edit is announced to the view (put interpreted on valid edit documents)")
    ctx.rule("R47.3", "every rejected edit leaves the flow exactly as it was at entry of put (put interpreted on invalid edit documents)")
    ctx.func(APP, QUAL)
    ctx.func(FLOW, "Flow.backup")
    ctx.func(FLOW, "Flow.revert")
    hier = ctx.guard(_escape_rule, ctx)
    ctx.guard(_atomic_rule, ctx, hier or ExcHierarchy(cached_model(ctx.model)))
    # ---- R47.4
    ctx.rule("R47.4", "the state put() restores from contains none of the flow's live objects (a snapshot, not an alias)")
    ctx.guard(_snapshot_rule, ctx)
    ctx.expect_instances("R47.4", 1)


def _escape_rule(ctx):
    fn = ctx.func(APP, QUAL)
    cls_qual = QUAL.rsplit(".", 1)[0]
    amod = ctx.model.module(APP)
    flows = _closure(fn, {"self.flow"})  # texts that denote the edited flow

    def resolver(call):
        # private helpers of the handler (self._x(...), FlowHandler._x(...)) and module functions of app.py are inlined
        f = call.func
        if isinstance(f, ast.Attribute) and isinstance(f.value, ast.Name) and f.value.id in ("self", "cls", cls_qual):
            r = ctx.model.method(APP, cls_qual, f.attr)
            return r[1] if r is not None and r[0].rel == APP else None
        if isinstance(f, ast.Name):
            r = ctx.model.resolve_name(amod, f)
            return r[1] if r is not None and r[0].rel == APP and isinstance(r[1], ast.FunctionDef) else None
        return None

    # untrusted data: the decoded JSON document (self.json) and every local computed from it anywhere in put (flow-insensitive)
    env = {"self.json": "A"}
    changed = True
    while changed:
        changed = False
        for n in _own_nodes(fn):
            tgts, val = ([n.target], n.value) if isinstance(n, (ast.AnnAssign, ast.NamedExpr, ast.AugAssign)) else (n.targets, n.value) if isinstance(n, ast.Assign) else ([], None)
            if val is None or not any(norm(x) in env for x in ast.walk(val) if isinstance(x, (ast.Name, ast.Attribute))):
                continue
            for tg in tgts:
                for x in ast.walk(tg):
                    if isinstance(x, ast.Name) and isinstance(x.ctx, ast.Store) and x.id not in env:
                        env[x.id] = "A"
                        changed = True

    def tainted(expr):
        return any(norm(x) in env for x in ast.walk(expr) if isinstance(x, (ast.Name, ast.Attribute)))

    guards = _guards(fn, flows, resolver, tainted)
    # the edit is guarded by the try statement that has a restoring handler (other try statements - e.g. around the view update - are not it)
    restoring = [g for g in guards if any(_restore_in(ctx.model, cls_qual, h.body, g.flows) is not None for h in g.t.handlers)]
    ctx.require(len(restoring) == 1 or (not restoring and len(guards) == 1),
                f"FlowHandler.put: expected exactly one try statement (in put, or of a @contextmanager put enters) with a restoring handler on the unconditional spine of put, found {len(restoring)} of {len(guards)}")
    g = (restoring or guards)[0]
    t, pre = g.t, g.pre
    oq = g.owner._qual

    cfg = Config(local_types=_local_types, dynamic=_setattr_by_table, externals={
        "zlib.compress": (("Exception",), "V"), "brotli.compress": (("Exception",), "V"), "zstd.compress": (("Exception",), "V"),
        "codecs.encode": (("LookupError", "ValueError", "TypeError"), "V"), "CachedDecode": ((), "V"),
    })
    ctx.trust("zlib/brotli/zstd compress and codecs.encode raise Exception subclasses only")
    mr = MayRaise(ctx, cfg)
    # in put the locals computed from self.json *before* the guarded statements are untrusted at its entry; inside them the engine propagates
    esc = mr.region(APP, QUAL, g.body, env)
    if g.cm_body:
        esc = esc | mr.region(APP, oq, g.cm_body, g.cm_env)
    key = mr.key_of_region(APP, QUAL, env)
    ctx.require(mr.sites >= 30 and len(mr.functions) >= 15, f"escape analysis collapsed: {mr.sites} sites, {sorted(mr.functions)}")
    ctx.require({"APIError", "ValueError", "TypeError", "AttributeError"} <= {e.exc for e in esc},
                f"modelled raisers of the edit vanished: {sorted({e.exc for e in esc})}")
    ctx.paths += mr.sites
    for f in mr.functions:
        ctx.functions.add(f)
    mod = mr.model.module(APP)
    hs = []
    for h in t.handlers:
        names = ["BaseException"] if h.type is None else [mr.h.canon(mod, e) for e in (h.type.elts if isinstance(h.type, ast.Tuple) else [h.type])]
        hs.append((h, names, _restore_in(ctx.model, cls_qual, h.body, g.flows)))
    bad = {}
    for e in sorted(esc, key=lambda e: (e.exc, e.rel, e.qual, e.text)):
        hit = next(((h, r) for h, names, r in hs if any(mr.h.isa(e.exc, n) for n in names)), None)
        if hit is None:
            bad.setdefault(e.exc, ("no handler of the edit catches it", e))
        elif hit[1] is None:
            bad.setdefault(e.exc, (f"the handler `except {norm(hit[0].type) if hit[0].type else ''}` does not restore the flow first", e))
    for typ, (why, e) in sorted(bad.items()):
        ctx.fail("R47.1", (APP, oq, t), f"{typ} leaves the edit loop without a revert",
                 f"{typ} raised at {e.site()} ({e.why}): {why}; earlier fields of the same edit stay applied; call chain: " + " -> ".join(mr.chain(key, e)),
                 chain=mr.chain(key, e))

    # mutations before the guarded statements are not covered by any handler: nothing raised there on untrusted data may leave put()
    # (statements after them run only when the whole edit was applied)
    def mutates(node, depth=0):
        for n in [node] + list(_own_nodes(node)):
            tg = n.targets if isinstance(n, (ast.Assign, ast.Delete)) else [n.target] if isinstance(n, (ast.AugAssign, ast.AnnAssign)) and getattr(n, "value", True) is not None else []
            for x in tg:
                for e in ast.walk(x):
                    if isinstance(e, (ast.Attribute, ast.Subscript)) and isinstance(e.ctx, (ast.Store, ast.Del)) and _is_mut_target(norm(e)):
                        return True
            if isinstance(n, ast.Call):
                if (isinstance(n.func, ast.Name) and n.func.id == "setattr") or (isinstance(n.func, ast.Attribute) and n.func.attr in MUTATORS):
                    return True
                callee = resolver(n) if depth < 3 else None
                if callee is not None and not _is_cm(callee) and any(mutates(s, depth + 1) for s in callee.body):
                    return True
        return False

    first = next((i for i, st in enumerate(pre) if mutates(st)), None)
    first_cm = 0 if first is not None else next((i for i, st in enumerate(g.cm_pre) if mutates(st)), None)
    if first is not None or first_cm is not None:
        outside = frozenset()
        at = pre[first] if first is not None else g.cm_pre[first_cm]
        if first is not None:
            outside |= mr.region(APP, QUAL, pre[first:], env)
        if first_cm is not None and g.cm_pre[first_cm:]:
            outside |= mr.region(APP, oq, g.cm_pre[first_cm:], g.cm_env)
        for e in sorted(outside, key=lambda e: (e.exc, e.rel, e.qual, e.text)):
            if e.exc not in bad:
                bad[e.exc] = ("raised outside the try statement", e)
                ctx.fail("R47.1", (APP, QUAL if first is not None else oq, at), f"{e.exc} leaves put() outside the restoring try statement",
                         f"`{norm(at)[:60]}` mutates the flow before the try statement is entered and {e.exc} raised at {e.site()} ({e.why}) is not answered by any "
                         "restoring handler: the part of the edit applied so far stays")
    if not bad:
        ctx.ok("R47.1", f"{mr.sites} raiser sites in {len(mr.functions)} functions; escape set {sorted({e.exc for e in esc})} all reach a restoring handler")
    ctx.sample({"rule": "R47.1", "escape_set": sorted({e.exc for e in esc}), "handlers": [(names, bool(r)) for _, names, r in hs],
                "guard": f"{oq}: try statement" + (f" entered through `with {norm(g.stmt.items[0].context_expr)}`" if g.owner is not fn else ""),
                "setters_analysed": sorted(f for f in mr.functions if "http.py" in f)})
    ctx.expect_instances("R47.1", 1)
    return mr.h


def _atomic_rule(ctx, hier):
    """R47.2 / R47.3 by interpretation: ``FlowHandler.put`` is run from its AST (pyint; helpers, tables, ``with`` over @contextmanager
    generators, Flow.backup / Flow.revert are interpreted too) on a small world of edit documents - every valid field, and one invalid
    part (unknown field, malformed port / status code / header list / trailer list, invalid host, a section that is no mapping) at
    every position of the request, the response and the document itself - against abstract HTTP flows (with / without an earlier
    backup, with / without trailers).  Decided: a rejected edit leaves the observable flow state (every request / response field,
    header and trailer fields, marked, comment, backup) exactly as it was at entry; an accepted edit announces the final flow to the
    view.  ``get_state`` / ``set_state`` of the abstract flow are a deep snapshot / its restore (R47.4 and C36/C40 decide the real ones)."""
    import copy as _copy

    from ..pyint import Interp
    from ..pyint import Raised
    from ..pyint import Rec

    model = cached_model(ctx.model)
    appmod = model.module(APP)
    stats = {"mut": 0}

    class Fields:
        """native stand-in of http.Headers: an ordered multi-dict edited in place"""

        def __init__(self, fields=()):
            self.fields = [tuple(f) for f in fields]

        def clear(self):
            stats["mut"] += 1
            self.fields.clear()

        def add(self, key, value):
            if not isinstance(key, (str, bytes)) or not isinstance(value, (str, bytes)):
                raise TypeError("header name / value must be str or bytes")
            stats["mut"] += 1
            self.fields.append((key, value))

        def insert(self, index, key, value):
            if not isinstance(key, (str, bytes)) or not isinstance(value, (str, bytes)):
                raise TypeError("header name / value must be str or bytes")
            stats["mut"] += 1
            self.fields.insert(index, (key, value))

        def __len__(self):
            return len(self.fields)

        def __iter__(self):
            return iter([k for k, _ in self.fields])

        def items(self, multi=False):
            return list(self.fields)

    MSG_ATTRS = {
        "request": {"method": str, "scheme": str, "host": str, "path": str, "http_version": str, "port": int, "text": (str, type(None)), "headers": Fields, "trailers": (Fields, type(None))},
        "response": {"reason": str, "http_version": str, "status_code": int, "text": (str, type(None)), "headers": Fields, "trailers": (Fields, type(None))},
    }

    FLOW_KEYS = ("id", "type", "version", "error", "client_conn", "server_conn", "intercepted", "is_replay", "marked", "metadata", "comment", "timestamp_created", "websocket")

    def msg_state(r):
        if r is None:
            return None
        return {k: (tuple(v.fields) if isinstance(v, Fields) else v) for k, v in r.__dict__.items() if not k.startswith("_")}

    def flow_state(flow):
        d = flow.__dict__
        # the keys of the real Flow.get_state / HTTPFlow.get_state (connections abstracted to plain mappings)
        return {"request": msg_state(d["request"]), "response": msg_state(d["response"]), **{k: _copy.deepcopy(d[k]) for k in FLOW_KEYS}, "backup": _copy.deepcopy(d["_backup"])}

    def load_state(flow, state):
        state = _copy.deepcopy(state)
        for owner in ("request", "response"):
            r, s = flow.__dict__[owner], state[owner]
            ctx.require((r is None) == (s is None), "R47.3 world: message presence differs between flow and state")
            for k, v in (s or {}).items():
                object.__setattr__(r, k, Fields(v) if isinstance(v, tuple) else v)
        for k in FLOW_KEYS:
            object.__setattr__(flow, k, state[k])
        object.__setattr__(flow, "_backup", state["backup"])

    class World(Interp):
        def exc_isa(self, name, handler, mod):
            if super().exc_isa(name, handler, mod):
                return True
            # repository exception classes below third-party bases (APIError < tornado.web.HTTPError < Exception)
            try:
                exc = hier.canon(mod, ast.Name(id=name, ctx=ast.Load())) if name.isidentifier() else name
            except AnalysisError:
                return False
            return hier.isa(exc, handler)

        def assign(self, target, value, env, mod, depth):
            if isinstance(target, ast.Attribute) and isinstance(target.value, ast.Name):
                base = self.ev(target.value, env, mod, depth)
                if isinstance(base, Rec) and base._name in MSG_ATTRS:
                    # the property setters of http.Request / http.Response, abstracted: type checks and the host (IDNA) check
                    want = MSG_ATTRS[base._name].get(target.attr)
                    if want is None:
                        raise AnalysisError(f"R47.3 world: write to {base._name}.{target.attr} is not modelled")
                    if not isinstance(value, want) or isinstance(value, bool):
                        raise Raised("TypeError" if target.attr in ("headers", "trailers", "text") else "ValueError", f"{base._name}.{target.attr} = {value!r}")
                    if target.attr == "host" and (".." in value or " " in value or not value):
                        raise Raised("ValueError", "invalid host (idna)")
                    stats["mut"] += 1
                    object.__setattr__(base, target.attr, value)
                    self.writes.append((base._name, "attr", target.attr, value))
                    return
                if isinstance(base, Rec) and base._name == "flow":
                    stats["mut"] += 1
            return super().assign(target, value, env, mod, depth)

    OLD_H, NEW_H = (("host", "example.org"), ("x-old", "1")), [["x-new", "1"], ["x-new", "2"]]

    def make(prior_backup: bool, trailers: bool):
        def message(name, **attrs):
            return Rec(name.capitalize(), _name=name, headers=Fields(OLD_H), trailers=Fields((("old-trailer", "t"),)) if trailers else None, text="old body",
                       http_version="HTTP/1.1", **attrs)

        req = message("request", method="GET", scheme="http", host="example.org", port=80, path="/old")
        resp = message("response", status_code=200, reason="OK")
        flow = Rec("HTTPFlow", _bases=("Flow",), _impl=(HTTP, "HTTPFlow"), _name="flow", id="flow-id", type="http", request=req, response=resp, marked=":old:",
                   comment="old comment", metadata={"k": ["v"]}, intercepted=True, live=False, error=None, websocket=None, version=21, is_replay=None, timestamp_created=1.5,
                   client_conn={"id": "client", "peername": ["127.0.0.1", 51234]}, server_conn={"id": "server", "address": ["example.org", 80]}, _backup=None)
        if prior_backup:
            older = flow_state(flow)
            older.update(marked="", comment="before an earlier edit")
            older["request"]["method"] = "HEAD"
            object.__setattr__(flow, "_backup", older)
        object.__setattr__(flow, "get_state", lambda: flow_state(flow))
        object.__setattr__(flow, "set_state", lambda state: load_state(flow, state))
        updates = []

        def update(flows):
            updates.append(([f is flow for f in flows], flow_state(flow)))

        update._pyint_accepts_abstract = True
        view = Rec("View", _name="view", update=update)
        return flow, view, updates

    # ---- the edit documents
    REQ = [("method", "POST"), ("scheme", "https"), ("host", "example.net"), ("path", "/new"), ("http_version", "HTTP/2.0"), ("port", 8080), ("headers", NEW_H),
           ("trailers", [["new-trailer", "1"]]), ("content", "new body")]
    REQ_BAD = [("bogus", 1), ("port", "abc"), ("headers", [["only-a-name"]]), ("trailers", [["a", "b", "c"]]), ("host", "bad..host")]
    RESP = [("reason", "Not Found"), ("http_version", "HTTP/1.0"), ("code", "404"), ("headers", NEW_H), ("trailers", [["new-trailer", "1"]]), ("content", "new body")]
    RESP_BAD = [("bogus", 1), ("code", "abc"), ("headers", [["only-a-name"]]), ("trailers", [[1, 2]])]
    TOP = [("marked", ":new:"), ("request", dict(REQ)), ("response", dict(RESP)), ("comment", "new comment")]

    def with_bad(valid, bad, pos):
        rest = [(k, v) for k, v in valid if k != bad[0]]
        return rest[:pos] + [bad] + rest[pos:]

    docs = [("every valid field", TOP, True)] + [(f"only {k}", [(k, v)], True) for k, v in TOP]
    for section, valid, bads in (("request", REQ, REQ_BAD), ("response", RESP, RESP_BAD)):
        for bad in bads:
            for pos in range(len(valid) + 1):
                fields = with_bad(valid, bad, pos)
                if pos > len(fields) - 1:
                    continue
                docs.append((f"{section}.{bad[0]} = {bad[1]!r} as field {pos + 1} of {len(fields)}", [("marked", ":new:"), (section, dict(fields)), ("comment", "new comment")], False))
    for bad in (("bogus", 1), ("request", 5), ("response", [1])):
        for pos in range(len(TOP) + 1):
            fields = with_bad(TOP, bad, pos)
            if pos <= len(fields) - 1:
                docs.append((f"{bad[0]} = {bad[1]!r} as part {pos + 1} of {len(fields)}", fields, False))
    worlds = [(True, False), (False, True)] if ctx.tier == "quick" else [(True, False), (False, True), (True, True), (False, False)]

    it = World(model, externals={"mitmproxy.http.Headers": Fields, "http.Headers": Fields, "Headers": Fields})
    it.overrides[(HTTP, "Headers")] = Fields
    runs = rejected = accepted = dirty = 0
    kept: dict = {}  # what stayed of a rejected edit -> example
    silent: dict = {}
    for prior, trailers in worlds:
        for title, fields, valid in docs:
            flow, view, updates = make(prior, trailers)
            handler = Rec("FlowHandler", _impl=(APP, "FlowHandler"), _name="handler", json=_copy.deepcopy(dict(fields)), flow=flow, view=view)
            entry = flow_state(flow)
            it.steps = 0
            del it.writes[:]
            stats["mut"] = 0
            case = f"{title} ({'an earlier backup exists' if prior else 'no earlier backup'}, {'with' if trailers else 'without'} trailers)"
            try:
                it.method(handler, "put", "flow-id")
                failed = None
            except Raised as r:
                failed = r.name
            runs += 1
            ctx.cells += 1
            after = flow_state(flow)
            if valid:
                ctx.require(failed is None, f"R47.2 world: the valid edit `{title}` is rejected with {failed}: the abstract flow does not match put()")
                ctx.require(after != entry, f"R47.2 world: the valid edit `{title}` changes nothing")
                accepted += 1
                if not updates or not all(updates[-1][0]) or not updates[-1][0] or updates[-1][1] != after:
                    silent.setdefault("no view.update([flow])" if not updates else "view.update before the edit is complete / without the flow", case)
            else:
                ctx.require(failed is not None, f"R47.3 world: the invalid edit `{title}` is accepted: the abstract flow does not match put()")
                rejected += 1
                dirty += stats["mut"] > 0
                if after != entry:
                    diff = sorted(f"{k}.{kk}" for k in ("request", "response") for kk in (entry[k] or {}) if (after[k] or {}).get(kk) != entry[k][kk]) \
                        + sorted(k for k in entry if k not in ("request", "response") and after[k] != entry[k])
                    kept.setdefault(", ".join(diff), (case, failed))
    ctx.require(rejected >= 80 and accepted >= 5 and dirty * 2 >= rejected, f"R47.3 world collapsed: {rejected} rejected / {accepted} accepted edits, {dirty} rejected after a mutation")
    fn = ctx.func(APP, QUAL)
    ctx.check(not kept, "R47.3", (APP, QUAL, fn), "a rejected edit leaves the flow exactly as it was at entry",
              "interpreting put() on invalid edit documents: " + "; ".join(f"`{what}` differ(s) from the state at entry after {case} was rejected with {exc}" for what, (case, exc) in sorted(kept.items())[:4])
              + " - the restore point is not the state at entry (taken after a mutation, an older backup, or a state evaluated at failure time)",
              desc=f"{rejected} rejected edit documents (one invalid part at every position) on {len(worlds)} abstract flows: state after == state at entry", kept=sorted(kept))
    ctx.check(not silent, "R47.2", (APP, QUAL, fn), "self.view.update([flow]) after every accepted edit",
              "an applied edit is not announced to the view: " + "; ".join(f"{what} for {case}" for what, case in sorted(silent.items())[:3]),
              desc=f"view.update([flow]) with the final state after all {accepted} accepted edits")
    ctx.bounds.append(f"R47.2/R47.3: {len(docs)} edit documents x {len(worlds)} abstract flows interpreted ({runs} runs of put)")


def _snapshot_rule(ctx):
    import copy as _copy
    import itertools

    from ..pyint import DictRec
    from ..pyint import Interp
    from ..pyint import Raised
    from ..pyint import Rec

    m = ctx.model
    for qual in ("HTTPFlow.get_state", "Message.get_state", "MessageData.get_state"):
        ctx.func(HTTP, qual)
    ctx.func(FLOW, "Flow.get_state")
    ctx.require(m.method(HTTP, "Headers", "__len__") is not None and m.method(HTTP, "Headers", "__bool__") is None,
                "Headers truthiness is no longer given by __len__ (sized container without __bool__): the abstract Headers record of R47.4 does not apply")
    for fields in ((), ((b"x-a", b"1"), (b"X-A", b"2"))):  # truthiness of the abstract record == the interpreted __len__ != 0
        probe = Rec("Headers", _impl=(HTTP, "Headers"), fields=fields)
        try:
            n = Interp(m).method(probe, "__len__")
        except Raised as r:
            raise AnalysisError(f"R47.4: Headers.__len__ raises {r.name} on the abstract record")
        ctx.require(isinstance(n, int) and bool(n) == bool(fields), f"R47.4: Headers.__len__ is {n!r} for fields {fields!r}: 'falsy iff no fields' does not hold")

    class SizedRec(DictRec):
        def __len__(self):
            return len(self._items)

    def headers(name, fields):
        # a sized container: falsy when it has no fields (DictRec truthiness == has items)
        return SizedRec("Headers", items={i: f for i, f in enumerate(fields)}, _impl=(HTTP, "Headers"), _name=name, fields=tuple(fields))

    def public(rec):
        return {k: v for k, v in rec.__dict__.items() if not k.startswith("_")}

    H = {"empty": (), "non-empty": ((b"x-a", b"1"), (b"x-b", b"2"))}
    T = {"None": None, **H}
    cases = [(rh, rt, sh, st_) for rh, rt in itertools.product(H, T) for sh, st_ in itertools.product(H, T)] + [(rh, rt, None, None) for rh, rt in itertools.product(H, T)]
    aliased: dict = {}
    for rh, rt, sh, st_ in cases:
        live = {}

        def mk(owner, attr, kind):
            if kind == "None":
                return None
            live[f"{owner}.{attr}"] = headers(f"{owner}.{attr}", H[kind])
            return live[f"{owner}.{attr}"]

        def message(cls, dcls, owner, hk, tk, **extra):
            data = Rec(dcls, _impl=(HTTP, dcls), _name=f"{owner}.data", http_version=b"HTTP/1.1", headers=mk(owner, "headers", hk), content=b"body",
                       trailers=mk(owner, "trailers", tk), timestamp_start=1.0, timestamp_end=2.0, **extra)
            live[f"{owner}.data"] = data
            live[owner] = Rec(cls, _impl=(HTTP, cls), _name=owner, data=data)
            return live[owner]

        req = message("Request", "RequestData", "request", rh, rt, host="example.org", port=80, method=b"GET", scheme=b"http", authority=b"", path=b"/")
        resp = message("Response", "ResponseData", "response", sh, st_, status_code=200, reason=b"OK") if sh is not None else None

        def conn(name):
            return Rec("Connection", _name=name, get_state=lambda: {"id": name})

        flow = Rec("HTTPFlow", _impl=(HTTP, "HTTPFlow"), _name="flow", type="http", id="flow-id", error=None, client_conn=conn("client_conn"), server_conn=conn("server_conn"),
                   intercepted=False, is_replay=None, marked="", metadata={"k": ["v"]}, comment="", timestamp_created=0.5, _backup=None, request=req, response=resp, websocket=None)
        it = Interp(m, trusted_modules={"copy": _copy}, externals={"vars": public})
        try:
            state = it.method(flow, "get_state")
        except Raised as r:
            raise AnalysisError(f"R47.4: HTTPFlow.get_state raises {r.name} on the abstract flow ({r.msg})")
        ctx.cells += 1
        ctx.require(isinstance(state, dict) and isinstance(state.get("request"), dict), "R47.4: HTTPFlow.get_state no longer returns a mapping with a 'request' mapping")

        def walk(v, path, seen):
            if isinstance(v, Rec):
                yield path, v
                return
            if id(v) in seen:
                return
            if isinstance(v, dict):
                seen.add(id(v))
                for k, x in v.items():
                    yield from walk(x, f"{path}[{k!r}]", seen)
            elif isinstance(v, (list, tuple, set, frozenset)):
                seen.add(id(v))
                for i, x in enumerate(v):
                    yield from walk(x, f"{path}[{i}]", seen)

        for path, rec in walk(state, "state", set()):
            what = next((n for n, o in live.items() if o is rec), rec._name)
            case = f"request headers {rh} / trailers {rt}" + (f", response headers {sh} / trailers {st_}" if sh is not None else ", no response")
            aliased.setdefault((path, what), case)
    where = (HTTP, "MessageData.get_state", ctx.func(HTTP, "MessageData.get_state")) if aliased and all(p.startswith(("state['request']", "state['response']")) for p, _ in aliased) \
        else (HTTP, "HTTPFlow.get_state", ctx.func(HTTP, "HTTPFlow.get_state"))
    ctx.check(not aliased, "R47.4", where, "flow.get_state() shares no live object with the flow",
              "the state FlowHandler.put restores from on failure contains live objects of the flow: "
              + "; ".join(f"{p} is the live `{w}` object (e.g. {c})" for (p, w), c in sorted(aliased.items())[:4])
              + " - the rejected edit mutates it in place (clear()/add()/setters), so flow.set_state(old_state) keeps the rejected values while everything else is rolled back",
              desc=f"HTTPFlow.get_state interpreted on {len(cases)} header/trailer shapes: no live object in the snapshot", aliased=[f"{p} -> {w} ({c})" for (p, w), c in sorted(aliased.items())])
    ctx.bounds.append(f"R47.4: {len(cases)} abstract HTTP flows (headers empty/non-empty x trailers None/empty/non-empty, with and without response)")


H_OLD = "        except Exception:\n            flow.set_state(old_state)\n            raise\n        self.view.update([flow])"
MUTANTS = [
    # R47.1: reverse of the F-C47 fix and variants
    Mutant("reverse-fix-only-apierror-reverts", APP, H_OLD, H_OLD.replace("except Exception:", "except APIError:"), "R47.1"),
    Mutant("handler-list-misses-typeerror", APP, H_OLD, H_OLD.replace("except Exception:", "except (APIError, ValueError, AttributeError, UnicodeError):"), "R47.1"),
    Mutant("handler-reraises-before-restore", APP, H_OLD, H_OLD.replace("            flow.set_state(old_state)\n", ""), "R47.1"),
    Mutant("restore-only-for-api-errors-inside-handler", APP, H_OLD,
           "        except Exception as e:\n            if isinstance(e, APIError):\n                flow.set_state(old_state)\n            raise\n        self.view.update([flow])", "R47.1"),
    # R47.3: reverse of the F-C47b fix and variants
    Mutant("reverse-fix-revert-to-oldest-backup", APP, H_OLD, H_OLD.replace("flow.set_state(old_state)", "flow.revert()"), "R47.3"),
    Mutant("snapshot-is-the-old-backup", APP, "        old_state = flow.get_state()\n", "        old_state = flow._backup or flow.get_state()\n", "R47.3"),
    # R47.2
    Mutant("snapshot-after-a-mutation", APP, "        old_state = flow.get_state()\n", "        flow.marked = \"\"\n        old_state = flow.get_state()\n", "R47.3"),
    # seed C47a: fields applied before the snapshot is taken (through an alias of the edit document)
    Mutant("annotations-applied-before-snapshot", APP, "        old_state = flow.get_state()\n        flow.backup()\n        try:\n            for a, b in self.json.items():",
           "        update: dict = self.json\n        if \"comment\" in update:\n            flow.comment = update.pop(\"comment\")\n        old_state = flow.get_state()\n        flow.backup()\n        try:\n            for a, b in update.items():", "R47.3"),
    Mutant("headers-cleared-before-snapshot", APP, "        old_state = flow.get_state()\n", "        if \"headers\" in self.json.get(\"request\", {}):\n            self.flow.request.headers.clear()\n        old_state = flow.get_state()\n", "R47.3"),
    Mutant("view-not-updated", APP, "            raise\n        self.view.update([flow])\n\n\nclass DuplicateFlow", "            raise\n\n\nclass DuplicateFlow", "R47.2"),
    # generalised shapes: a field applied outside the restoring try statement; the handler restores a state taken at failure time
    Mutant("fields-applied-before-the-try", APP, "        flow.backup()\n        try:\n            for a, b in self.json.items():",
           "        flow.backup()\n        if \"marked\" in self.json:\n            flow.marked = self.json[\"marked\"]\n        if \"request\" in self.json and \"port\" in self.json[\"request\"]:\n"
           "            flow.request.port = int(self.json[\"request\"].pop(\"port\"))\n        try:\n            for a, b in self.json.items():", "R47.1"),
    Mutant("restores-state-taken-at-failure", APP, H_OLD, H_OLD.replace("flow.set_state(old_state)", "flow.set_state(flow.get_state())"), "R47.3"),
    # R47.4 - seed C47b and other ways of leaving a live object in the snapshot
    Mutant("snapshot-keeps-empty-trailers-object", HTTP, "        if state[\"trailers\"] is not None:\n            state[\"trailers\"] = state[\"trailers\"].get_state()", "        if state[\"trailers\"]:\n            state[\"trailers\"] = state[\"trailers\"].get_state()", "R47.4"),
    Mutant("snapshot-keeps-headers-object", HTTP, "        state[\"headers\"] = state[\"headers\"].get_state()\n        if state[\"trailers\"] is not None:", "        if state[\"trailers\"] is not None:", "R47.4"),
    Mutant("snapshot-converts-only-non-empty-headers", HTTP, "        state[\"headers\"] = state[\"headers\"].get_state()\n        if state[\"trailers\"] is not None:", "        if len(state[\"headers\"]):\n            state[\"headers\"] = state[\"headers\"].get_state()\n        if state[\"trailers\"] is not None:", "R47.4"),
    Mutant("flow-snapshot-holds-the-response-object", HTTP, "            \"response\": self.response.get_state() if self.response else None,", "            \"response\": self.response,", "R47.4"),
]
