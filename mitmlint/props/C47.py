"""C47 - flow edits through mitmweb are atomic (FlowHandler.put).

Decided (structural clauses, nothing executed):
  R47.1 (E5) every exception that can be raised inside the edit loop of ``FlowHandler.put`` on an untrusted JSON document (explicit
        APIError, int(v) -> ValueError/TypeError/OverflowError, add(*header) -> TypeError, .items()/iteration on a non-dict/non-list,
        and everything raised by the Request/Response property setters the loop triggers: idna/ascii encoding, type checks, content
        encoders) reaches a handler that restores the flow before anything else happens.  Exceptions of the once-evaluated loop
        iterable (``self.json``: malformed JSON) happen before any mutation and are exempt.
  R47.2 the restore point is taken before the first mutation on every path, and every normally completing path notifies the view
        (``self.view.update([flow])``).
  R47.3 the state restored by the failure handler is the state at entry of ``put``: either a local snapshot
        ``X = flow.get_state()`` restored with ``flow.set_state(X)``, or ``backup()``/``revert()`` with an unconditional backup.
  R47.4 (E3, pyint) the restore point is a *snapshot*: ``HTTPFlow.get_state`` (with ``Flow.get_state``, ``Message.get_state``,
        ``MessageData.get_state``, ``MultiDict.get_state``) is interpreted from its AST on an abstract flow for every combination of
        request/response headers {empty, non-empty} x trailers {None, empty, non-empty} x response {present, absent}; the returned state
        must not contain (at any depth) one of the live objects of the flow - in particular none of the four ``Headers`` objects the edit
        loop mutates in place (``.clear()``/``.add()``, and the ``text``/``content`` setters).  A live object inside the snapshot is edited
        together with the flow, so ``set_state(old_state)`` "restores" the rejected edit - clause "leaves the flow exactly as it was".
        Truthiness of a Headers object is modelled as "has fields" (checked: no ``__bool__`` in the MRO and the interpreted ``__len__`` is 0
        exactly for an object without fields).
The edit document is ``self.json`` or a local alias of it bound before the loop (R47.1/R47.2 follow the alias).
NOT decided: that set_state(get_state()) is the identity (C36/C40 territory); exceptions outside the modelled table; flows other than
HTTPFlow.
"""

from __future__ import annotations

import ast

from ..core import AnalysisError
from ..core import norm
from ..model import walk_in_order
from ..paths import GenericSpec
from ..paths import precedes
from ..paths import traces_of
from ..selftest import Mutant
from ._helpers_H import Config
from ._helpers_H import MayRaise

PROP = "C47"
REG = {
    "strength": "partial",
    "technique": "exception-escape sets vs. reverting handlers (E5, property setters resolved through annotated locals) + must-precede path facts "
    "+ AST interpretation of HTTPFlow.get_state on abstract flows (snapshot independence)",
    "claim": "every explicit raise and modelled implicit raiser of FlowHandler.put's edit loop (including the Request/Response property setters it "
    "drives) reaches a handler that restores the flow; the restore point is taken before the first mutation and is the state at entry; success "
    "paths update the view; the snapshot restored from contains none of the flow's live (in-place edited) objects for any headers/trailers shape.",
    "note": "Untrusted data: the decoded JSON body (any JSON type at every level). Codec libraries (zlib/brotli/zstd/codecs) are summarised as raising "
    "Exception subclasses only.",
}

APP = "mitmproxy/tools/web/app.py"
FLOW = "mitmproxy/flow.py"
HTTP = "mitmproxy/http.py"
QUAL = "FlowHandler.put"

RESTORE_CALLS = ("flow.revert", "flow.set_state")


def _restoring(handler: ast.ExceptHandler):
    """The restore call when the handler restores the flow as its first action, else None."""
    for st in handler.body:
        if isinstance(st, ast.Expr) and isinstance(st.value, ast.Call) and norm(st.value.func) in RESTORE_CALLS:
            return st.value
        if isinstance(st, (ast.Raise, ast.Return, ast.If, ast.For, ast.While, ast.Try, ast.With)):
            return None  # something else happens first (a conditional restore is not a restore)
    return None


def check(ctx):
    ctx.rule("R47.1", "escape set of the edit loop is within the handlers that restore the flow")
    ctx.rule("R47.2", "restore point taken before the first mutation; success paths call view.update")
    ctx.rule("R47.3", "the restore point used on failure is the state at entry of put")
    fn = ctx.func(APP, QUAL)
    ctx.func(FLOW, "Flow.backup")
    ctx.func(FLOW, "Flow.revert")
    tries = [s for s in fn.body if isinstance(s, ast.Try)]
    ctx.require(len(tries) == 1, "FlowHandler.put: expected exactly one top-level try around the edit loop")
    t = tries[0]
    loops = [s for s in t.body if isinstance(s, ast.For)]
    # the edit document: self.json, or a local bound exactly once (before the try) to self.json
    aliases = set()
    for st in fn.body[: fn.body.index(t)]:
        tgt = st.targets[0] if isinstance(st, ast.Assign) and len(st.targets) == 1 else st.target if isinstance(st, ast.AnnAssign) and st.value is not None else None
        if isinstance(tgt, ast.Name) and norm(st.value) == "self.json":
            stores = [n for n in walk_in_order(fn) if isinstance(n, ast.Name) and n.id == tgt.id and isinstance(n.ctx, (ast.Store, ast.Del))]
            if len(stores) == 1:
                aliases.add(tgt.id)
    it = loops[0].iter if len(loops) == 1 else None
    doc = it.func.value if isinstance(it, ast.Call) and isinstance(it.func, ast.Attribute) and it.func.attr == "items" and not it.args and not it.keywords else None
    ctx.require(len(loops) == 1 and len(t.body) == 1 and doc is not None and (norm(doc) == "self.json" or (isinstance(doc, ast.Name) and doc.id in aliases)),
                "FlowHandler.put: the edit loop over self.json.items() changed shape")
    loop = loops[0]
    ctx.require(isinstance(loop.target, ast.Tuple) and len(loop.target.elts) == 2, "edit loop target is not (key, value)")
    a, b = (norm(x) for x in loop.target.elts)

    # ---- R47.1
    cfg = Config(externals={
        "zlib.compress": (("Exception",), "V"), "brotli.compress": (("Exception",), "V"), "zstd.compress": (("Exception",), "V"),
        "codecs.encode": (("LookupError", "ValueError", "TypeError"), "V"), "CachedDecode": ((), "V"),
    })
    ctx.trust("zlib/brotli/zstd compress and codecs.encode raise Exception subclasses only")
    mr = MayRaise(ctx, cfg)
    env = {"self.json": "A", a: "A", b: "A", **{n: "A" for n in aliases}}
    esc = mr.region(APP, QUAL, loop.body + loop.orelse, env)
    key = mr.key_of_region(APP, QUAL, env)
    ctx.require(mr.sites >= 30 and len(mr.functions) >= 15, f"escape analysis collapsed: {mr.sites} sites, {sorted(mr.functions)}")
    ctx.require({"APIError", "ValueError", "TypeError", "AttributeError"} <= {e.exc for e in esc},
                f"modelled raisers of the edit loop vanished: {sorted({e.exc for e in esc})}")
    ctx.paths += mr.sites
    for f in mr.functions:
        ctx.functions.add(f)
    mod = mr.model.module(APP)
    hs = []
    for h in t.handlers:
        names = ["BaseException"] if h.type is None else [mr.h.canon(mod, e) for e in (h.type.elts if isinstance(h.type, ast.Tuple) else [h.type])]
        hs.append((h, names, _restoring(h)))
    bad = {}
    for e in sorted(esc, key=lambda e: (e.exc, e.rel, e.qual, e.text)):
        hit = next(((h, r) for h, names, r in hs if any(mr.h.isa(e.exc, n) for n in names)), None)
        if hit is None:
            bad.setdefault(e.exc, ("no handler of the edit loop catches it", e))
        elif hit[1] is None:
            bad.setdefault(e.exc, (f"the handler `except {norm(hit[0].type) if hit[0].type else ''}` does not restore the flow first", e))
    for typ, (why, e) in sorted(bad.items()):
        ctx.fail("R47.1", (APP, QUAL, t), f"{typ} leaves the edit loop without a revert",
                 f"{typ} raised at {e.site()} ({e.why}): {why}; earlier fields of the same edit stay applied; call chain: " + " -> ".join(mr.chain(key, e)),
                 chain=mr.chain(key, e))
    if not bad:
        ctx.ok("R47.1", f"{mr.sites} raiser sites in {len(mr.functions)} functions; escape set {sorted({e.exc for e in esc})} all reach a restoring handler")
    ctx.sample({"rule": "R47.1", "escape_set": sorted({e.exc for e in esc}), "handlers": [(names, bool(r)) for _, names, r in hs],
                "setters_analysed": sorted(f for f in mr.functions if "http.py" in f)})
    ctx.expect_instances("R47.1", 1)

    # ---- R47.3 (which restore point) and R47.2 (when it is taken)
    restores = [r for _, _, r in hs if r is not None]
    ctx.require(restores, "no handler of the edit loop restores the flow (R47.1 reports it); restore point unknown") if not bad else None
    pre = fn.body[: fn.body.index(t)]
    point = None  # text of the call that takes the restore point
    for r in restores:
        what = norm(r.func)
        if what == "flow.set_state":
            ctx.require(len(r.args) == 1 and isinstance(r.args[0], ast.Name), f"unmodelled restore {norm(r)}")
            snap = r.args[0].id
            defs = [s for s in pre if isinstance(s, ast.Assign) and any(isinstance(x, ast.Name) and x.id == snap for x in s.targets)]
            writes = [n for n in walk_in_order(fn) if isinstance(n, ast.Name) and n.id == snap and isinstance(n.ctx, ast.Store)]
            ok = len(defs) == 1 and len(writes) == 1 and norm(defs[0].value) == "flow.get_state()"
            ctx.check(ok, "R47.3", (APP, QUAL, r), f"{norm(r)} restores a snapshot taken at entry",
                      f"`{snap}` is not an unconditional top-level `flow.get_state()` snapshot taken before the edit loop", desc=f"snapshot {snap} = flow.get_state() restored on failure")
            point = "flow.get_state"
        else:
            bk = ctx.func(FLOW, "Flow.backup")
            stores = [s for s in walk_in_order(bk) if isinstance(s, ast.Assign) and any(norm(x) == "self._backup" for x in s.targets)]
            uncond = any(s._parent is bk for s in stores)
            ctx.check(uncond, "R47.3", (APP, QUAL, r), "flow.revert() restores the oldest backup, not the state at entry",
                      "Flow.backup() keeps an existing backup (`if not self._backup`), so after an earlier successful edit a failing edit reverts to "
                      "the state before BOTH edits: the flow is not left exactly as it was", desc="backup() unconditional")
            point = "flow.backup"
    ctx.expect_instances("R47.3", 1) if restores else None

    if point is not None:
        def keep(ev):
            if ev[0] == "call":
                return ev[1] in (point, "self.view.update", "setattr") or ev[1].split(".")[-1] in ("clear", "add")
            return ev[0] == "assign" and "." in ev[1] and (ev[1].split(".")[0] in ("flow", "request", "response") or ev[1].startswith("self.flow."))

        traces, eng = traces_of(fn, GenericSpec(keep=keep, unroll=1))
        ctx.paths += len(traces)
        is_point = lambda ev: ev == ("call", point)  # noqa: E731
        is_mut = lambda ev: ev[0] == "assign" or (ev[0] == "call" and ev[1] not in (point, "self.view.update"))  # noqa: E731
        muts = sum(1 for tr, how, st in traces for ev in tr if is_mut(ev))
        ctx.require(muts >= 10, f"R47.2: mutation events vanished from the model ({muts})")
        early = []  # mutation events that happen before the restore point exists on some path
        for tr, how, st in traces:
            for ev in tr:
                if is_point(ev):
                    break
                if is_mut(ev) and ev not in early:
                    early.append(ev)
        ok = all(precedes(tr, is_point, is_mut) for tr, how, st in traces) and not early
        ctx.check(ok, "R47.2", (APP, QUAL, fn), f"{point}() precedes the first mutation",
                  "a path mutates the flow before the restore point is taken: " + ", ".join(sorted(f"{ev[0]} {ev[1]}" for ev in early)[:6])
                  + f" happen(s) before {point}(), so the state restored on failure already contains that part of the rejected edit",
                  desc=f"{point}() precedes every mutation on {len(traces)} paths")
        done = [tr for tr, how, st in traces if how == "return"]
        ok = bool(done) and all(any(ev == ("call", "self.view.update") for ev in tr) for tr in done)
        ctx.check(ok, "R47.2", (APP, QUAL, fn), "self.view.update([flow]) on every completing path", "an applied edit is not announced to the view",
                  desc=f"view.update on all {len(done)} completing paths")
        ctx.expect_instances("R47.2", 2)

    # ---- R47.4
    ctx.rule("R47.4", "the state put() restores from contains none of the flow's live objects (a snapshot, not an alias)")
    ctx.guard(_snapshot_rule, ctx)
    ctx.expect_instances("R47.4", 1)


def _snapshot_rule(ctx):
    import copy as _copy
    import itertools

    from ..pyint import DictRec
    from ..pyint import Interp
    from ..pyint import Raised
    from ..pyint import Rec

    m = ctx.model
    for qual in ("HTTPFlow.get_state", "Message.get_state", "MessageData.get_state"):
        ctx.func(HTTP, qual)
    ctx.func(FLOW, "Flow.get_state")
    ctx.require(m.method(HTTP, "Headers", "__len__") is not None and m.method(HTTP, "Headers", "__bool__") is None,
                "Headers truthiness is no longer given by __len__ (sized container without __bool__): the abstract Headers record of R47.4 does not apply")
    for fields in ((), ((b"x-a", b"1"), (b"X-A", b"2"))):  # truthiness of the abstract record == the interpreted __len__ != 0
        probe = Rec("Headers", _impl=(HTTP, "Headers"), fields=fields)
        try:
            n = Interp(m).method(probe, "__len__")
        except Raised as r:
            raise AnalysisError(f"R47.4: Headers.__len__ raises {r.name} on the abstract record")
        ctx.require(isinstance(n, int) and bool(n) == bool(fields), f"R47.4: Headers.__len__ is {n!r} for fields {fields!r}: 'falsy iff no fields' does not hold")

    class SizedRec(DictRec):
        def __len__(self):
            return len(self._items)

    def headers(name, fields):
        # a sized container: falsy when it has no fields (DictRec truthiness == has items)
        return SizedRec("Headers", items={i: f for i, f in enumerate(fields)}, _impl=(HTTP, "Headers"), _name=name, fields=tuple(fields))

    def public(rec):
        return {k: v for k, v in rec.__dict__.items() if not k.startswith("_")}

    H = {"empty": (), "non-empty": ((b"x-a", b"1"), (b"x-b", b"2"))}
    T = {"None": None, **H}
    cases = [(rh, rt, sh, st_) for rh, rt in itertools.product(H, T) for sh, st_ in itertools.product(H, T)] + [(rh, rt, None, None) for rh, rt in itertools.product(H, T)]
    aliased: dict = {}
    for rh, rt, sh, st_ in cases:
        live = {}

        def mk(owner, attr, kind):
            if kind == "None":
                return None
            live[f"{owner}.{attr}"] = headers(f"{owner}.{attr}", H[kind])
            return live[f"{owner}.{attr}"]

        def message(cls, dcls, owner, hk, tk, **extra):
            data = Rec(dcls, _impl=(HTTP, dcls), _name=f"{owner}.data", http_version=b"HTTP/1.1", headers=mk(owner, "headers", hk), content=b"body",
                       trailers=mk(owner, "trailers", tk), timestamp_start=1.0, timestamp_end=2.0, **extra)
            live[f"{owner}.data"] = data
            live[owner] = Rec(cls, _impl=(HTTP, cls), _name=owner, data=data)
            return live[owner]

        req = message("Request", "RequestData", "request", rh, rt, host="example.org", port=80, method=b"GET", scheme=b"http", authority=b"", path=b"/")
        resp = message("Response", "ResponseData", "response", sh, st_, status_code=200, reason=b"OK") if sh is not None else None

        def conn(name):
            return Rec("Connection", _name=name, get_state=lambda: {"id": name})

        flow = Rec("HTTPFlow", _impl=(HTTP, "HTTPFlow"), _name="flow", type="http", id="flow-id", error=None, client_conn=conn("client_conn"), server_conn=conn("server_conn"),
                   intercepted=False, is_replay=None, marked="", metadata={"k": ["v"]}, comment="", timestamp_created=0.5, _backup=None, request=req, response=resp, websocket=None)
        it = Interp(m, trusted_modules={"copy": _copy}, externals={"vars": public})
        try:
            state = it.method(flow, "get_state")
        except Raised as r:
            raise AnalysisError(f"R47.4: HTTPFlow.get_state raises {r.name} on the abstract flow ({r.msg})")
        ctx.cells += 1
        ctx.require(isinstance(state, dict) and isinstance(state.get("request"), dict), "R47.4: HTTPFlow.get_state no longer returns a mapping with a 'request' mapping")

        def walk(v, path, seen):
            if isinstance(v, Rec):
                yield path, v
                return
            if id(v) in seen:
                return
            if isinstance(v, dict):
                seen.add(id(v))
                for k, x in v.items():
                    yield from walk(x, f"{path}[{k!r}]", seen)
            elif isinstance(v, (list, tuple, set, frozenset)):
                seen.add(id(v))
                for i, x in enumerate(v):
                    yield from walk(x, f"{path}[{i}]", seen)

        for path, rec in walk(state, "state", set()):
            what = next((n for n, o in live.items() if o is rec), rec._name)
            case = f"request headers {rh} / trailers {rt}" + (f", response headers {sh} / trailers {st_}" if sh is not None else ", no response")
            aliased.setdefault((path, what), case)
    where = (HTTP, "MessageData.get_state", ctx.func(HTTP, "MessageData.get_state")) if aliased and all(p.startswith(("state['request']", "state['response']")) for p, _ in aliased) \
        else (HTTP, "HTTPFlow.get_state", ctx.func(HTTP, "HTTPFlow.get_state"))
    ctx.check(not aliased, "R47.4", where, "flow.get_state() shares no live object with the flow",
              "the state FlowHandler.put restores from on failure contains live objects of the flow: "
              + "; ".join(f"{p} is the live `{w}` object (e.g. {c})" for (p, w), c in sorted(aliased.items())[:4])
              + " - the rejected edit mutates it in place (clear()/add()/setters), so flow.set_state(old_state) keeps the rejected values while everything else is rolled back",
              desc=f"HTTPFlow.get_state interpreted on {len(cases)} header/trailer shapes: no live object in the snapshot", aliased=[f"{p} -> {w} ({c})" for (p, w), c in sorted(aliased.items())])
    ctx.bounds.append(f"R47.4: {len(cases)} abstract HTTP flows (headers empty/non-empty x trailers None/empty/non-empty, with and without response)")


H_OLD = "        except Exception:\n            flow.set_state(old_state)\n            raise\n        self.view.update([flow])"
MUTANTS = [
    # R47.1: reverse of the F-C47 fix and variants
    Mutant("reverse-fix-only-apierror-reverts", APP, H_OLD, H_OLD.replace("except Exception:", "except APIError:"), "R47.1"),
    Mutant("handler-list-misses-typeerror", APP, H_OLD, H_OLD.replace("except Exception:", "except (APIError, ValueError, AttributeError, UnicodeError):"), "R47.1"),
    Mutant("handler-reraises-before-restore", APP, H_OLD, H_OLD.replace("            flow.set_state(old_state)\n", ""), "R47.1"),
    Mutant("restore-only-for-api-errors-inside-handler", APP, H_OLD,
           "        except Exception as e:\n            if isinstance(e, APIError):\n                flow.set_state(old_state)\n            raise\n        self.view.update([flow])", "R47.1"),
    # R47.3: reverse of the F-C47b fix and variants
    Mutant("reverse-fix-revert-to-oldest-backup", APP, H_OLD, H_OLD.replace("flow.set_state(old_state)", "flow.revert()"), "R47.3"),
    Mutant("snapshot-is-the-old-backup", APP, "        old_state = flow.get_state()\n", "        old_state = flow._backup or flow.get_state()\n", "R47.3"),
    # R47.2
    Mutant("snapshot-after-a-mutation", APP, "        old_state = flow.get_state()\n", "        flow.marked = \"\"\n        old_state = flow.get_state()\n", "R47.2"),
    # seed C47a: fields applied before the snapshot is taken (through an alias of the edit document)
    Mutant("annotations-applied-before-snapshot", APP, "        old_state = flow.get_state()\n        flow.backup()\n        try:\n            for a, b in self.json.items():",
           "        update: dict = self.json\n        if \"comment\" in update:\n            flow.comment = update.pop(\"comment\")\n        old_state = flow.get_state()\n        flow.backup()\n        try:\n            for a, b in update.items():", "R47.2"),
    Mutant("headers-cleared-before-snapshot", APP, "        old_state = flow.get_state()\n", "        if \"headers\" in self.json.get(\"request\", {}):\n            self.flow.request.headers.clear()\n        old_state = flow.get_state()\n", "R47.2"),
    Mutant("view-not-updated", APP, "            raise\n        self.view.update([flow])\n\n\nclass DuplicateFlow", "            raise\n\n\nclass DuplicateFlow", "R47.2"),
    # R47.4 - seed C47b and other ways of leaving a live object in the snapshot
    Mutant("snapshot-keeps-empty-trailers-object", HTTP, "        if state[\"trailers\"] is not None:\n            state[\"trailers\"] = state[\"trailers\"].get_state()", "        if state[\"trailers\"]:\n            state[\"trailers\"] = state[\"trailers\"].get_state()", "R47.4"),
    Mutant("snapshot-keeps-headers-object", HTTP, "        state[\"headers\"] = state[\"headers\"].get_state()\n        if state[\"trailers\"] is not None:", "        if state[\"trailers\"] is not None:", "R47.4"),
    Mutant("snapshot-converts-only-non-empty-headers", HTTP, "        state[\"headers\"] = state[\"headers\"].get_state()\n        if state[\"trailers\"] is not None:", "        if len(state[\"headers\"]):\n            state[\"headers\"] = state[\"headers\"].get_state()\n        if state[\"trailers\"] is not None:", "R47.4"),
    Mutant("flow-snapshot-holds-the-response-object", HTTP, "            \"response\": self.response.get_state() if self.response else None,", "            \"response\": self.response,", "R47.4"),
]
