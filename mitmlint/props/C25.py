"""C25 - DNS wire codec: decoding is total (struct.error or a message), terminates, and agrees with the encoder's layout.

Decided (structural clauses, nothing executed):
  R25.1 termination of name decompression: on every path of ``unpack_from_with_compression`` the sentinel ``cache[offset] = None`` is
        stored before the recursive call and before ``offset`` is advanced, a cache hit on the sentinel raises, and every iteration
        of the label loops advances by at least one byte (``_unpack_label_into`` returns ``_LABEL_SIZE.size [+ size]``).
  R25.2 header layout agreement between ``DNSMessage.packed`` and ``DNSMessage.unpack_from``: for each of the 8 flag fields the
        (shift, width, polarity) agree, the fields tile the 16 bits exactly, range checks precede packing; the six header words, the
        question words and the resource-record words are packed and unpacked in the same order with the same ``struct`` constants
        (``!HHHHHH``, ``!HH``, ``!HHIH``); sections are written and read in the same order.
  R25.3 (E5) every exception that can leave ``DNSLayer.unpack_message`` / ``DNSMessage.unpack`` on untrusted bytes (explicit raises +
        modelled implicit raisers: struct, index, idna decode/encode, recursion depth) is handled by the handler around the call
        in ``DNSLayer.state_query`` (today: struct.error only).
  R25.4 (known-bits abstract interpretation of the encoder) every bit-field composition evaluated by ``DNSMessage.packed`` and the
        functions it reaches (nested helpers, ``domain_names.*``, methods) - ``a | b``, ``acc |= b``, and ``K + b`` with a
        constant K whose low byte is zero used as a struct field - is lossless: the masks of the bits each operand can set are
        pairwise disjoint.  A mask comes from a constant, from a range check / comparison guard dominating the use, from
        everything assigned to a local, passed for a parameter by the encoder's call sites, or stored into a local
        container the value is loaded from.  An operand that is a plain value (attribute, ``len(..)``, parameter, container
        element) with no bound anywhere on that chain is a violation: a large value spills into the neighbouring bits and
        ``struct`` does not complain, so the bytes decode to a different message or not at all (e.g. a compression pointer
        ``0xC000 | offset`` for a name first written at offset >= 0x4000; a flag field without its range check).
        Expression kinds the evaluator does not model -> ANALYSIS-ERROR.  Values are assumed non-negative.
NOT decided: value-level round-trip equality (encode . decode = id) over all messages - in particular whether an emitted
compression pointer refers to the offset where that very name was written, and truncation made explicit (``offset & 0x3FFF``).
"""

from __future__ import annotations

import ast

from ..core import AnalysisError
from ..core import norm
from ..model import walk_in_order
from ..paths import GenericSpec
from ..paths import traces_of
from ..selftest import Mutant
from ._helpers_H import Config
from ._helpers_H import guards_at
from ._helpers_H import MayRaise
from ._helpers_H import modules_mentioning

PROP = "C25"
REG = {
    "strength": "partial",
    "technique": "known-bits abstract interpretation of the encoder's `|` compositions + exception-escape sets vs. handler coverage (E5) + must-precede path facts (sentinel) + sibling layout tables (pack vs unpack)",
    "claim": "bit-field compositions in the encoder reachable from DNSMessage.packed have provably disjoint operand bit masks (range-checked "
    "fields, bounded offsets); every explicit raise and modelled implicit raiser reachable from DNSMessage.unpack on untrusted bytes is handled by DNSLayer.state_query; "
    "pointer loops hit a sentinel that is stored before recursing and recursion depth is bounded; the header bit layout, word order and struct "
    "formats of packed and unpack_from agree.",
    "note": "Index arithmetic is discharged only by the named guard facts printed in the evidence (caller checks len(buffer) >= end_data, callee loops "
    "while data_offset < end_data - offset); offsets are assumed non-negative.",
}

DNS = "mitmproxy/dns.py"
DN = "mitmproxy/net/dns/domain_names.py"
LAYER = "mitmproxy/proxy/layers/dns.py"


# ---------------------------------------------------------------------------------------------------
# R25.3


def _call_sites(model, fname):
    out = []
    for m in modules_mentioning(model, fname + "("):
        for n in walk_in_order(m.tree):
            if isinstance(n, ast.Call) and norm(n.func).split(".")[-1] == fname:
                out.append((m, n))
    return out


def _make_discharge(ctx):
    model = ctx.model

    def discharge(fr, exc, node, why):
        # buffer[offset + data_offset] in decompress_from_record_data: index < end_data <= len(buffer)
        if exc != "IndexError" or not isinstance(node, ast.Subscript) or not isinstance(node.value, ast.Name):
            return None
        idx = node.slice
        if not (isinstance(idx, ast.BinOp) and isinstance(idx.op, ast.Add)):
            return None
        fn = fr.fn
        params = [a.arg for a in fn.args.args]
        base = node.value.id
        if base not in params:
            return None
        x, y = norm(idx.left), norm(idx.right)
        bound = None
        for e, v in guards_at(node, fn):
            if v and isinstance(e, ast.Compare) and len(e.ops) == 1 and isinstance(e.ops[0], ast.Lt):
                r = e.comparators[0]
                if isinstance(r, ast.BinOp) and isinstance(r.op, ast.Sub) and isinstance(r.left, ast.Name) and r.left.id in params:
                    if (norm(e.left), norm(r.right)) in ((y, x), (x, y)):
                        bound = r.left.id
        if bound is None:
            return None
        sites = [(m, c) for m, c in _call_sites(model, fn.name) if c is not node]
        if not sites:
            return None
        for m, c in sites:
            args = {params[i]: a for i, a in enumerate(c.args) if i < len(params)}
            args.update({k.arg: k.value for k in c.keywords if k.arg})
            if base not in args or bound not in args:
                return None
            from ..model import enclosing_func

            ef = enclosing_func(c)
            want = f"len({norm(args[base])}) < {norm(args[bound])}"
            if ef is None or not any((not v) and norm(e) == want for e, v in guards_at(c, ef)):
                return None
        return (f"index {x} + {y} < {bound} by the loop guard, and every caller ({len(sites)}) established len({base}) >= {bound} "
                f"before the call; offsets are non-negative counters")

    return discharge


def _r25_3(ctx):
    fn = ctx.func(LAYER, "DNSLayer.state_query")
    for q in ("DNSMessage.unpack", "DNSMessage.unpack_from"):
        ctx.func(DNS, q)
    for q in ("unpack_from_with_compression", "_unpack_label_into", "decompress_from_record_data", "pack"):
        ctx.func(DN, q)
    ctx.func(LAYER, "DNSLayer.unpack_message")
    tries = [n for n in walk_in_order(fn) if isinstance(n, ast.Try) and any("self.unpack_message(" in norm(s) for s in n.body)]
    ctx.require(len(tries) == 1, "DNSLayer.state_query: the try around unpack_message changed shape")
    t = tries[0]
    call = [n for n in walk_in_order(t) if isinstance(n, ast.Call) and norm(n.func) == "self.unpack_message"]
    ctx.require(len(call) == 1 and norm(call[0].args[0]) == "event.data", "unpack_message is no longer fed event.data")
    mr = MayRaise(ctx, Config(discharge=_make_discharge(ctx)))
    env = {"event.data": "V"}
    esc = mr.region(LAYER, "DNSLayer.state_query", t.body, env)
    key = mr.key_of_region(LAYER, "DNSLayer.state_query", env)
    ctx.require(mr.sites >= 25 and len(mr.functions) >= 9, f"escape analysis collapsed: {mr.sites} raiser sites in {sorted(mr.functions)}")
    ctx.paths += mr.sites
    for f in mr.functions:
        ctx.functions.add(f)
    handled = []
    for h in t.handlers:
        ctx.require(h.type is not None, "bare except around unpack_message (not modelled)")
        handled += [mr.h.canon(mr.model.module(LAYER), e) for e in (h.type.elts if isinstance(h.type, ast.Tuple) else [h.type])]
    bad = sorted((e for e in esc if not any(mr.h.isa(e.exc, h) for h in handled)), key=lambda e: (e.exc, e.rel, e.qual, e.text))
    for typ in sorted({e.exc for e in bad}):
        first = next(e for e in bad if e.exc == typ)
        ctx.fail("R25.3", (LAYER, "DNSLayer.state_query", t), f"{typ} escapes DNSMessage.unpack",
                 f"{typ} raised at {first.site()} ({first.why}) is not handled (handled: {handled}); call chain: " + " -> ".join(mr.chain(key, first)),
                 chain=mr.chain(key, first), sites=[e.site() for e in bad if e.exc == typ][:8])
    if not bad:
        ctx.ok("R25.3", f"{mr.sites} raiser sites in {len(mr.functions)} functions; escape set {sorted({e.exc for e in esc})} within handled {handled}")
    for k, v in sorted(mr.discharged.items()):
        ctx.assume(f"discharged: {k}: {v}")
    ctx.sample({"rule": "R25.3", "handled": handled, "escape_set": sorted({e.exc for e in esc}), "discharged": dict(mr.discharged),
                "functions": sorted(mr.functions)})
    ctx.expect_instances("R25.3", 1)


# ---------------------------------------------------------------------------------------------------
# R25.1


def _r25_1(ctx):
    fn = ctx.func(DN, "unpack_from_with_compression")
    params = [a.arg for a in fn.args.args]
    off, cache = params[1], params[2]
    sentinel = f"{cache}[{off}]"

    def keep(ev):
        return (ev[0] == "call" and ev[1] == fn.name) or (ev[0] == "assign" and ev[1] in (sentinel, off)) or ev[0] == "cond"

    spec = GenericSpec(keep=keep, record_conds=True, unroll=2)
    traces, eng = traces_of(fn, spec)
    ctx.paths += len(traces)
    rec = 0
    bad = None
    for tr, how, st in traces:
        seen_store = False
        for ev in tr:
            if ev[0] == "assign" and ev[1] == sentinel:
                seen_store = True
            elif ev[0] == "assign" and ev[1] == off and not seen_store and any(e[0] == "call" for e in tr):
                bad = bad or f"`{off}` is advanced before the sentinel is stored on a path that recurses"
            elif ev[0] == "call":
                rec += 1
                if not seen_store:
                    bad = bad or "a path reaches the recursive call without having stored the sentinel"
    ctx.require(rec >= 1, "unpack_from_with_compression no longer recurses (shape not modelled)")
    # the stored value is None
    stores = [n for n in walk_in_order(fn) if isinstance(n, ast.Assign) and any(norm(t) == sentinel for t in n.targets)]
    none_store = [n for n in stores if isinstance(n.value, ast.Constant) and n.value.value is None]
    if not none_store:
        bad = bad or "no `cache[offset] = None` sentinel store"
    ctx.check(bad is None, "R25.1", (DN, fn.name, fn), f"{sentinel} = None before the recursive call", bad or "",
              desc=f"sentinel stored before recursing on all {len(traces)} paths ({rec} recursive-call events)")
    # a hit on the sentinel raises
    hit_ok, hits = True, 0
    for tr, how, st in traces:
        conds = {(e[1], e[2]) for e in tr if e[0] == "cond"}
        if (f"{off} in {cache}", True) in conds:
            res_none = [c for c in conds if c[0].endswith("is None") and c[1] is True]
            if res_none:
                hits += 1
                if not how.startswith("raise:"):
                    hit_ok = False
            if any(e[0] == "call" for e in tr):
                hit_ok = False  # a cached offset must never be unpacked again
    ctx.check(hit_ok and hits >= 1, "R25.1", (DN, fn.name, fn), "cache hit on the sentinel raises", "a pointer to an offset that is being unpacked does not raise: pointer loops recurse forever",
              desc=f"{hits} path(s) hitting the None sentinel all raise; cached offsets are never unpacked again")
    # progress of the label loops
    lab = ctx.func(DN, "_unpack_label_into")
    rets = [n.value for n in walk_in_order(lab) if isinstance(n, ast.Return)]
    ok = bool(rets) and all(r is not None and (norm(r) == "_LABEL_SIZE.size" or (isinstance(r, ast.BinOp) and isinstance(r.op, ast.Add) and "_LABEL_SIZE.size" in (norm(r.left), norm(r.right)))) for r in rets)
    fmt = ctx.model.const(DN, "_LABEL_SIZE")
    ok = ok and norm(fmt) in ("struct.Struct('!B')", 'struct.Struct("!B")')
    ctx.check(ok, "R25.1", (DN, lab.name, lab), "_unpack_label_into returns _LABEL_SIZE.size [+ size]", "a label may consume zero bytes: the label loops need not advance",
              desc="every label consumes >= 1 byte (unsigned size)")
    ctx.expect_instances("R25.1", 3)


# ---------------------------------------------------------------------------------------------------
# R25.2


def _int(e):
    try:
        v = ast.literal_eval(e)
    except Exception:
        return None
    return v if isinstance(v, int) and not isinstance(v, bool) else None


def _shift_of(e):
    """`1 << N` -> N"""
    if isinstance(e, ast.BinOp) and isinstance(e.op, ast.LShift) and _int(e.left) == 1:
        return _int(e.right)
    return None


def _unpack_field(e, var="flags"):
    """-> (shift, width, inverted) of a header field expression over ``flags``."""
    if isinstance(e, ast.Compare) and len(e.ops) == 1 and _int(e.comparators[0]) == 0:
        l = e.left
        if isinstance(l, ast.BinOp) and isinstance(l.op, ast.BitAnd) and norm(l.left) == var:
            n = _shift_of(l.right)
            if n is not None:
                return (n, 1, isinstance(e.ops[0], ast.Eq))
        return None
    if isinstance(e, ast.BinOp) and isinstance(e.op, ast.BitAnd):
        mask = _int(e.right)
        if mask is None or (mask & (mask + 1)) != 0:
            return None
        width = mask.bit_length()
        if norm(e.left) == var:
            return (0, width, False)
        l = e.left
        if isinstance(l, ast.BinOp) and isinstance(l.op, ast.RShift) and norm(l.left) == var and _int(l.right) is not None:
            return (_int(l.right), width, False)
    return None


def _r25_2(ctx):
    un, pk = ctx.func(DNS, "DNSMessage.unpack_from"), ctx.func(DNS, "DNSMessage.packed")
    ctor = [n for n in walk_in_order(un) if isinstance(n, ast.Call) and norm(n.func) == "DNSMessage"]
    ctx.require(len(ctor) == 1, "unpack_from: DNSMessage(...) construction changed shape")
    ufields = {}
    for kw in ctor[0].keywords:
        if "flags" in {x.id for x in ast.walk(kw.value) if isinstance(x, ast.Name)}:
            f = _unpack_field(kw.value)
            ctx.require(f is not None, f"unpack_from: unmodelled flag expression for {kw.arg}: {norm(kw.value)}")
            ufields[kw.arg] = f
    # pack side
    pfields, ranges, order = {}, {}, []
    for st in pk.body:
        if isinstance(st, ast.If) and isinstance(st.test, ast.BoolOp) and any(isinstance(x, ast.Raise) for x in st.body):
            # range check: self.X < 0 or self.X > MAX
            names = {n.attr for n in ast.walk(st.test) if isinstance(n, ast.Attribute) and norm(n.value) == "self"}
            mx = [_int(c.comparators[0]) for c in st.test.values if isinstance(c, ast.Compare) and isinstance(c.ops[0], ast.Gt)]
            mn = [_int(c.comparators[0]) for c in st.test.values if isinstance(c, ast.Compare) and isinstance(c.ops[0], ast.Lt)]
            if len(names) == 1 and len(mx) == 1 and mn == [0]:
                ranges[names.pop()] = (mx[0], st.lineno)
            continue
        target = st
        inverted = None
        if isinstance(st, ast.If) and len(st.body) == 1 and isinstance(st.body[0], ast.AugAssign) and not st.orelse:
            t = st.test
            inverted = isinstance(t, ast.UnaryOp) and isinstance(t.op, ast.Not)
            t = t.operand if inverted else t
            if isinstance(t, ast.Attribute) and norm(t.value) == "self":
                n = _shift_of(st.body[0].value)
                if norm(st.body[0].target) == "flags" and isinstance(st.body[0].op, ast.BitOr) and n is not None:
                    pfields[t.attr] = (n, 1, inverted)
                    order.append((t.attr, st.lineno))
                    continue
        if isinstance(target, ast.AugAssign) and norm(target.target) == "flags" and isinstance(target.op, ast.BitOr):
            v = target.value
            if isinstance(v, ast.Attribute) and norm(v.value) == "self":
                pfields[v.attr] = (0, None, False)
                order.append((v.attr, target.lineno))
            elif isinstance(v, ast.BinOp) and isinstance(v.op, ast.LShift) and isinstance(v.left, ast.Attribute) and norm(v.left.value) == "self" and _int(v.right) is not None:
                pfields[v.left.attr] = (_int(v.right), None, False)
                order.append((v.left.attr, target.lineno))
            else:
                raise AnalysisError(f"packed: unmodelled flags update {norm(target)}")
    bad = []
    for name, (sh, w, inv) in pfields.items():
        if w is None:
            if name not in ranges:
                bad.append(f"{name}: packed without a range check")
                continue
            mx, line = ranges[name]
            if (mx & (mx + 1)) != 0:
                bad.append(f"{name}: range maximum {mx} is not 2^k-1")
            w = mx.bit_length()
            if line > dict(order)[name]:
                bad.append(f"{name}: range check after packing")
            pfields[name] = (sh, w, inv)
    for name in sorted(set(ufields) | set(pfields)):
        ctx.cells += 1
        if ufields.get(name) != pfields.get(name):
            bad.append(f"{name}: unpacked as (shift,width,inverted)={ufields.get(name)} but packed as {pfields.get(name)}")
    bits = 0
    for name, (sh, w, inv) in ufields.items():
        m = ((1 << w) - 1) << sh
        if bits & m:
            bad.append(f"{name}: overlaps another field")
        bits |= m
    if bits != 0xFFFF:
        bad.append(f"flag fields cover {bits:#06x}, not the 16 header bits")
    ctx.check(not bad and len(ufields) == 8, "R25.2", (DNS, "DNSMessage.packed", pk), "flag bit layout packed vs unpack_from", "; ".join(bad),
              desc=f"8 flag fields agree and tile 16 bits: {sorted(ufields.items(), key=lambda kv: -kv[1][0])}", layout=ufields)

    # header words, question words, RR words: order + struct constants
    def struct_calls(fn, meth):
        return [n for n in walk_in_order(fn) if isinstance(n, ast.Call) and isinstance(n.func, ast.Attribute) and n.func.attr == meth and norm(n.func.value).endswith("HEADER")]

    packs = {norm(n.func.value): n for n in struct_calls(pk, "pack")}
    unpacks = {}
    for n in struct_calls(un, "unpack_from"):
        unpacks[norm(n.func.value)] = n
    want = {"DNSMessage.HEADER": "!HHHHHH", "Question.HEADER": "!HH", "ResourceRecord.HEADER": "!HHIH"}
    mr = MayRaise(ctx, Config())
    mod = ctx.model.module(DNS)
    fm = {k: mr.struct_format(mod, ast.parse(k, mode="eval").body) for k in want}
    bad = []
    if set(packs) != set(want) or set(unpacks) != set(want):
        bad.append(f"struct constants used: pack {sorted(packs)} unpack {sorted(unpacks)}")
    if fm != want:
        bad.append(f"struct formats {fm} != {want}")
    if not bad:
        def targets_of(call):
            p = call._parent
            while not isinstance(p, ast.Assign):
                p = p._parent
            t = p.targets[0]
            return [norm(x) for x in (t.elts if isinstance(t, ast.Tuple) else [t])]

        def strip(a):  # self.id / len(self.questions) / question.type / len(rr.data) -> id / questions / type / data
            if isinstance(a, ast.Call) and norm(a.func) == "len":
                a = a.args[0]
            return a.attr if isinstance(a, ast.Attribute) else norm(a)

        hp = [strip(a) for a in packs["DNSMessage.HEADER"].args]
        hu = targets_of(unpacks["DNSMessage.HEADER"])
        # unpacked count variable -> section it fills
        fills = {}
        for n in walk_in_order(un):
            if isinstance(n, ast.For) and isinstance(n.iter, ast.Call) and norm(n.iter.func) == "range" and n._parent is un:
                cnt = norm(n.iter.args[-1])
                app = [norm(c.func.value) for c in walk_in_order(n) if isinstance(c, ast.Call) and isinstance(c.func, ast.Attribute) and c.func.attr == "append" and norm(c.func.value).startswith("msg.")]
                if len(app) == 1:
                    fills[cnt] = app[0].split(".")[1]
            if isinstance(n, ast.Call) and norm(n.func) == "unpack_rrs" and len(n.args) == 3:
                fills[norm(n.args[2])] = norm(n.args[0]).split(".")[1]
        hu_sem = [fills.get(x, x) for x in hu]
        ctx.cells += len(hp)
        if hp != hu_sem:
            bad.append(f"header words packed {hp} but unpacked {hu_sem}")
        qp = [strip(a) for a in packs["Question.HEADER"].args]
        qu = targets_of(unpacks["Question.HEADER"])
        if qp != qu:
            bad.append(f"question words packed {qp} but unpacked {qu}")
        rp = [strip(a) for a in packs["ResourceRecord.HEADER"].args]
        ru = targets_of(unpacks["ResourceRecord.HEADER"])
        if rp[:3] != ru[:3] or rp[3] != "data" or not ru[3].startswith("len"):
            bad.append(f"resource record words packed {rp} but unpacked {ru}")
        # positional ResourceRecord(name, type, class_, ttl, data) vs dataclass field order
        rr = [n for n in walk_in_order(un) if isinstance(n, ast.Call) and norm(n.func) == "ResourceRecord"]
        fields = [st.target.id for st in ctx.model.cls(DNS, "ResourceRecord").body if isinstance(st, ast.AnnAssign) and "ClassVar" not in norm(st.annotation)]
        if len(rr) != 1 or [norm(a) for a in rr[0].args] != fields:
            bad.append(f"ResourceRecord(...) arguments {[norm(a) for a in rr[0].args] if rr else None} vs fields {fields}")
        # section order
        sec_p = []
        for n in pk.body:
            if isinstance(n, ast.For):
                it = n.iter
                for x in (it.elts if isinstance(it, ast.Tuple) else [it]):
                    x = x.value if isinstance(x, ast.Starred) else x
                    if isinstance(x, ast.Attribute) and norm(x.value) == "self":
                        sec_p.append(x.attr)
        sec_u = [fills[x] for x in hu if x in fills]
        calls_u = [norm(n.args[0]).split(".")[1] for n in walk_in_order(un) if isinstance(n, ast.Call) and norm(n.func) == "unpack_rrs" and n._parent._parent is un]
        if sec_p != sec_u or sec_u[1:] != calls_u:
            bad.append(f"sections packed in order {sec_p}, counted {sec_u}, unpacked {['questions'] + calls_u}")
    ctx.check(not bad, "R25.2", (DNS, "DNSMessage.unpack_from", un), "word order and struct formats packed vs unpack_from", "; ".join(bad),
              desc="6 header words, 2 question words, 4 RR words, 4 sections: same order, formats !HHHHHH / !HH / !HHIH")
    ctx.expect_instances("R25.2", 2)


# ---------------------------------------------------------------------------------------------------
# R25.4  known-bits analysis of the encoder's bit-field compositions


class _Unb(tuple):
    """an operand for which no upper bound is established; carries the def-use chain that was followed"""

    def __new__(cls, *chain):
        return tuple.__new__(cls, chain)


_CYC = object()  # a variable reached again while it is being evaluated (`flags |= x`, `flags = flags | x`)
_READ_METHODS = ("get", "items", "keys", "values", "pop", "clear", "copy", "index", "count")


def _own_nodes(fn):
    """nodes of ``fn`` without the bodies of nested function definitions (those are analysed on their own)"""
    todo = list(ast.iter_child_nodes(fn))
    while todo:
        n = todo.pop()
        yield n
        if not isinstance(n, (ast.FunctionDef, ast.AsyncFunctionDef, ast.Lambda, ast.ClassDef)):
            todo.extend(ast.iter_child_nodes(n))


def _func_of(node):
    n = getattr(node, "_parent", None)
    while n is not None and not isinstance(n, (ast.FunctionDef, ast.AsyncFunctionDef)):
        n = getattr(n, "_parent", None)
    return n


def _qual(fn):
    q, n = [fn.name], getattr(fn, "_parent", None)
    while n is not None:
        if isinstance(n, (ast.FunctionDef, ast.AsyncFunctionDef, ast.ClassDef)):
            q.append(n.name)
        n = getattr(n, "_parent", None)
    return ".".join(reversed(q))


def _flatten_or(e):
    if isinstance(e, ast.BinOp) and isinstance(e.op, ast.BitOr):
        return _flatten_or(e.left) + _flatten_or(e.right)
    return [e]


def _exclusive(a, b) -> bool:
    """a and b sit in different arms of the same ``if``: they never both execute"""
    chain = []
    n = a
    while n is not None:
        chain.append(n)
        n = getattr(n, "_parent", None)
    prev, n = b, getattr(b, "_parent", None)
    while n is not None:
        if isinstance(n, ast.If) and n in chain:
            ca = chain[chain.index(n) - 1]
            in_body = lambda x: any(x is s for s in n.body)  # noqa: E731
            in_else = lambda x: any(x is s for s in n.orelse)  # noqa: E731
            return (in_body(ca) and in_else(prev)) or (in_else(ca) and in_body(prev))
        if n in chain:
            return False
        prev, n = n, getattr(n, "_parent", None)
    return False


class EncoderBits:
    """Possible-bit masks ("known bits") of the integer expressions the encoder composes with ``|``.

    Values are assumed non-negative (fields of a well-formed message, lengths, offsets).  An upper bound comes from
    a constant, from a guard that dominates the use (``if x > MAX: raise``, ``if x < N:``, early ``return``), from the
    bounds of everything a local variable is assigned, of every argument passed for a parameter by the callers inside the
    encoder, or of everything stored into a local container the value is loaded from.  A plain value (attribute, length,
    parameter, container element) for which no bound is found anywhere on that chain is *unbounded*; expression kinds the
    evaluator does not model raise AnalysisError."""

    def __init__(self, ctx, rel, qual):
        self.ctx = ctx
        self.model = ctx.model
        root_mod = self.model.module(rel)
        root = ctx.func(rel, qual)
        self.funcs: dict[int, tuple] = {}
        self.calls: dict[int, list] = {}  # id(callee) -> [(module, caller fn, Call)]
        work = [(root_mod, root)]
        while work:
            m, f = work.pop()
            if id(f) in self.funcs:
                continue
            self.funcs[id(f)] = (m, f)
            for n in _own_nodes(f):
                if isinstance(n, (ast.FunctionDef, ast.AsyncFunctionDef)):
                    work.append((m, n))
                elif isinstance(n, ast.Call):
                    tgt = self.resolve_call(m, f, n)
                    if tgt is not None:
                        self.calls.setdefault(id(tgt[1]), []).append((m, f, n))
                        work.append(tgt)
        self._active: list = []

    # ---- resolution
    def resolve_call(self, m, f, call):
        fx = call.func
        if isinstance(fx, ast.Name):
            g = f
            while g is not None:
                for n in _own_nodes(g):
                    if isinstance(n, (ast.FunctionDef, ast.AsyncFunctionDef)) and n.name == fx.id:
                        return m, n
                g = _func_of(g)
        if isinstance(fx, ast.Attribute) and isinstance(fx.value, ast.Name) and fx.value.id in ("self", "cls"):
            c = getattr(f, "_parent", None)
            while c is not None and not isinstance(c, ast.ClassDef):
                c = getattr(c, "_parent", None)
            if c is not None and hasattr(c, "_qual"):
                r = self.model.method(m.rel, c._qual, fx.attr)
                if r is not None and isinstance(r[1], (ast.FunctionDef, ast.AsyncFunctionDef)):
                    return r
            return None
        r = self.model.resolve_name(m, fx)
        if r is not None and isinstance(r[1], (ast.FunctionDef, ast.AsyncFunctionDef)):
            return r
        return None

    def const(self, m, e, depth=0):
        if isinstance(e, ast.Constant):
            if isinstance(e.value, bool):
                return int(e.value)
            return e.value if isinstance(e.value, int) else None
        if depth > 6:
            return None
        if isinstance(e, ast.Name):
            vals = m.assigns(e.id)
            return self.const(m, vals[0], depth + 1) if len(vals) == 1 else None
        if isinstance(e, ast.Attribute):
            if isinstance(e.value, ast.Name) and e.value.id in m.imports:
                tm = self.model.module_by_dotted(m.imports[e.value.id])
                if tm is not None:
                    vals = tm.assigns(e.attr)
                    return self.const(tm, vals[0], depth + 1) if len(vals) == 1 else None
            return None
        if isinstance(e, ast.UnaryOp) and isinstance(e.op, (ast.Invert, ast.USub, ast.UAdd)):
            v = self.const(m, e.operand, depth + 1)
            if v is None:
                return None
            return ~v if isinstance(e.op, ast.Invert) else -v if isinstance(e.op, ast.USub) else v
        if isinstance(e, ast.BinOp):
            a, b = self.const(m, e.left, depth + 1), self.const(m, e.right, depth + 1)
            if a is None or b is None:
                return None
            op = e.op
            try:
                if isinstance(op, ast.LShift) and 0 <= b <= 64:
                    return a << b
                if isinstance(op, ast.RShift) and 0 <= b <= 64:
                    return a >> b
                if isinstance(op, ast.BitOr):
                    return a | b
                if isinstance(op, ast.BitAnd):
                    return a & b
                if isinstance(op, ast.BitXor):
                    return a ^ b
                if isinstance(op, ast.Add):
                    return a + b
                if isinstance(op, ast.Sub):
                    return a - b
                if isinstance(op, ast.Mult):
                    return a * b
                if isinstance(op, ast.Pow) and 0 <= b <= 64:
                    return a**b
            except Exception:
                return None
        return None

    # ---- bounds from guards
    def guard_hi(self, m, f, node):
        """largest value the guards that dominate ``node`` allow for the expression ``node`` (None: no guard)"""
        text = norm(node)
        best = None
        facts = []
        for e, v in guards_at(node, f):
            if not isinstance(e, ast.Compare):
                continue
            if len(e.ops) == 1:
                facts.append((e.left, e.comparators[0], type(e.ops[0]), v))
            elif v:  # a chained comparison that holds: every link holds
                terms = [e.left] + list(e.comparators)
                facts.extend((terms[i], terms[i + 1], type(op), True) for i, op in enumerate(e.ops))
        for l, r, op, v in facts:
            if norm(l) == text:
                c = self.const(m, r)
            elif norm(r) == text:
                c = self.const(m, l)
                op = {ast.Lt: ast.Gt, ast.Gt: ast.Lt, ast.LtE: ast.GtE, ast.GtE: ast.LtE}.get(op, op)
            else:
                continue
            if c is None:
                continue
            hi = None
            if v:
                hi = {ast.Lt: c - 1, ast.LtE: c, ast.Eq: c}.get(op)
            else:
                hi = {ast.Gt: c, ast.GtE: c - 1, ast.NotEq: c}.get(op)
            if hi is not None and hi >= 0:
                best = hi if best is None else min(best, hi)
        return best

    # ---- masks
    @staticmethod
    def _join(parts):
        """union of contributions; unbounded wins, a cycle contributes nothing (least fix-point of an OR accumulation)"""
        out = 0
        for p in parts:
            if isinstance(p, _Unb):
                return p
            if p is _CYC:
                continue
            out |= p
        return out

    @staticmethod
    def _of_hi(hi):
        return (1 << hi.bit_length()) - 1

    def mask(self, m, f, e):
        """int mask of the bits that can be set in ``e`` | _Unb | _CYC"""
        c = self.const(m, e)
        if c is not None:
            return c if c >= 0 else _Unb(f"{norm(e)} is negative")
        hi = self.guard_hi(m, f, e)
        if hi is not None:
            return self._of_hi(hi)
        if isinstance(e, ast.BinOp):
            a, b = self.mask(m, f, e.left), self.mask(m, f, e.right)
            op = e.op
            if isinstance(op, ast.BitAnd):
                known = [x for x in (a, b) if isinstance(x, int)]
                if known:
                    out = known[0]
                    for x in known[1:]:
                        out &= x
                    return out
                # `x & ~K`: at most the bits of x
                return next((x for x in (a, b) if isinstance(x, _Unb) and "is negative" not in x[0]), a)
            if isinstance(op, ast.BitOr):
                return self._join([a, b])
            for x in (a, b):
                if x is _CYC:
                    return _Unb(f"{norm(e)} feeds back into itself")
            for x in (a, b):
                if isinstance(x, _Unb):
                    return x
            if isinstance(op, ast.BitXor):
                return a | b
            if isinstance(op, ast.Add):
                return self._of_hi(a + b)
            if isinstance(op, (ast.LShift, ast.RShift)):
                n = self.const(m, e.right)
                if n is None or not 0 <= n <= 64:
                    raise AnalysisError(f"R25.4: shift by a non-constant amount is not modelled: {norm(e)}")
                return a << n if isinstance(op, ast.LShift) else a >> n
            raise AnalysisError(f"R25.4: arithmetic in a bit-field operand is not modelled: {norm(e)}")
        if isinstance(e, ast.IfExp):
            return self._join([self.mask(m, f, e.body), self.mask(m, f, e.orelse)])
        key = id(e)
        if key in self._active:
            return _CYC
        self._active.append(key)
        try:
            if isinstance(e, ast.Name):
                return self.var_mask(m, f, e)
            if isinstance(e, ast.Attribute):
                if self.is_bool_field(m, f, e):
                    return 1
                return _Unb(f"{norm(e)} has no range check")
            if isinstance(e, ast.Call) and isinstance(e.func, ast.Name) and e.func.id == "bool" and len(e.args) == 1:
                return 1
            if isinstance(e, ast.Subscript) and isinstance(e.value, ast.Name):
                return self.element_mask(m, f, e)
            if isinstance(e, ast.Call) and isinstance(e.func, ast.Name) and e.func.id == "len" and len(e.args) == 1:
                return _Unb(f"{norm(e)} has no upper bound")
            if isinstance(e, ast.Call) and isinstance(e.func, ast.Name) and e.func.id == "int" and len(e.args) == 1:
                return self.mask(m, f, e.args[0])
        finally:
            self._active.pop()
        raise AnalysisError(f"R25.4: operand of a bit-field composition is not modelled: {norm(e)}")

    def is_bool_field(self, m, f, e) -> bool:
        """``self.x`` where the enclosing class (or a base) declares ``x: bool``"""
        if not (isinstance(e.value, ast.Name) and e.value.id == "self"):
            return False
        c = getattr(f, "_parent", None)
        while c is not None and not isinstance(c, ast.ClassDef):
            c = getattr(c, "_parent", None)
        if c is None or not hasattr(c, "_qual"):
            return False
        for cm, cd in self.model.mro(m.rel, c._qual):
            for st in cd.body:
                if isinstance(st, ast.AnnAssign) and isinstance(st.target, ast.Name) and st.target.id == e.attr:
                    return norm(st.annotation) == "bool"
        return False

    def _scope_of(self, f, name):
        """the function (f or an enclosing one) that binds ``name``, and how: 'param' | 'local'"""
        g = f
        while g is not None:
            a = g.args
            if name in [x.arg for x in a.posonlyargs + a.args + a.kwonlyargs] or name in (a.vararg.arg if a.vararg else None, a.kwarg.arg if a.kwarg else None):
                return g, "param"
            for n in _own_nodes(g):
                if isinstance(n, ast.Name) and n.id == name and isinstance(n.ctx, ast.Store):
                    return g, "local"
            g = _func_of(g)
        return None, None

    def var_mask(self, m, f, e):
        name = e.id
        g, how = self._scope_of(f, name)
        if g is None:
            return _Unb(f"{name} is not bound in the encoder")
        if how == "param":
            return self.param_mask(m, g, name)
        key = ("var", id(g), name)
        if key in self._active:
            return _CYC
        self._active.append(key)
        try:
            parts = []
            use_fn = _func_of(e)
            use_loops = [q for q in self._ancestors(e, g) if isinstance(q, (ast.For, ast.While, ast.AsyncFor))] if use_fn is g else []

            def reaches(d) -> bool:
                """can the binding ``d`` be the one the use ``e`` sees?  (same function: it completed before the use, or
                both sit in one loop; bindings made by nested functions / seen from nested functions: always)"""
                if use_fn is not g or _func_of(d) is not g:
                    return True
                if (d.end_lineno, d.end_col_offset) <= (e.lineno, e.col_offset):
                    return True
                return any(L in use_loops for L in self._ancestors(d, g))

            # the binding function and the functions nested in it (nonlocal writers)
            for n in ast.walk(g):
                if isinstance(n, (ast.Assign, ast.AnnAssign, ast.AugAssign)) and not reaches(n):
                    continue
                if isinstance(n, ast.Assign):
                    for t in n.targets:
                        if isinstance(t, ast.Name) and t.id == name:
                            parts.append(self.mask(m, _func_of(n) or g, n.value))
                        elif any(isinstance(x, ast.Name) and x.id == name and isinstance(x.ctx, ast.Store) for x in ast.walk(t)):
                            parts.append(_Unb(f"{name} is bound by unpacking {norm(n.value)}"))
                elif isinstance(n, ast.AnnAssign) and isinstance(n.target, ast.Name) and n.target.id == name and n.value is not None:
                    parts.append(self.mask(m, _func_of(n) or g, n.value))
                elif isinstance(n, ast.AugAssign) and isinstance(n.target, ast.Name) and n.target.id == name:
                    v = self.mask(m, _func_of(n) or g, n.value)
                    if isinstance(n.op, ast.BitOr) or isinstance(v, _Unb):
                        parts.append(v)
                    else:
                        parts.append(_Unb(f"{name} is updated by {norm(n)}"))
                elif isinstance(n, (ast.For, ast.AsyncFor, ast.comprehension, ast.NamedExpr, ast.withitem)):
                    t = n.target if not isinstance(n, ast.withitem) else n.optional_vars
                    if t is not None and any(isinstance(x, ast.Name) and x.id == name for x in ast.walk(t)):
                        parts.append(_Unb(f"{name} is bound by {type(n).__name__.lower()} without a range check"))
            r = self._join(parts)
            return _Unb(f"{name}", *r) if isinstance(r, _Unb) else r
        finally:
            self._active.pop()

    def param_mask(self, m, g, name):
        key = ("param", id(g), name)
        if key in self._active:
            return _CYC
        sites = self.calls.get(id(g), [])
        if not sites:
            return _Unb(f"parameter {name} of {_qual(g)} has no range check")
        a = g.args
        pos = [x.arg for x in a.posonlyargs + a.args]
        defaults = dict(zip(reversed(pos), reversed(a.defaults)))
        defaults.update({k.arg: d for k, d in zip(a.kwonlyargs, a.kw_defaults) if d is not None})
        self._active.append(key)
        try:
            parts = []
            for cm, cf, call in sites:
                skip = 1 if pos[:1] in (["self"], ["cls"]) and isinstance(call.func, ast.Attribute) else 0
                if any(isinstance(x, ast.Starred) for x in call.args) or any(k.arg is None for k in call.keywords):
                    raise AnalysisError(f"R25.4: star-arguments in {norm(call)} are not modelled")
                arg = None
                if name in pos and pos.index(name) - skip < len(call.args) and pos.index(name) - skip >= 0:
                    arg = call.args[pos.index(name) - skip]
                for k in call.keywords:
                    if k.arg == name:
                        arg = k.value
                if arg is None:
                    if name not in defaults:
                        raise AnalysisError(f"R25.4: no argument for {name} in {norm(call)}")
                    parts.append(self.mask(m, g, defaults[name]))
                    continue
                v = self.mask(cm, cf, arg)
                parts.append(_Unb(f"{norm(arg)} passed by {_qual(cf)}", *v) if isinstance(v, _Unb) else v)
            r = self._join(parts)
            return _Unb(f"parameter {name} of {_qual(g)}", *r) if isinstance(r, _Unb) else r
        finally:
            self._active.pop()

    def element_mask(self, m, f, e):
        """``cont[key]`` where cont is a container local to the encoder: union over everything stored into it"""
        name = e.value.id
        g, how = self._scope_of(f, name)
        if how != "local":
            return _Unb(f"{norm(e)}: elements of {name} have no range check")
        parts = []
        for n in ast.walk(g):
            if isinstance(n, ast.Name) and n.id == name:
                p = n._parent
                fn_here = _func_of(n) or g
                if isinstance(n.ctx, ast.Store):
                    st = p
                    if isinstance(st, (ast.Assign, ast.AnnAssign)) and st.value is not None and (
                        (isinstance(st.value, (ast.Dict, ast.List)) and not (getattr(st.value, "keys", None) or getattr(st.value, "elts", None)))
                        or (isinstance(st.value, ast.Call) and isinstance(st.value.func, ast.Name) and st.value.func.id in ("dict", "list") and not st.value.args and not st.value.keywords)
                    ):
                        continue
                    raise AnalysisError(f"R25.4: container {name} is initialised in a way that is not modelled: {norm(st)[:80]}")
                if isinstance(p, ast.Subscript) and p.value is n:
                    if isinstance(p.ctx, ast.Store):
                        st = p._parent
                        if isinstance(st, ast.Assign) and len(st.targets) == 1:
                            v = self.mask(m, fn_here, st.value)
                            parts.append(_Unb(f"{norm(st)} in {_qual(fn_here)}", *v) if isinstance(v, _Unb) else v)
                        else:
                            raise AnalysisError(f"R25.4: store into {name} is not modelled: {norm(st)[:80]}")
                    continue
                if isinstance(p, ast.Compare) and any(n is c for c in p.comparators):
                    continue
                if isinstance(p, ast.Attribute) and isinstance(p._parent, ast.Call) and p._parent.func is p:
                    call = p._parent
                    if p.attr in _READ_METHODS:
                        continue
                    if p.attr in ("setdefault", "append") and len(call.args) == (2 if p.attr == "setdefault" else 1):
                        v = self.mask(m, fn_here, call.args[-1])
                        parts.append(_Unb(f"{norm(call)} in {_qual(fn_here)}", *v) if isinstance(v, _Unb) else v)
                        continue
                if isinstance(p, ast.Nonlocal):
                    continue
                raise AnalysisError(f"R25.4: container {name} is used in a way that is not modelled: {norm(p)[:80]}")
        if not parts:
            raise AnalysisError(f"R25.4: nothing is ever stored into {name}")
        r = self._join(parts)
        return _Unb(f"{norm(e)}", *r) if isinstance(r, _Unb) else r

    # ---- compositions
    def compositions(self):
        """[(module, fn, node, whole-text, [(leaf expr, [other leaf exprs])])]"""
        out = []
        for m, f in self.funcs.values():
            accs: dict[str, list] = {}
            for n in sorted(_own_nodes(f), key=lambda x: (getattr(x, "lineno", 0), getattr(x, "col_offset", 0))):
                if isinstance(n, ast.AugAssign) and isinstance(n.op, ast.BitOr) and isinstance(n.target, ast.Name):
                    accs.setdefault(n.target.id, []).append(n)
                elif isinstance(n, ast.BinOp) and isinstance(n.op, ast.BitOr):
                    p = n._parent
                    if isinstance(p, ast.BinOp) and isinstance(p.op, ast.BitOr):
                        continue  # part of a longer chain
                    if isinstance(p, ast.AugAssign) and isinstance(p.op, ast.BitOr) and isinstance(p.target, ast.Name):
                        continue  # flattened with the accumulation
                    leaves = self.add_parts(m, _flatten_or(n))
                    out.append((m, f, n, norm(n), [(x, [y for y in leaves if y is not x]) for x in leaves]))
                elif isinstance(n, ast.BinOp) and isinstance(n.op, ast.Add) and self.is_field_add(m, n):
                    p = n._parent
                    if isinstance(p, ast.BinOp) and isinstance(p.op, ast.BitOr):
                        continue
                    leaves = [n.left, n.right]
                    out.append((m, f, n, norm(n), [(x, [y for y in leaves if y is not x]) for x in leaves]))
            for name, augs in accs.items():
                inits = [x.value for x in _own_nodes(f) if isinstance(x, ast.Assign) and any(isinstance(t, ast.Name) and t.id == name for t in x.targets)]
                contrib = [(a, leaf) for a in augs for leaf in self.add_parts(m, _flatten_or(a.value))]
                for a, leaf in contrib:
                    in_loop = any(isinstance(q, (ast.For, ast.While, ast.AsyncFor)) for q in self._ancestors(a, f))
                    others = [l2 for a2, l2 in contrib if (l2 is not leaf or in_loop) and not _exclusive(a, a2)] + inits
                    out.append((m, f, a, f"{name} |= {norm(a.value)}", [(leaf, others)]))
        return out

    @staticmethod
    def _ancestors(n, stop):
        n = getattr(n, "_parent", None)
        while n is not None and n is not stop:
            yield n
            n = getattr(n, "_parent", None)

    def is_field_add(self, m, n):
        """``K + x`` with a constant K whose low byte is zero, used as a struct field / inside an OR: a bit-field composition
        written with ``+``"""
        ks = [self.const(m, x) for x in (n.left, n.right)]
        if sum(k is not None for k in ks) != 1:
            return False
        k = next(k for k in ks if k is not None)
        if not (k > 0 and k & 0xFF == 0):
            return False
        p = n._parent
        if isinstance(p, ast.BinOp) and isinstance(p.op, ast.BitOr):
            return True
        return isinstance(p, ast.Call) and isinstance(p.func, ast.Attribute) and p.func.attr in ("pack", "pack_into") and any(n is a for a in p.args)

    def add_parts(self, m, leaves):
        out = []
        for x in leaves:
            if isinstance(x, ast.BinOp) and isinstance(x.op, ast.Add) and self.is_field_add(m, x):
                out += [x.left, x.right]
            else:
                out.append(x)
        return out


def _r25_4(ctx):
    eb = EncoderBits(ctx, DNS, "DNSMessage.packed")
    for m, f in eb.funcs.values():
        ctx.functions.add(f"{m.rel}::{_qual(f)}")
    n_fields = 0
    for m, f, node, text, items in eb.compositions():
        where = (m.rel, _qual(f), node)
        for leaf, others in items:
            lm = eb.mask(m, _func_of(leaf) or f, leaf)
            if lm is _CYC:
                continue
            if isinstance(lm, int) and lm == 0:
                continue
            ctx.cells += 1
            rest = 0
            rest_unb = None
            for o in others:
                om = eb.mask(m, _func_of(o) or f, o)
                if isinstance(om, _Unb):
                    rest_unb = rest_unb or om
                elif om is not _CYC:
                    rest |= om
            if isinstance(lm, _Unb):
                ctx.fail("R25.4", where, f"`{text}`: operand {norm(leaf)} is unbounded",
                         f"no range check bounds {norm(leaf)} before it is merged into the bit field (followed: {' <- '.join(lm)}); the other operands occupy bits {rest:#x}: "
                         "a large value silently spills into them, so the encoded bytes decode to a different message (or do not decode)", chain=list(lm))
                continue
            n_fields += 1
            if rest_unb is not None:
                continue  # reported at the unbounded operand
            ctx.check(lm & rest == 0, "R25.4", where, f"`{text}`: operand {norm(leaf)} occupies bits {lm:#x}",
                      f"{norm(leaf)} can set bits {lm:#x}, which overlap the bits {rest:#x} of the other operands merged into the same value: the fields cannot be separated again when decoding",
                      desc=f"{_qual(f)}: {norm(leaf)} <= bits {lm:#x}, disjoint from the other operands of `{text[:40]}`")
    ctx.note(f"R25.4: encoder = {sorted(_qual(f) for m, f in eb.funcs.values())}; {n_fields} bounded bit-field operands")
    ctx.expect_instances("R25.4", 8)


def check(ctx):
    ctx.rule("R25.1", "pointer loops terminate: sentinel stored before recursing, sentinel hit raises, labels consume >= 1 byte")
    ctx.rule("R25.2", "header bit layout, word order and struct formats agree between DNSMessage.packed and unpack_from")
    ctx.rule("R25.4", "bit-field compositions (`a | b`, `K + b`) in the encoder reachable from DNSMessage.packed are lossless: possible-bit masks of the operands are disjoint")
    ctx.rule("R25.3", "escape set of DNSMessage.unpack on untrusted bytes is within the types handled by DNSLayer.state_query")
    _r25_1(ctx)
    _r25_2(ctx)
    _r25_3(ctx)
    _r25_4(ctx)


MUTANTS = [
    # R25.3 - reverse of the F-C25 / F-C25b / F-C25c fixes and other coverage regressions
    Mutant("reverse-fix-idna-unicodeerror", DN, "        except UnicodeError:\n", "        except UnicodeDecodeError:\n", "R25.3"),
    Mutant("reverse-fix-repack-valueerror", DN, "            except (struct.error, ValueError):\n", "            except struct.error:\n", "R25.3"),
    Mutant("reverse-fix-pointer-depth-unbounded", DN, "                if depth >= _MAX_POINTER_DEPTH:\n                    raise struct.error(\"unpack encountered too many pointers\")\n", "", "R25.3"),
    Mutant("rdata-length-guard-dropped", DNS, "                    if len(buffer) < end_data:\n                        raise struct.error(\n                            f\"unpack requires a data buffer of {len_data} bytes\"\n                        )\n", "", "R25.3"),
    Mutant("layer-handles-valueerror-only", LAYER, "            except struct.error as e:\n                yield commands.Log(f\"{event.connection} sent an invalid message", "            except ValueError as e:\n                yield commands.Log(f\"{event.connection} sent an invalid message", "R25.3"),
    Mutant("zero-length-message-raises-valueerror", LAYER, 'raise struct.error("Message length field cannot be zero")', 'raise ValueError("Message length field cannot be zero")', "R25.3"),
    Mutant("label-decoded-as-ascii-strict", DN, '            labels.append(buffer[offset:end_label].decode("idna"))\n        except UnicodeError:', '            labels.append(buffer[offset:end_label].decode("idna"))\n        except UnicodeTranslateError:', "R25.3"),
    # R25.1
    Mutant("sentinel-store-removed", DN, "        cache[offset] = None  # this will indicate that the offset is being unpacked\n", "", "R25.1"),
    Mutant("sentinel-stored-after-advancing", DN, "        cache[offset] = None  # this will indicate that the offset is being unpacked\n        start_offset = offset\n        labels = []\n        while True:\n            (size,) = _LABEL_SIZE.unpack_from(buffer, offset)\n",
           "        start_offset = offset\n        labels = []\n        while True:\n            (size,) = _LABEL_SIZE.unpack_from(buffer, offset)\n            cache[start_offset] = None\n", "R25.1"),
    Mutant("sentinel-hit-does-not-raise", DN, "        if result is None:\n            raise struct.error(f\"unpack encountered domain name loop\")\n", "        if result is None:\n            result = (\"\", 0)\n", "R25.1"),
    Mutant("empty-label-consumes-nothing", DN, "    elif size == 0:\n        return _LABEL_SIZE.size\n", "    elif size == 0:\n        return 0\n", "R25.1"),
    # R25.4 (the first one is the essence of seed C25b, written inside dns.py: pointer offset taken from len(data) without a 14-bit bound)
    Mutant("owner-names-compressed-with-unchecked-pointer-offset", DNS,
           "        for rr in (*self.answers, *self.authorities, *self.additionals):\n            data.extend(domain_names.pack(rr.name))\n",
           "        offsets: dict[str, int] = {}\n        for rr in (*self.answers, *self.authorities, *self.additionals):\n            if rr.name in offsets:\n"
           "                data.extend(struct.pack(\"!H\", 0xC000 | offsets[rr.name]))\n            else:\n                offsets[rr.name] = len(data)\n"
           "                data.extend(domain_names.pack(rr.name))\n", "R25.4"),
    Mutant("pointer-offset-bound-one-bit-too-wide", DNS,
           "        for rr in (*self.answers, *self.authorities, *self.additionals):\n            data.extend(domain_names.pack(rr.name))\n",
           "        offsets: dict[str, int] = {}\n        for rr in (*self.answers, *self.authorities, *self.additionals):\n            if rr.name in offsets:\n"
           "                data.extend(struct.pack(\"!H\", 0xC000 + offsets[rr.name]))\n            else:\n                if len(data) < 0x8000:\n                    offsets[rr.name] = len(data)\n"
           "                data.extend(domain_names.pack(rr.name))\n", "R25.4"),
    Mutant("response-code-range-check-dropped", DNS, "        if self.response_code < 0 or self.response_code > 0b1111:\n            raise ValueError(\n                f\"DNS message's response_code {self.response_code} is out of bounds.\"\n            )\n", "", "R25.4"),
    Mutant("reserved-shifted-into-ra-bit", DNS, "        flags |= self.reserved << 4\n", "        flags |= self.reserved << 5\n", "R25.4"),
    # R25.2
    Mutant("opcode-unpacked-one-bit-off", DNS, "op_code=(flags >> 11) & 0b1111,", "op_code=(flags >> 12) & 0b1111,", "R25.2"),
    Mutant("truncation-and-rd-bits-swapped-in-pack", DNS, "        if self.truncation:\n            flags |= 1 << 9\n        if self.recursion_desired:\n            flags |= 1 << 8\n",
           "        if self.truncation:\n            flags |= 1 << 8\n        if self.recursion_desired:\n            flags |= 1 << 9\n", "R25.2"),
    Mutant("query-bit-polarity-flipped", DNS, "query=(flags & (1 << 15)) == 0,", "query=(flags & (1 << 15)) != 0,", "R25.2"),
    Mutant("reserved-range-too-wide", DNS, "if self.reserved < 0 or self.reserved > 0b111:", "if self.reserved < 0 or self.reserved > 0b1111:", "R25.2"),
    Mutant("header-counts-swapped", DNS, "                len(self.answers),\n                len(self.authorities),\n", "                len(self.authorities),\n                len(self.answers),\n", "R25.2"),
    Mutant("question-type-class-swapped", DNS, "Question.HEADER.pack(question.type, question.class_)", "Question.HEADER.pack(question.class_, question.type)", "R25.2"),
    Mutant("rr-header-format-changed", DNS, 'HEADER: ClassVar[struct.Struct] = struct.Struct("!HHIH")', 'HEADER: ClassVar[struct.Struct] = struct.Struct("!HHHH")', "R25.2"),
    Mutant("sections-unpacked-out-of-order", DNS, '        unpack_rrs(msg.answers, "answer", len_answers)\n        unpack_rrs(msg.authorities, "authority", len_authorities)\n',
           '        unpack_rrs(msg.authorities, "authority", len_authorities)\n        unpack_rrs(msg.answers, "answer", len_answers)\n', "R25.2"),
]
