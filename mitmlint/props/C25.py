"""C25 - DNS wire codec: decoding is total (struct.error or a message), terminates, and agrees with the encoder's layout.

Decided (structural clauses, nothing executed):
  R25.1 termination of name decompression: on every path of ``unpack_from_with_compression`` the sentinel ``cache[offset] = None`` is
        stored before the recursive call and before ``offset`` is advanced, a cache hit on the sentinel raises, and every iteration
        of the label loops advances by at least one byte (``_unpack_label_into`` returns ``_LABEL_SIZE.size [+ size]``).
  R25.2 header layout agreement between ``DNSMessage.packed`` and ``DNSMessage.unpack_from``: for each of the 8 flag fields the
        (shift, width, polarity) agree, the fields tile the 16 bits exactly, range checks precede packing; the six header words, the
        question words and the resource-record words are packed and unpacked in the same order with the same ``struct`` constants
        (``!HHHHHH``, ``!HH``, ``!HHIH``); sections are written and read in the same order.
  R25.3 (E5) every exception that can leave ``DNSLayer.unpack_message`` / ``DNSMessage.unpack`` on untrusted bytes (explicit raises +
        modelled implicit raisers: struct, index, idna decode/encode, recursion depth) is handled by the handler around the call
        in ``DNSLayer.state_query`` (today: struct.error only).
NOT decided: value-level round-trip equality (encode . decode = id) over all messages.
"""

from __future__ import annotations

import ast

from ..core import AnalysisError
from ..core import norm
from ..model import walk_in_order
from ..paths import GenericSpec
from ..paths import traces_of
from ..selftest import Mutant
from ._helpers_H import Config
from ._helpers_H import guards_at
from ._helpers_H import MayRaise
from ._helpers_H import modules_mentioning

PROP = "C25"
REG = {
    "strength": "partial",
    "technique": "exception-escape sets vs. handler coverage (E5) + must-precede path facts (sentinel) + sibling layout tables (pack vs unpack)",
    "claim": "every explicit raise and modelled implicit raiser reachable from DNSMessage.unpack on untrusted bytes is handled by DNSLayer.state_query; "
    "pointer loops hit a sentinel that is stored before recursing and recursion depth is bounded; the header bit layout, word order and struct "
    "formats of packed and unpack_from agree.",
    "note": "Index arithmetic is discharged only by the named guard facts printed in the evidence (caller checks len(buffer) >= end_data, callee loops "
    "while data_offset < end_data - offset); offsets are assumed non-negative.",
}

DNS = "mitmproxy/dns.py"
DN = "mitmproxy/net/dns/domain_names.py"
LAYER = "mitmproxy/proxy/layers/dns.py"


# ---------------------------------------------------------------------------------------------------
# R25.3


def _call_sites(model, fname):
    out = []
    for m in modules_mentioning(model, fname + "("):
        for n in walk_in_order(m.tree):
            if isinstance(n, ast.Call) and norm(n.func).split(".")[-1] == fname:
                out.append((m, n))
    return out


def _make_discharge(ctx):
    model = ctx.model

    def discharge(fr, exc, node, why):
        # buffer[offset + data_offset] in decompress_from_record_data: index < end_data <= len(buffer)
        if exc != "IndexError" or not isinstance(node, ast.Subscript) or not isinstance(node.value, ast.Name):
            return None
        idx = node.slice
        if not (isinstance(idx, ast.BinOp) and isinstance(idx.op, ast.Add)):
            return None
        fn = fr.fn
        params = [a.arg for a in fn.args.args]
        base = node.value.id
        if base not in params:
            return None
        x, y = norm(idx.left), norm(idx.right)
        bound = None
        for e, v in guards_at(node, fn):
            if v and isinstance(e, ast.Compare) and len(e.ops) == 1 and isinstance(e.ops[0], ast.Lt):
                r = e.comparators[0]
                if isinstance(r, ast.BinOp) and isinstance(r.op, ast.Sub) and isinstance(r.left, ast.Name) and r.left.id in params:
                    if (norm(e.left), norm(r.right)) in ((y, x), (x, y)):
                        bound = r.left.id
        if bound is None:
            return None
        sites = [(m, c) for m, c in _call_sites(model, fn.name) if c is not node]
        if not sites:
            return None
        for m, c in sites:
            args = {params[i]: a for i, a in enumerate(c.args) if i < len(params)}
            args.update({k.arg: k.value for k in c.keywords if k.arg})
            if base not in args or bound not in args:
                return None
            from ..model import enclosing_func

            ef = enclosing_func(c)
            want = f"len({norm(args[base])}) < {norm(args[bound])}"
            if ef is None or not any((not v) and norm(e) == want for e, v in guards_at(c, ef)):
                return None
        return (f"index {x} + {y} < {bound} by the loop guard, and every caller ({len(sites)}) established len({base}) >= {bound} "
                f"before the call; offsets are non-negative counters")

    return discharge


def _r25_3(ctx):
    fn = ctx.func(LAYER, "DNSLayer.state_query")
    for q in ("DNSMessage.unpack", "DNSMessage.unpack_from"):
        ctx.func(DNS, q)
    for q in ("unpack_from_with_compression", "_unpack_label_into", "decompress_from_record_data", "pack"):
        ctx.func(DN, q)
    ctx.func(LAYER, "DNSLayer.unpack_message")
    tries = [n for n in walk_in_order(fn) if isinstance(n, ast.Try) and any("self.unpack_message(" in norm(s) for s in n.body)]
    ctx.require(len(tries) == 1, "DNSLayer.state_query: the try around unpack_message changed shape")
    t = tries[0]
    call = [n for n in walk_in_order(t) if isinstance(n, ast.Call) and norm(n.func) == "self.unpack_message"]
    ctx.require(len(call) == 1 and norm(call[0].args[0]) == "event.data", "unpack_message is no longer fed event.data")
    mr = MayRaise(ctx, Config(discharge=_make_discharge(ctx)))
    env = {"event.data": "V"}
    esc = mr.region(LAYER, "DNSLayer.state_query", t.body, env)
    key = mr.key_of_region(LAYER, "DNSLayer.state_query", env)
    ctx.require(mr.sites >= 25 and len(mr.functions) >= 9, f"escape analysis collapsed: {mr.sites} raiser sites in {sorted(mr.functions)}")
    ctx.paths += mr.sites
    for f in mr.functions:
        ctx.functions.add(f)
    handled = []
    for h in t.handlers:
        ctx.require(h.type is not None, "bare except around unpack_message (not modelled)")
        handled += [mr.h.canon(mr.model.module(LAYER), e) for e in (h.type.elts if isinstance(h.type, ast.Tuple) else [h.type])]
    bad = sorted((e for e in esc if not any(mr.h.isa(e.exc, h) for h in handled)), key=lambda e: (e.exc, e.rel, e.qual, e.text))
    for typ in sorted({e.exc for e in bad}):
        first = next(e for e in bad if e.exc == typ)
        ctx.fail("R25.3", (LAYER, "DNSLayer.state_query", t), f"{typ} escapes DNSMessage.unpack",
                 f"{typ} raised at {first.site()} ({first.why}) is not handled (handled: {handled}); call chain: " + " -> ".join(mr.chain(key, first)),
                 chain=mr.chain(key, first), sites=[e.site() for e in bad if e.exc == typ][:8])
    if not bad:
        ctx.ok("R25.3", f"{mr.sites} raiser sites in {len(mr.functions)} functions; escape set {sorted({e.exc for e in esc})} within handled {handled}")
    for k, v in sorted(mr.discharged.items()):
        ctx.assume(f"discharged: {k}: {v}")
    ctx.sample({"rule": "R25.3", "handled": handled, "escape_set": sorted({e.exc for e in esc}), "discharged": dict(mr.discharged),
                "functions": sorted(mr.functions)})
    ctx.expect_instances("R25.3", 1)


# ---------------------------------------------------------------------------------------------------
# R25.1


def _r25_1(ctx):
    fn = ctx.func(DN, "unpack_from_with_compression")
    params = [a.arg for a in fn.args.args]
    off, cache = params[1], params[2]
    sentinel = f"{cache}[{off}]"

    def keep(ev):
        return (ev[0] == "call" and ev[1] == fn.name) or (ev[0] == "assign" and ev[1] in (sentinel, off)) or ev[0] == "cond"

    spec = GenericSpec(keep=keep, record_conds=True, unroll=2)
    traces, eng = traces_of(fn, spec)
    ctx.paths += len(traces)
    rec = 0
    bad = None
    for tr, how, st in traces:
        seen_store = False
        for ev in tr:
            if ev[0] == "assign" and ev[1] == sentinel:
                seen_store = True
            elif ev[0] == "assign" and ev[1] == off and not seen_store and any(e[0] == "call" for e in tr):
                bad = bad or f"`{off}` is advanced before the sentinel is stored on a path that recurses"
            elif ev[0] == "call":
                rec += 1
                if not seen_store:
                    bad = bad or "a path reaches the recursive call without having stored the sentinel"
    ctx.require(rec >= 1, "unpack_from_with_compression no longer recurses (shape not modelled)")
    # the stored value is None
    stores = [n for n in walk_in_order(fn) if isinstance(n, ast.Assign) and any(norm(t) == sentinel for t in n.targets)]
    none_store = [n for n in stores if isinstance(n.value, ast.Constant) and n.value.value is None]
    if not none_store:
        bad = bad or "no `cache[offset] = None` sentinel store"
    ctx.check(bad is None, "R25.1", (DN, fn.name, fn), f"{sentinel} = None before the recursive call", bad or "",
              desc=f"sentinel stored before recursing on all {len(traces)} paths ({rec} recursive-call events)")
    # a hit on the sentinel raises
    hit_ok, hits = True, 0
    for tr, how, st in traces:
        conds = {(e[1], e[2]) for e in tr if e[0] == "cond"}
        if (f"{off} in {cache}", True) in conds:
            res_none = [c for c in conds if c[0].endswith("is None") and c[1] is True]
            if res_none:
                hits += 1
                if not how.startswith("raise:"):
                    hit_ok = False
            if any(e[0] == "call" for e in tr):
                hit_ok = False  # a cached offset must never be unpacked again
    ctx.check(hit_ok and hits >= 1, "R25.1", (DN, fn.name, fn), "cache hit on the sentinel raises", "a pointer to an offset that is being unpacked does not raise: pointer loops recurse forever",
              desc=f"{hits} path(s) hitting the None sentinel all raise; cached offsets are never unpacked again")
    # progress of the label loops
    lab = ctx.func(DN, "_unpack_label_into")
    rets = [n.value for n in walk_in_order(lab) if isinstance(n, ast.Return)]
    ok = bool(rets) and all(r is not None and (norm(r) == "_LABEL_SIZE.size" or (isinstance(r, ast.BinOp) and isinstance(r.op, ast.Add) and "_LABEL_SIZE.size" in (norm(r.left), norm(r.right)))) for r in rets)
    fmt = ctx.model.const(DN, "_LABEL_SIZE")
    ok = ok and norm(fmt) in ("struct.Struct('!B')", 'struct.Struct("!B")')
    ctx.check(ok, "R25.1", (DN, lab.name, lab), "_unpack_label_into returns _LABEL_SIZE.size [+ size]", "a label may consume zero bytes: the label loops need not advance",
              desc="every label consumes >= 1 byte (unsigned size)")
    ctx.expect_instances("R25.1", 3)


# ---------------------------------------------------------------------------------------------------
# R25.2


def _int(e):
    try:
        v = ast.literal_eval(e)
    except Exception:
        return None
    return v if isinstance(v, int) and not isinstance(v, bool) else None


def _shift_of(e):
    """`1 << N` -> N"""
    if isinstance(e, ast.BinOp) and isinstance(e.op, ast.LShift) and _int(e.left) == 1:
        return _int(e.right)
    return None


def _unpack_field(e, var="flags"):
    """-> (shift, width, inverted) of a header field expression over ``flags``."""
    if isinstance(e, ast.Compare) and len(e.ops) == 1 and _int(e.comparators[0]) == 0:
        l = e.left
        if isinstance(l, ast.BinOp) and isinstance(l.op, ast.BitAnd) and norm(l.left) == var:
            n = _shift_of(l.right)
            if n is not None:
                return (n, 1, isinstance(e.ops[0], ast.Eq))
        return None
    if isinstance(e, ast.BinOp) and isinstance(e.op, ast.BitAnd):
        mask = _int(e.right)
        if mask is None or (mask & (mask + 1)) != 0:
            return None
        width = mask.bit_length()
        if norm(e.left) == var:
            return (0, width, False)
        l = e.left
        if isinstance(l, ast.BinOp) and isinstance(l.op, ast.RShift) and norm(l.left) == var and _int(l.right) is not None:
            return (_int(l.right), width, False)
    return None


def _r25_2(ctx):
    un, pk = ctx.func(DNS, "DNSMessage.unpack_from"), ctx.func(DNS, "DNSMessage.packed")
    ctor = [n for n in walk_in_order(un) if isinstance(n, ast.Call) and norm(n.func) == "DNSMessage"]
    ctx.require(len(ctor) == 1, "unpack_from: DNSMessage(...) construction changed shape")
    ufields = {}
    for kw in ctor[0].keywords:
        if "flags" in {x.id for x in ast.walk(kw.value) if isinstance(x, ast.Name)}:
            f = _unpack_field(kw.value)
            ctx.require(f is not None, f"unpack_from: unmodelled flag expression for {kw.arg}: {norm(kw.value)}")
            ufields[kw.arg] = f
    # pack side
    pfields, ranges, order = {}, {}, []
    for st in pk.body:
        if isinstance(st, ast.If) and isinstance(st.test, ast.BoolOp) and any(isinstance(x, ast.Raise) for x in st.body):
            # range check: self.X < 0 or self.X > MAX
            names = {n.attr for n in ast.walk(st.test) if isinstance(n, ast.Attribute) and norm(n.value) == "self"}
            mx = [_int(c.comparators[0]) for c in st.test.values if isinstance(c, ast.Compare) and isinstance(c.ops[0], ast.Gt)]
            mn = [_int(c.comparators[0]) for c in st.test.values if isinstance(c, ast.Compare) and isinstance(c.ops[0], ast.Lt)]
            if len(names) == 1 and len(mx) == 1 and mn == [0]:
                ranges[names.pop()] = (mx[0], st.lineno)
            continue
        target = st
        inverted = None
        if isinstance(st, ast.If) and len(st.body) == 1 and isinstance(st.body[0], ast.AugAssign) and not st.orelse:
            t = st.test
            inverted = isinstance(t, ast.UnaryOp) and isinstance(t.op, ast.Not)
            t = t.operand if inverted else t
            if isinstance(t, ast.Attribute) and norm(t.value) == "self":
                n = _shift_of(st.body[0].value)
                if norm(st.body[0].target) == "flags" and isinstance(st.body[0].op, ast.BitOr) and n is not None:
                    pfields[t.attr] = (n, 1, inverted)
                    order.append((t.attr, st.lineno))
                    continue
        if isinstance(target, ast.AugAssign) and norm(target.target) == "flags" and isinstance(target.op, ast.BitOr):
            v = target.value
            if isinstance(v, ast.Attribute) and norm(v.value) == "self":
                pfields[v.attr] = (0, None, False)
                order.append((v.attr, target.lineno))
            elif isinstance(v, ast.BinOp) and isinstance(v.op, ast.LShift) and isinstance(v.left, ast.Attribute) and norm(v.left.value) == "self" and _int(v.right) is not None:
                pfields[v.left.attr] = (_int(v.right), None, False)
                order.append((v.left.attr, target.lineno))
            else:
                raise AnalysisError(f"packed: unmodelled flags update {norm(target)}")
    bad = []
    for name, (sh, w, inv) in pfields.items():
        if w is None:
            if name not in ranges:
                bad.append(f"{name}: packed without a range check")
                continue
            mx, line = ranges[name]
            if (mx & (mx + 1)) != 0:
                bad.append(f"{name}: range maximum {mx} is not 2^k-1")
            w = mx.bit_length()
            if line > dict(order)[name]:
                bad.append(f"{name}: range check after packing")
            pfields[name] = (sh, w, inv)
    for name in sorted(set(ufields) | set(pfields)):
        ctx.cells += 1
        if ufields.get(name) != pfields.get(name):
            bad.append(f"{name}: unpacked as (shift,width,inverted)={ufields.get(name)} but packed as {pfields.get(name)}")
    bits = 0
    for name, (sh, w, inv) in ufields.items():
        m = ((1 << w) - 1) << sh
        if bits & m:
            bad.append(f"{name}: overlaps another field")
        bits |= m
    if bits != 0xFFFF:
        bad.append(f"flag fields cover {bits:#06x}, not the 16 header bits")
    ctx.check(not bad and len(ufields) == 8, "R25.2", (DNS, "DNSMessage.packed", pk), "flag bit layout packed vs unpack_from", "; ".join(bad),
              desc=f"8 flag fields agree and tile 16 bits: {sorted(ufields.items(), key=lambda kv: -kv[1][0])}", layout=ufields)

    # header words, question words, RR words: order + struct constants
    def struct_calls(fn, meth):
        return [n for n in walk_in_order(fn) if isinstance(n, ast.Call) and isinstance(n.func, ast.Attribute) and n.func.attr == meth and norm(n.func.value).endswith("HEADER")]

    packs = {norm(n.func.value): n for n in struct_calls(pk, "pack")}
    unpacks = {}
    for n in struct_calls(un, "unpack_from"):
        unpacks[norm(n.func.value)] = n
    want = {"DNSMessage.HEADER": "!HHHHHH", "Question.HEADER": "!HH", "ResourceRecord.HEADER": "!HHIH"}
    mr = MayRaise(ctx, Config())
    mod = ctx.model.module(DNS)
    fm = {k: mr.struct_format(mod, ast.parse(k, mode="eval").body) for k in want}
    bad = []
    if set(packs) != set(want) or set(unpacks) != set(want):
        bad.append(f"struct constants used: pack {sorted(packs)} unpack {sorted(unpacks)}")
    if fm != want:
        bad.append(f"struct formats {fm} != {want}")
    if not bad:
        def targets_of(call):
            p = call._parent
            while not isinstance(p, ast.Assign):
                p = p._parent
            t = p.targets[0]
            return [norm(x) for x in (t.elts if isinstance(t, ast.Tuple) else [t])]

        def strip(a):  # self.id / len(self.questions) / question.type / len(rr.data) -> id / questions / type / data
            if isinstance(a, ast.Call) and norm(a.func) == "len":
                a = a.args[0]
            return a.attr if isinstance(a, ast.Attribute) else norm(a)

        hp = [strip(a) for a in packs["DNSMessage.HEADER"].args]
        hu = targets_of(unpacks["DNSMessage.HEADER"])
        # unpacked count variable -> section it fills
        fills = {}
        for n in walk_in_order(un):
            if isinstance(n, ast.For) and isinstance(n.iter, ast.Call) and norm(n.iter.func) == "range" and n._parent is un:
                cnt = norm(n.iter.args[-1])
                app = [norm(c.func.value) for c in walk_in_order(n) if isinstance(c, ast.Call) and isinstance(c.func, ast.Attribute) and c.func.attr == "append" and norm(c.func.value).startswith("msg.")]
                if len(app) == 1:
                    fills[cnt] = app[0].split(".")[1]
            if isinstance(n, ast.Call) and norm(n.func) == "unpack_rrs" and len(n.args) == 3:
                fills[norm(n.args[2])] = norm(n.args[0]).split(".")[1]
        hu_sem = [fills.get(x, x) for x in hu]
        ctx.cells += len(hp)
        if hp != hu_sem:
            bad.append(f"header words packed {hp} but unpacked {hu_sem}")
        qp = [strip(a) for a in packs["Question.HEADER"].args]
        qu = targets_of(unpacks["Question.HEADER"])
        if qp != qu:
            bad.append(f"question words packed {qp} but unpacked {qu}")
        rp = [strip(a) for a in packs["ResourceRecord.HEADER"].args]
        ru = targets_of(unpacks["ResourceRecord.HEADER"])
        if rp[:3] != ru[:3] or rp[3] != "data" or not ru[3].startswith("len"):
            bad.append(f"resource record words packed {rp} but unpacked {ru}")
        # positional ResourceRecord(name, type, class_, ttl, data) vs dataclass field order
        rr = [n for n in walk_in_order(un) if isinstance(n, ast.Call) and norm(n.func) == "ResourceRecord"]
        fields = [st.target.id for st in ctx.model.cls(DNS, "ResourceRecord").body if isinstance(st, ast.AnnAssign) and "ClassVar" not in norm(st.annotation)]
        if len(rr) != 1 or [norm(a) for a in rr[0].args] != fields:
            bad.append(f"ResourceRecord(...) arguments {[norm(a) for a in rr[0].args] if rr else None} vs fields {fields}")
        # section order
        sec_p = []
        for n in pk.body:
            if isinstance(n, ast.For):
                it = n.iter
                for x in (it.elts if isinstance(it, ast.Tuple) else [it]):
                    x = x.value if isinstance(x, ast.Starred) else x
                    if isinstance(x, ast.Attribute) and norm(x.value) == "self":
                        sec_p.append(x.attr)
        sec_u = [fills[x] for x in hu if x in fills]
        calls_u = [norm(n.args[0]).split(".")[1] for n in walk_in_order(un) if isinstance(n, ast.Call) and norm(n.func) == "unpack_rrs" and n._parent._parent is un]
        if sec_p != sec_u or sec_u[1:] != calls_u:
            bad.append(f"sections packed in order {sec_p}, counted {sec_u}, unpacked {['questions'] + calls_u}")
    ctx.check(not bad, "R25.2", (DNS, "DNSMessage.unpack_from", un), "word order and struct formats packed vs unpack_from", "; ".join(bad),
              desc="6 header words, 2 question words, 4 RR words, 4 sections: same order, formats !HHHHHH / !HH / !HHIH")
    ctx.expect_instances("R25.2", 2)


def check(ctx):
    ctx.rule("R25.1", "pointer loops terminate: sentinel stored before recursing, sentinel hit raises, labels consume >= 1 byte")
    ctx.rule("R25.2", "header bit layout, word order and struct formats agree between DNSMessage.packed and unpack_from")
    ctx.rule("R25.3", "escape set of DNSMessage.unpack on untrusted bytes is within the types handled by DNSLayer.state_query")
    _r25_1(ctx)
    _r25_2(ctx)
    _r25_3(ctx)


MUTANTS = [
    # R25.3 - reverse of the F-C25 / F-C25b / F-C25c fixes and other coverage regressions
    Mutant("reverse-fix-idna-unicodeerror", DN, "        except UnicodeError:\n", "        except UnicodeDecodeError:\n", "R25.3"),
    Mutant("reverse-fix-repack-valueerror", DN, "            except (struct.error, ValueError):\n", "            except struct.error:\n", "R25.3"),
    Mutant("reverse-fix-pointer-depth-unbounded", DN, "                if depth >= _MAX_POINTER_DEPTH:\n                    raise struct.error(\"unpack encountered too many pointers\")\n", "", "R25.3"),
    Mutant("rdata-length-guard-dropped", DNS, "                    if len(buffer) < end_data:\n                        raise struct.error(\n                            f\"unpack requires a data buffer of {len_data} bytes\"\n                        )\n", "", "R25.3"),
    Mutant("layer-handles-valueerror-only", LAYER, "            except struct.error as e:\n                yield commands.Log(f\"{event.connection} sent an invalid message", "            except ValueError as e:\n                yield commands.Log(f\"{event.connection} sent an invalid message", "R25.3"),
    Mutant("zero-length-message-raises-valueerror", LAYER, 'raise struct.error("Message length field cannot be zero")', 'raise ValueError("Message length field cannot be zero")', "R25.3"),
    Mutant("label-decoded-as-ascii-strict", DN, '            labels.append(buffer[offset:end_label].decode("idna"))\n        except UnicodeError:', '            labels.append(buffer[offset:end_label].decode("idna"))\n        except UnicodeTranslateError:', "R25.3"),
    # R25.1
    Mutant("sentinel-store-removed", DN, "        cache[offset] = None  # this will indicate that the offset is being unpacked\n", "", "R25.1"),
    Mutant("sentinel-stored-after-advancing", DN, "        cache[offset] = None  # this will indicate that the offset is being unpacked\n        start_offset = offset\n        labels = []\n        while True:\n            (size,) = _LABEL_SIZE.unpack_from(buffer, offset)\n",
           "        start_offset = offset\n        labels = []\n        while True:\n            (size,) = _LABEL_SIZE.unpack_from(buffer, offset)\n            cache[start_offset] = None\n", "R25.1"),
    Mutant("sentinel-hit-does-not-raise", DN, "        if result is None:\n            raise struct.error(f\"unpack encountered domain name loop\")\n", "        if result is None:\n            result = (\"\", 0)\n", "R25.1"),
    Mutant("empty-label-consumes-nothing", DN, "    elif size == 0:\n        return _LABEL_SIZE.size\n", "    elif size == 0:\n        return 0\n", "R25.1"),
    # R25.2
    Mutant("opcode-unpacked-one-bit-off", DNS, "op_code=(flags >> 11) & 0b1111,", "op_code=(flags >> 12) & 0b1111,", "R25.2"),
    Mutant("truncation-and-rd-bits-swapped-in-pack", DNS, "        if self.truncation:\n            flags |= 1 << 9\n        if self.recursion_desired:\n            flags |= 1 << 8\n",
           "        if self.truncation:\n            flags |= 1 << 8\n        if self.recursion_desired:\n            flags |= 1 << 9\n", "R25.2"),
    Mutant("query-bit-polarity-flipped", DNS, "query=(flags & (1 << 15)) == 0,", "query=(flags & (1 << 15)) != 0,", "R25.2"),
    Mutant("reserved-range-too-wide", DNS, "if self.reserved < 0 or self.reserved > 0b111:", "if self.reserved < 0 or self.reserved > 0b1111:", "R25.2"),
    Mutant("header-counts-swapped", DNS, "                len(self.answers),\n                len(self.authorities),\n", "                len(self.authorities),\n                len(self.answers),\n", "R25.2"),
    Mutant("question-type-class-swapped", DNS, "Question.HEADER.pack(question.type, question.class_)", "Question.HEADER.pack(question.class_, question.type)", "R25.2"),
    Mutant("rr-header-format-changed", DNS, 'HEADER: ClassVar[struct.Struct] = struct.Struct("!HHIH")', 'HEADER: ClassVar[struct.Struct] = struct.Struct("!HHHH")', "R25.2"),
    Mutant("sections-unpacked-out-of-order", DNS, '        unpack_rrs(msg.answers, "answer", len_answers)\n        unpack_rrs(msg.authorities, "authority", len_authorities)\n',
           '        unpack_rrs(msg.authorities, "authority", len_authorities)\n        unpack_rrs(msg.answers, "answer", len_answers)\n', "R25.2"),
]
