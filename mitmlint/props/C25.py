"""C25 - DNS wire codec: decoding is total (struct.error or a message), terminates, and agrees with the encoder's layout.

The codec functions are *interpreted from their ASTs* (pyint; nothing imported or executed) and compared with an independent
reference implementation of the RFC 1035 wire format (_helpers_dnsref), so the rules see behaviour, not spelling: renamed locals,
inverted branches, extracted helpers, ``match`` for ``if``, added logging / assertions / annotations are evaluated like the original.

Decided:
  R25.1 bounded model check of ``domain_names.unpack_from_with_compression``: on every byte string over {00,01,02,03,c0} up to length 4
        (thorough: length 5) at every offset, plus hand-written pointer chains / cycles / boundary label types, the interpreted
        function (a) terminates and never has more live activations than the buffer has offsets + 1 (an offset that is being
        unpacked is never unpacked again: the in-progress marker is stored under the offset the call started at before recursing),
        (b) raises struct.error - and nothing else - for every name the reference decoder classifies as a pointer loop or as
        malformed, (c) returns the wire length the reference decoder assigns (>= 1 octet) for every name it decodes; thorough:
        the name cache is transparent (same answers with the cache filled by earlier offsets).
  R25.2 layout agreement of ``DNSMessage.packed`` and ``DNSMessage.unpack_from``, both interpreted: for every header variant
        (each flag bit alone, all, none, id corners) and for messages with distinct counts / types / classes / 32-bit TTLs in
        every section, the reference decoder reads ``packed``'s bytes as the same message, ``unpack_from`` reads the reference
        encoding (plain and with compressed owner names) as the same message with the right length, and ``packed`` refuses header
        fields that do not fit their bits.
  R25.3 (E5) every exception that can leave ``DNSLayer.unpack_message`` / ``DNSMessage.unpack`` on untrusted bytes (explicit raises +
        modelled implicit raisers: struct, index, idna decode/encode, recursion depth, assert) is handled by a handler that is active
        when the call runs: the call of ``self.unpack_message`` is located by role - reachable from ``DNSLayer.state_query`` directly or
        through helper methods of the layer (``_on_data`` ...) - and the ``try`` statements around it in its own function and around the
        helper call sites on the way down from state_query count (today: struct.error only; no handler at all = everything escapes).
        Log calls raise nothing.  Index arithmetic is discharged by linear
        reasoning over guards and single-assignment temporaries + the callers' length checks; an ``assert`` on untrusted data is
        discharged only if it was evaluated (>= 5 times) and never failed in a bounded model of ``DNSMessage.unpack`` (interpreted on
        well-formed messages, truncations, boundary-value byte mutations) - an invariant, not an input check; concrete escapes
        found by that model are reported too.
  R25.4 (known-bits abstract interpretation of the encoder) every bit-field composition evaluated by ``DNSMessage.packed`` and the
        functions it reaches (nested helpers, ``domain_names.*``, methods, methods of the records it iterates) - ``a | b``,
        ``acc |= b``, and ``K + b`` with a constant K whose low byte is zero used as a struct field - is lossless: the masks of
        the bits each operand can set are pairwise disjoint.  A mask comes from a constant, from a range check / comparison guard
        dominating the use, from everything assigned to a local, passed for a parameter by the encoder's call sites, or stored
        into a local container the value is loaded from.  An operand that is a plain value (attribute, ``len(..)``, parameter,
        container element) with no bound anywhere on that chain is a violation: a large value spills into the neighbouring bits
        and ``struct`` does not complain, so the bytes decode to a different message or not at all (e.g. a compression pointer
        ``0xC000 | offset`` for a name first written at offset >= 0x4000; a flag field without its range check).
        Expression kinds the evaluator does not model -> ANALYSIS-ERROR.  Values are assumed non-negative.
NOT decided: value-level round-trip equality (encode . decode = id) over *all* messages (R25.2 samples it) - in particular whether an
emitted compression pointer refers to the offset where that very name was written, and truncation made explicit (``offset & 0x3FFF``).
"""

from __future__ import annotations

import ast
import itertools
import struct

from ..core import AnalysisError
from ..core import norm
from ..model import attr_chain
from ..model import enclosing_func
from ..model import walk_in_order
from ..selftest import Mutant
from ._helpers_dnsref import diff
from ._helpers_dnsref import DnsInterp
from ._helpers_dnsref import FLAG_FIELDS
from ._helpers_dnsref import layer_self
from ._helpers_dnsref import layer_unpack
from ._helpers_dnsref import packed
from ._helpers_dnsref import public
from ._helpers_dnsref import ref_decode
from ._helpers_dnsref import ref_encode
from ._helpers_dnsref import ref_name
from ._helpers_dnsref import roomy
from ._helpers_dnsref import RefError
from ._helpers_dnsref import require_fields
from ._helpers_dnsref import STRUCT_ERROR
from ._helpers_dnsref import unpack
from ._helpers_dnsref import unpack_from
from ._helpers_H import _writes
from ._helpers_H import Config
from ._helpers_H import guards_at
from ._helpers_H import MayRaise
from ._helpers_H import modules_mentioning

PROP = "C25"
REG = {
    "strength": "partial",
    "technique": "AST interpretation (pyint) of the codec against an independent RFC 1035 reference: bounded model check of name decompression "
    "(termination, loop detection, progress) and encoder/decoder layout agreement on finite message families; known-bits abstract interpretation of "
    "the encoder's `|` compositions; exception-escape sets vs. handler coverage (E5)",
    "claim": "on every small byte string the interpreted name decoder terminates, re-enters no offset that is being unpacked, raises struct.error for loops / "
    "malformed names and consumes exactly the wire length; packed and unpack_from agree with the RFC 1035 header bit layout, word order and record layout on the "
    "sampled messages and refuse out-of-range header fields; bit-field compositions in the encoder have provably disjoint operand bit masks; every explicit raise and "
    "modelled implicit raiser reachable from DNSMessage.unpack on untrusted bytes is handled by DNSLayer.state_query.",
    "note": "Index arithmetic is discharged only by the named guard facts printed in the evidence (caller checks len(buffer) >= end_data, callee loops "
    "while index < end_data - offset); offsets are assumed non-negative. Asserts on untrusted data are discharged only when they never fail in the bounded model "
    "of DNSMessage.unpack. struct / idna are trusted library behaviour.",
}

DNS = "mitmproxy/dns.py"
DN = "mitmproxy/net/dns/domain_names.py"
LAYER = "mitmproxy/proxy/layers/dns.py"

NAME_FN = "unpack_from_with_compression"


# ---------------------------------------------------------------------------------------------------
# R25.1  bounded model check of the name decoder (interpreted from its AST)


def _name_family(tier):
    """[(buffer, note)]: every byte string over a small alphabet up to a small length (length bytes 0..2/3, the pointer
    indicator 0xC0 whose second octet - the same small bytes - addresses every offset of the buffer) plus hand-written longer
    shapes: cycles of every small period, cycles entered through labels, long forward chains, boundary label types."""
    out = []
    sigma = (0x00, 0x01, 0x02, 0x03, 0xC0)
    for n in range(1, 6 if tier == "thorough" else 5):
        out += [(bytes(t), "exhaustive") for t in itertools.product(sigma, repeat=n)]
    ptr = lambda o: bytes([0xC0, o])  # noqa: E731
    chain = b"".join(ptr(2 * i + 2) for i in range(10))  # 10 forward pointers
    extra = [
        (ptr(2) + ptr(4) + ptr(0), "cycle of three pointers"),
        (b"\x01a" + ptr(4) + ptr(2), "label, then a cycle of two pointers"),
        (b"\x01a\x01b" + ptr(2), "pointer back into the labels of the name being decoded"),
        (b"\x03www" + ptr(0), "labels + pointer to their own start"),
        (chain + b"\x00", "chain of ten pointers ending at the root"),
        (chain + ptr(6), "chain of ten pointers ending in a cycle"),
        (chain + b"\x02ab" + ptr(0), "chain of ten pointers, a label, back to the start"),
        (b"\x07example\x03com\x00" + b"\x03www" + ptr(0) + b"\x04mail" + ptr(13), "ordinary compressed names"),
        (b"\x40" + b"a" * 64 + b"\x00", "label type 0x40"),
        (b"\xbf" + b"a" * 8, "label type 0xbf"),
        (b"\x3f" + b"a" * 63 + b"\x00", "longest label"),
        (b"\x3f" + b"a" * 62, "longest label, truncated"),
        (b"\xc1\x00\x00", "pointer beyond the buffer"),
        (b"\x00\xc0", "pointer without its second octet"),
        (b"\x05ab", "label running past the buffer"),
        (b"\x01\xff\x00", "label that is not IDNA"),
        (b"\x02\xc3\x28\x00", "label that is not IDNA"),
        (b"\x04xn--\x00", "label that is not IDNA"),
    ]
    return out + extra


def _sig(o):
    """what a caller can observe of a name-decoder outcome: the exception type or the (name, length) pair"""
    return (o[0], o[1] if o[0] != "diverge" else None)


def _r25_1(ctx):
    fn = ctx.func(DN, NAME_FN)
    a = fn.args
    ctx.require(len(a.posonlyargs + a.args) >= 3, f"{NAME_FN} is no longer called as (buffer, offset, name cache, ...)")
    it = DnsInterp(ctx.model, max_steps=20000, max_depth=40)
    key = (DN, fn.name)
    where = (DN, fn.name, fn)
    thorough = ctx.tier == "thorough"
    bad_term = bad_exc = bad_len = None
    runs = loops = decoded = 0
    deepest = 0
    for buf, note in _name_family(ctx.tier):
        shared: dict = {}
        for off in range(len(buf)):
            try:
                ref = ("ok", ref_name(buf, off)[1])
            except RefError as e:
                ref = (e.kind, None)
            it.reset_counters()
            o = it.run(DN, fn.name, buf, off, {})
            runs += 1
            nest = it.max_nesting.get(key, 0)
            deepest = max(deepest, nest)
            show = f"buffer {buf.hex(' ')} at offset {off} ({note})"
            loops += ref[0] == "loop"
            decoded += ref[0] == "ok"
            if o[0] == "diverge":
                bad_term = bad_term or f"{show}: {o[1]}"
                continue
            if nest > len(buf) + 1:
                bad_term = bad_term or (f"{show}: {nest} nested activations of {fn.name} although the buffer has only {len(buf)} offsets - an offset that is being "
                                        "unpacked is unpacked again (no in-progress marker under the offset the call started at)")
            if o[0] == "raise":
                if o[1] != STRUCT_ERROR:
                    bad_exc = bad_exc or f"{show}: raises {o[1]} instead of struct.error"
                continue
            v = o[1]
            if not (isinstance(v, tuple) and len(v) == 2 and isinstance(v[0], str) and isinstance(v[1], int)):
                raise AnalysisError(f"{NAME_FN} returned {v!r}, not (name, length)")
            if ref[0] == "loop":
                bad_exc = bad_exc or f"{show}: the name contains a pointer loop but is decoded as {v!r}: pointer loops are accepted (and callers that follow them need not terminate)"
            elif ref[0] == "malformed":
                bad_exc = bad_exc or f"{show}: the name runs past the buffer / has a reserved label type but is decoded as {v!r}"
            else:
                if v[1] != ref[1]:
                    bad_len = bad_len or (f"{show}: decoded as {v!r}, but the name occupies {ref[1]} octet(s) there: the caller continues parsing at the wrong offset"
                                          + (" (a name that consumes nothing makes scanning loops spin)" if v[1] <= 0 else ""))
            if thorough:
                # the cache must be transparent: decoding with the cache filled by earlier offsets gives the same answer
                it.reset_counters()
                o2 = it.run(DN, fn.name, buf, off, shared)
                if _sig(o2) != _sig(o):
                    bad_len = bad_len or f"{show}: with the name cache filled by the earlier offsets the result is {o2!r}, with an empty cache {o!r}"
    ctx.cells += runs
    ctx.require(runs >= 1000 and loops >= 50 and decoded >= 200, f"R25.1: the bounded model collapsed ({runs} runs, {loops} looping and {decoded} well-formed names by the reference)")
    ctx.check(bad_term is None, "R25.1", where, "name decompression terminates; every offset is unpacked at most once at a time", bad_term or "",
              desc=f"{runs} (buffer, offset) pairs interpreted: all terminate, at most {deepest} nested activations, never more than offsets + 1")
    ctx.check(bad_exc is None, "R25.1", where, "pointer loops and malformed names raise struct.error", bad_exc or "",
              desc=f"{loops} looping names and every malformed one raise struct.error; nothing else is raised")
    ctx.check(bad_len is None, "R25.1", where, "a decoded name consumes exactly its wire length", bad_len or "",
              desc=f"{decoded} well-formed names: whenever decoded they consume exactly the octets the reference decoder assigns them (>= 1)")
    ctx.bounds.append(f"R25.1: all byte strings over {{00,01,02,03,c0}} up to length {5 if thorough else 4} at every offset, plus hand-written chains / cycles")
    ctx.expect_instances("R25.1", 3)


# ---------------------------------------------------------------------------------------------------
# R25.2  encoder and decoder agree on the RFC 1035 layout (both interpreted, each against the independent reference)

_BASE = {"id": 0x1234, "query": True, "op_code": 0, "authoritative_answer": False, "truncation": False, "recursion_desired": False,
         "recursion_available": False, "reserved": 0, "response_code": 0, "questions": [("example.com", 1, 1)], "answers": [], "authorities": [],
         "additionals": []}


def _flag_family():
    out = [dict(_BASE)]
    for f, sh, w, inv in FLAG_FIELDS:
        if w == 1:
            out.append({**_BASE, f: not _BASE[f]})
        else:
            out += [{**_BASE, f: 1 << b} for b in range(w)] + [{**_BASE, f: (1 << w) - 1}]
    out.append({**_BASE, **{f: (True if w == 1 else (1 << w) - 1) for f, sh, w, inv in FLAG_FIELDS}})
    out.append({**_BASE, **{f: (False if w == 1 else 0) for f, sh, w, inv in FLAG_FIELDS}})
    out += [{**_BASE, "id": v} for v in (0, 1, 0x00FF, 0x8000, 0xFFFF)]
    return out


def _out_of_range():
    out = []
    for f, sh, w, inv in FLAG_FIELDS:
        if w > 1:
            out += [(f, 1 << w), (f, -1)]
    return out + [("id", 1 << 16), ("id", -1)]


def _body_family():
    rr = lambda n, t, c, ttl, d: (n, t, c, ttl, d)  # noqa: E731
    return [
        {**_BASE, "query": False, "questions": [("a.example.com", 28, 1), ("b.example.org", 16, 3)],
         "answers": [rr("a.example.com", 1, 1, 70000, b"\x7f\x00\x00\x01")],
         "authorities": [rr("example.com", 16, 3, 1, b"\x02hi"), rr("b.example.org", 99, 4, 0x01020304, b"")],
         "additionals": [rr("x.example.net", 257, 1, 5, bytes(range(40))), rr("a.example.com", 1, 255, 0xFFFFFFFF, b"\x0a\x00\x00\x02"), rr("", 41, 1232, 0, b"\x00\x0a\x00\x08" + b"\x11" * 8)]},
        {**_BASE, "questions": [], "additionals": [rr("example.com", 16, 1, 300, b"\x05hello")]},
        {**_BASE, "questions": [("example.com", 255, 255)], "answers": [rr("example.com", 1, 1, 2, b"\x01\x02\x03\x04"), rr("example.com", 1, 1, 3, b"\x05\x06\x07\x08")]},
        # a big message: an owner name that first occurs beyond offset 0x3fff (where a 14-bit compression pointer cannot reach) and is used again
        {**_BASE, "query": False, "answers": [rr("big.example.com", 16, 1, 60, b"\x41" * 16400), rr("late.example.net", 1, 1, 60, b"\x0a\x00\x00\x03"),
                                             rr("late.example.net", 28, 1, 60, bytes(range(16))), rr("late.example.net", 16, 1, 60, b"\x02ok")]},
    ]


def _roundtrip(it, msg, encodings):
    """-> reason why encoder / decoder disagree with the reference on ``msg`` or None"""
    o = packed(it, msg)
    if o[0] != "ok":
        return f"DNSMessage.packed of a well-formed message ({_brief(msg)}) {o[0]}s {o[1]}"
    try:
        back = ref_decode(o[1])
    except RefError as e:
        return f"DNSMessage.packed emits {o[1].hex(' ')} for {_brief(msg)}, which is not a DNS message ({e})"
    if public(back) != msg or back["_length"] != len(o[1]):
        return f"DNSMessage.packed emits {o[1][:24].hex(' ')}... for {_brief(msg)}, which an RFC 1035 decoder reads differently ({diff(back, msg) or 'trailing bytes'})"
    for compress in encodings:
        wire = ref_encode(msg, compress=compress)
        u = unpack_from(it, wire)
        if u[0] != "ok":
            return f"DNSMessage.unpack_from {u[0]}s {u[1]} on the RFC 1035 encoding{' (owner names compressed)' if compress else ''} of {_brief(msg)}"
        n, got = u[1]
        if got != msg:
            return f"DNSMessage.unpack_from reads the RFC 1035 encoding {wire[:24].hex(' ')}... of {_brief(msg)} differently ({diff(got, msg)})"
        if n != len(wire):
            return f"DNSMessage.unpack_from reports length {n} for a message of {len(wire)} octets"
    return None


def _brief(msg):
    d = {k: v for k, v in msg.items() if v != _BASE.get(k)}
    return ", ".join(f"{k}={v!r}" for k, v in d.items())[:160] or "the base query"


def _r25_2(ctx):
    un, pk = ctx.func(DNS, "DNSMessage.unpack_from"), ctx.func(DNS, "DNSMessage.packed")
    require_fields(ctx.model)
    it = DnsInterp(ctx.model, max_steps=2_000_000)
    bad = []
    fam = _flag_family()
    for msg in fam:
        ctx.cells += 1
        r = _roundtrip(it, msg, (False,))
        if r and r not in bad:
            bad.append(r)
    for f, v in _out_of_range():
        ctx.cells += 1
        o = packed(it, {**_BASE, f: v})
        if o[0] == "ok":
            bad.append(f"DNSMessage.packed accepts {f}={v}, which does not fit its header field, and emits {o[1][:4].hex(' ')}...: the value spills into / is cut off from the neighbouring bits")
    ctx.check(not bad, "R25.2", (DNS, "DNSMessage.packed", pk), "flag bit layout packed vs unpack_from", "; ".join(bad[:3]),
              desc=f"{len(fam)} header variants (every flag bit alone, all, none, id corners): packed and unpack_from agree with the RFC 1035 layout; out-of-range fields are refused")
    bad = []
    fam = _body_family()
    for msg in fam:
        ctx.cells += 1
        r = _roundtrip(it, msg, (False, True))
        if r and r not in bad:
            bad.append(r)
    ctx.check(not bad, "R25.2", (DNS, "DNSMessage.unpack_from", un), "word order and struct formats packed vs unpack_from", "; ".join(bad[:3]),
              desc=f"{len(fam)} messages with distinct counts / types / classes / 32-bit TTLs in every section (one > 16 KiB with a late, repeated owner name): header words, question words, record words and sections agree")
    ctx.expect_instances("R25.2", 2)


# ---------------------------------------------------------------------------------------------------
# R25.3


def _call_sites(model, fname):
    out = []
    for m in modules_mentioning(model, fname + "("):
        for n in walk_in_order(m.tree):
            if isinstance(n, ast.Call) and norm(n.func).split(".")[-1] == fname:
                out.append((m, n))
    return out


def _never_written(fn, name) -> bool:
    return not any(w == name or w.startswith(name + ".") for _, w in _writes(fn))


def _params(fn):
    a = fn.args
    return [x.arg for x in a.posonlyargs + a.args + a.kwonlyargs]


class _Lin:
    """linear forms over the names of one function: {term: coefficient, '#': constant}; single-assignment temporaries whose
    right-hand side only mentions names that are never rebound are replaced by their definition"""

    def __init__(self, fn):
        self.fn = fn
        self._temps: dict = {}

    def temp(self, name):
        if name in self._temps:
            return self._temps[name]
        self._temps[name] = None
        fn = self.fn
        if name in _params(fn):
            return None
        binds = [w for _, w in _writes(fn) if w == name]
        defs = [n for n in _own_nodes(fn) if isinstance(n, (ast.Assign, ast.AnnAssign)) and n.value is not None
                and any(isinstance(t, ast.Name) and t.id == name for t in (n.targets if isinstance(n, ast.Assign) else [n.target]))]
        if len(binds) != 1 or len(defs) != 1:
            return None
        rhs = defs[0].value
        if not all(_never_written(fn, x.id) for x in ast.walk(rhs) if isinstance(x, ast.Name)):
            return None
        self._temps[name] = self.of(rhs)
        return self._temps[name]

    @staticmethod
    def _add(a, b, k=1):
        out = dict(a)
        for t, c in b.items():
            out[t] = out.get(t, 0) + k * c
        return {t: c for t, c in out.items() if c != 0 or t == "#"}

    def of(self, e):
        if isinstance(e, ast.Constant) and isinstance(e.value, int) and not isinstance(e.value, bool):
            return {"#": e.value}
        if isinstance(e, ast.Name):
            t = self.temp(e.id)
            return t if t is not None else {e.id: 1}
        if isinstance(e, ast.BinOp) and isinstance(e.op, (ast.Add, ast.Sub)):
            a, b = self.of(e.left), self.of(e.right)
            if a is None or b is None:
                return None
            return self._add(a, b, 1 if isinstance(e.op, ast.Add) else -1)
        if isinstance(e, ast.UnaryOp) and isinstance(e.op, ast.USub):
            a = self.of(e.operand)
            return None if a is None else self._add({}, a, -1)
        if isinstance(e, ast.Call) and isinstance(e.func, ast.Name) and e.func.id == "len" and len(e.args) == 1 and isinstance(e.args[0], ast.Name):
            return {f"len({e.args[0].id})": 1}
        if isinstance(e, ast.Attribute) and attr_chain(e):
            return {attr_chain(e): 1}
        return None

    def strict_facts(self, node):
        """[(L, R)] with L < R known to hold when ``node`` is evaluated"""
        out = []
        for e, v in guards_at(node, self.fn):
            if not (isinstance(e, ast.Compare) and len(e.ops) == 1):
                continue
            l, r, op = e.left, e.comparators[0], type(e.ops[0])
            if (op is ast.Lt and v) or (op is ast.GtE and not v):
                out.append((l, r))
            elif (op is ast.Gt and v) or (op is ast.LtE and not v):
                out.append((r, l))
        return out


def _len_established(model, fn, base, bound, depth=0):
    """every caller of ``fn`` calls it with len(<base argument>) >= <bound argument> established -> number of call sites, else 0"""
    if depth > 3:
        return 0
    params = [a.arg for a in fn.args.posonlyargs + fn.args.args]
    sites = [(m, c) for m, c in _call_sites(model, fn.name)]
    if not sites:
        return 0
    total = 0
    for m, c in sites:
        ps = params[1:] if params[:1] in (["self"], ["cls"]) and isinstance(c.func, ast.Attribute) else params
        args = {ps[i]: a for i, a in enumerate(c.args) if i < len(ps) and not isinstance(a, ast.Starred)}
        args.update({k.arg: k.value for k in c.keywords if k.arg})
        if base not in args or bound not in args:
            return 0
        ef = enclosing_func(c)
        if ef is None:
            return 0
        b, e = norm(args[base]), norm(args[bound])
        if ef is fn and (b, e) == (base, bound) and _never_written(fn, base) and _never_written(fn, bound):
            continue  # recursion that passes both on unchanged
        ok = False
        for g, v in guards_at(c, ef):
            if not (isinstance(g, ast.Compare) and len(g.ops) == 1):
                continue
            l, r, op = norm(g.left), norm(g.comparators[0]), type(g.ops[0])
            if (l, r) == (f"len({b})", e) and ((op is ast.Lt and not v) or (op is ast.GtE and v)):
                ok = True
            if (l, r) == (e, f"len({b})") and ((op is ast.Gt and not v) or (op is ast.LtE and v)):
                ok = True
        if ok:
            total += 1
            continue
        # passed through unchanged from the caller's own parameters: the obligation moves one level up
        if (isinstance(args[base], ast.Name) and isinstance(args[bound], ast.Name) and b in _params(ef) and e in _params(ef)
                and _never_written(ef, b) and _never_written(ef, e) and ef is not fn):
            n = _len_established(model, ef, b, e, depth + 1)
            if n:
                total += n
                continue
        return 0
    return total


def _arity(fn, e, depth=0):
    """number of elements of the tuple ``e`` evaluates to inside ``fn`` when that is evident from the code, else None"""
    if isinstance(e, ast.Tuple) and not any(isinstance(x, ast.Starred) for x in e.elts):
        return len(e.elts)
    if isinstance(e, ast.Name) and depth < 3:
        binds = [w for _, w in _writes(fn) if w == e.id]
        defs = [n for n in _own_nodes(fn) if isinstance(n, (ast.Assign, ast.AnnAssign)) and n.value is not None
                and any(isinstance(t, ast.Name) and t.id == e.id for t in (n.targets if isinstance(n, ast.Assign) else [n.target]))]
        if defs and len(binds) == len(defs):
            ar = {_arity(fn, d.value, depth + 1) for d in defs}
            if len(ar) == 1:
                return ar.pop()
    return None


def _return_arity(f):
    """arity of the tuple ``f`` returns: evident from every return statement, or declared (`-> tuple[A, B]`, checked by the repository's mypy run)"""
    rets = [n for n in _own_nodes(f) if isinstance(n, ast.Return)]
    ar = {_arity(f, r.value) if r.value is not None else None for r in rets}
    if len(ar) == 1 and rets and None not in ar:
        return ar.pop()
    ann = f.returns
    if isinstance(ann, ast.Constant) and isinstance(ann.value, str):
        try:
            ann = ast.parse(ann.value, mode="eval").body
        except SyntaxError:
            return None
    if isinstance(ann, ast.Subscript) and norm(ann.value).split(".")[-1] in ("tuple", "Tuple"):
        elts = ann.slice.elts if isinstance(ann.slice, ast.Tuple) else [ann.slice]
        if elts and not any(isinstance(x, ast.Constant) and x.value is Ellipsis for x in elts):
            return len(elts)
    return None


def _make_discharge(ctx, bounded):
    model = ctx.model

    def tuple_index_discharge(fr, node):
        # res = f(..) ... res[0]: f returns a tuple display of evident arity on every path
        if not (isinstance(node, ast.Subscript) and isinstance(node.value, ast.Name) and isinstance(node.slice, ast.Constant) and isinstance(node.slice.value, int)):
            return None
        c, name, fn = node.slice.value, node.value.id, fr.fn
        binds = [w for _, w in _writes(fn) if w == name]
        defs = [n for n in _own_nodes(fn) if isinstance(n, (ast.Assign, ast.AnnAssign)) and n.value is not None
                and any(isinstance(t, ast.Name) and t.id == name for t in (n.targets if isinstance(n, ast.Assign) else [n.target]))]
        if not defs or len(binds) != len(defs):
            return None
        least = None
        for d in defs:
            ar = _arity(fn, d.value)
            if ar is None and isinstance(d.value, ast.Call):
                t = fr.resolve_call(d.value)
                if t is not None and t[0] == "fn":
                    ar = _return_arity(t[2])
            if ar is None:
                return None
            least = ar if least is None else min(least, ar)
        if (c >= 0 and c < least) or (c < 0 and -c <= least):
            return f"{name} is always bound to a tuple of {least} elements (tuple displays / the callee's declared fixed-size tuple), index {c} exists"
        return None

    def index_discharge(fr, node):
        # buffer[offset + data_offset] in decompress_from_record_data: index < end_data <= len(buffer)
        if not isinstance(node, ast.Subscript) or not isinstance(node.value, ast.Name):
            return None
        fn = fr.fn
        params = [a.arg for a in fn.args.posonlyargs + fn.args.args]
        base = node.value.id
        if base not in params or not _never_written(fn, base):
            return None
        lin = _Lin(fn)
        idx = lin.of(node.slice)
        if idx is None:
            return None
        for l, r in lin.strict_facts(node):
            L, R = lin.of(l), lin.of(r)
            if L is None or R is None:
                continue
            gap = lin._add(R, L, -1)  # >= 1
            for p in params:
                if p == base or not _never_written(fn, p):
                    continue
                rest = lin._add(lin._add({p: 1}, idx, -1), gap, -1)  # (p - index) - (R - L)
                if all(c == 0 for t, c in rest.items() if t != "#") and rest.get("#", 0) >= 0:
                    n = _len_established(model, fn, base, p)
                    if n:
                        return (f"index {norm(node.slice)} < {p} follows from the guard {norm(l)} < {norm(r)}, and every caller ({n}) established "
                                f"len({base}) >= {p} before the call; offsets are non-negative counters")
        return None

    def case_guard_discharge(fr, node):
        # `case ... if key in table: ... table[key]`: the membership test of the enclosing match-case guard dominates the read
        if not isinstance(node, ast.Subscript):
            return None
        key, cont = norm(node.slice), norm(node.value)
        child, p = node, getattr(node, "_parent", None)
        while p is not None and p is not fr.fn:
            if isinstance(p, ast.match_case) and p.guard is not None and any(child is st for st in p.body):
                conj = p.guard.values if isinstance(p.guard, ast.BoolOp) and isinstance(p.guard.op, ast.And) else [p.guard]
                for g in conj:
                    if (isinstance(g, ast.Compare) and len(g.ops) == 1 and isinstance(g.ops[0], ast.In) and norm(g.left) == key and norm(g.comparators[0]) == cont):
                        at, use = (p.guard.end_lineno, p.guard.end_col_offset), (node.lineno, node.col_offset)
                        names = {x.id for x in ast.walk(node) if isinstance(x, ast.Name)}
                        if not any(at <= pos < use and w.split(".")[0] in names for pos, w in _writes(fr.fn)):
                            return f"`{key} in {cont}` holds: it is the guard of the enclosing match case"
            child, p = p, getattr(p, "_parent", None)
        return None

    def discharge(fr, exc, node, why):
        if exc in ("KeyError", "IndexError") and why.startswith("trusted container"):
            return case_guard_discharge(fr, node)
        if exc == "IndexError":
            return index_discharge(fr, node) or tuple_index_discharge(fr, node)
        if exc == "AssertionError" and isinstance(node, ast.Assert):
            seen = bounded().get((fr.mod.rel, node.lineno, node.col_offset))
            if seen and seen[0] >= 5 and seen[1] == 0:
                return (f"`{norm(node)[:60]}` was evaluated {seen[0]} times in the bounded model of DNSMessage.unpack (well-formed messages, every kind of "
                        "truncation, boundary-value byte mutations) and held every time: an invariant of the code, not a check of the input")
        return None

    return discharge


def _logging_object(mod, e) -> bool:
    """``e`` denotes the logging module or a module-level logger (NAME = logging.getLogger(..))"""
    if not isinstance(e, ast.Name):
        return False
    if mod.imports.get(e.id) == "logging":
        return True
    vals = mod.assigns(e.id)
    if len(vals) == 1 and isinstance(vals[0], ast.Call):
        f = vals[0].func
        if isinstance(f, ast.Attribute) and f.attr == "getLogger" and isinstance(f.value, ast.Name) and mod.imports.get(f.value.id) == "logging":
            return True
        if isinstance(f, ast.Name) and mod.imports.get(f.id) == "logging.getLogger":
            return True
    return False


_LOG_METHODS = ("debug", "info", "warning", "warn", "error", "exception", "critical", "log")


def _dynamic(fr, call):
    f = call.func
    if not isinstance(f, ast.Attribute) or not isinstance(f.value, ast.Name):
        return None
    # logging swallows everything that goes wrong while formatting / emitting a record: a log call raises nothing
    if f.attr in _LOG_METHODS and not fr._is_local(f.value.id) and _logging_object(fr.mod, f.value):
        return ("raises", (), None)
    # `cls.helper(..)` / `self.helper(..)` inside a closure of a method: cls / self is the enclosing method's
    if f.value.id in ("self", "cls") and fr.cls is not None and not fr._is_local(f.value.id):
        g = enclosing_func(fr.fn)
        while g is not None:
            if f.value.id in [a.arg for a in g.args.posonlyargs + g.args.args][:1]:
                r = fr.eng.model.method(fr.mod.rel, fr.cls._qual, f.attr)
                if r is not None:
                    return [(r[0].rel, r[1]._qual)]
                return None
            g = enclosing_func(g)
    return None


def _recursion_bounds(ctx) -> dict:
    """{'rel::function': reason} for the repository functions whose recursion depth on a *long* pointer chain stays far below the
    interpreter's recursion limit: the name decoder is interpreted on a chain of 1200 forward pointers (2.4 kB - an ordinary size for
    a DNS message) and must stop by itself (struct.error) with a small number of live activations."""
    import sys

    n = 1200
    chain = b"".join(struct.pack("!H", 0xC000 | (2 * i + 2)) for i in range(n)) + b"\x00"
    it = DnsInterp(ctx.model, max_steps=3_000_000, max_depth=400)
    old = sys.getrecursionlimit()
    sys.setrecursionlimit(max(old, 40000))
    try:
        o = it.run(DN, NAME_FN, chain, 0, {})
    finally:
        sys.setrecursionlimit(old)
    ctx.cells += 1
    deepest = max(it.max_nesting.values(), default=0)
    if o != ("raise", STRUCT_ERROR) or deepest > 250:
        return {}
    why = f"interpreted on a chain of {n} compression pointers the name decoder gives up with struct.error at {deepest} live activations: the depth is bounded by the code, not by the input"
    return {f"{rel}::{name}": why for (rel, name), k in it.max_nesting.items() if k > 1}


class _DecoderModel:
    """bounded model of DNSMessage.unpack, interpreted: well-formed messages, truncations, boundary-value mutations.
    Used (a) to find concrete escapes and (b) to tell invariants stated as ``assert`` from input checks written as ``assert``."""

    MUT = (0x00, 0x3F, 0x40, 0xBF, 0xC0, 0xC1, 0xFF)

    def __init__(self, ctx):
        self.ctx = ctx
        self.asserts = None
        self.escapes: dict = {}
        self.runs = 0

    @staticmethod
    def messages():
        q = ("example.com", 15, 1)
        base = {**_BASE, "query": False, "recursion_desired": True, "recursion_available": True, "questions": [q]}
        wire = bytearray(ref_encode({**base, "answers": [], "authorities": [], "additionals": []}))
        # hand-assembled so that RDATA carries compressed names: MX, SOA (two names + five counters), TXT with pointer-like octets, A
        def rr(owner, t, ttl, rdata):
            return owner + struct.pack("!HHIH", t, 1, ttl, len(rdata)) + rdata
        ptr_q = b"\xc0\x0c"
        recs = [
            rr(ptr_q, 15, 300, b"\x00\x0a\x04mail" + ptr_q),
            rr(ptr_q, 6, 3600, b"\x02ns" + ptr_q + b"\x0ahostmaster" + ptr_q + struct.pack("!IIIII", 2024010101, 7200, 900, 1209600, 300)),
            rr(b"\x03txt" + ptr_q, 16, 60, b"\x05hello\xc0\x0c\xff"),
            rr(b"\x0dxn--bcher-kva" + ptr_q, 1, 5, b"\x7f\x00\x00\x01"),
        ]
        query = bytes(wire)
        wire[6:12] = struct.pack("!HHH", 1, 1, 2)
        return [query, bytes(wire) + b"".join(recs)]

    def get(self):
        if self.asserts is None:
            self.run()
        return self.asserts

    def run(self):
        ctx = self.ctx
        it = DnsInterp(ctx.model, max_steps=5_000_000, max_depth=48)
        thorough = ctx.tier == "thorough"
        inputs = []
        for wire in self.messages():
            inputs.append(wire)
            inputs += [wire[:n] for n in range(0, len(wire), 1 if thorough else 4)]
            inputs.append(wire + b"\x00")
            for i in range(0, len(wire), 1 if thorough else 3):
                for k, v in enumerate(self.MUT):
                    if (i + k) % len(self.MUT) == 0 or (thorough and (i + k) % len(self.MUT) == 3):
                        inputs.append(wire[:i] + bytes([v]) + wire[i + 1:])
        ok = 0
        for buf in dict.fromkeys(inputs):
            o = unpack(it, buf)
            self.runs += 1
            if o[0] == "ok":
                ok += 1
            elif o[0] == "diverge":
                self.escapes.setdefault("<does not terminate>", (buf, o[1]))
            elif o[1] != STRUCT_ERROR:
                self.escapes.setdefault(o[1], (buf, ""))
        # the layer's reader in front of the decoder (DNS over TCP framing): well-formed stream whole / in pieces, zero and oversized
        # length prefixes, a truncated and a corrupted message behind a correct prefix; datagrams
        query, full = self.messages()
        frame = lambda b: struct.pack("!H", len(b)) + b  # noqa: E731
        stream = frame(query) + frame(full)
        feeds = [[stream], [stream[:1], stream[1:40], stream[40:]], [stream[:2], stream[2:len(query) + 3], stream[len(query) + 3:-1], stream[-1:]], [frame(full) + frame(query) + frame(full)], [frame(query)[:-3]], [b"\x00\x00" + query], [struct.pack("!H", len(full)) + full[:-5] + frame(query)],
                 [frame(full[:40])], [frame(query[:3])], [b"\xff"], [b""]]
        framed_ok = 0
        for proto, chunks in [("tcp", f) for f in feeds] + [("udp", [full]), ("udp", [full[:30]]), ("udp", [b""])]:
            me = layer_self(proto)
            for chunk in chunks:
                o = layer_unpack(it, me, chunk)
                self.runs += 1
                if o[0] == "ok":
                    framed_ok += len(o[1])
                elif o[0] == "diverge":
                    self.escapes.setdefault("<does not terminate>", (chunk, o[1]))
                elif o[1] != STRUCT_ERROR:
                    self.escapes.setdefault(o[1], (chunk, ""))
                if o[0] != "ok":
                    break
        ctx.cells += self.runs
        ctx.require(ok >= 2 and framed_ok >= 5, "the bounded model of DNSMessage.unpack / DNSLayer.unpack_message decodes none of its well-formed messages (model out of date)")
        self.asserts = dict(it.asserts)
        ctx.note(f"R25.3: bounded model of DNSMessage.unpack and the layer's reader: {self.runs} byte strings interpreted, {ok} + {framed_ok} decode, the others raise struct.error"
                 + (f"; escapes {sorted(self.escapes)}" if self.escapes else ""))


def _is_generator(f) -> bool:
    return any(isinstance(n, (ast.Yield, ast.YieldFrom)) for n in _own_nodes(f))


def _mentions(expr, env) -> bool:
    for n in ast.walk(expr):
        if isinstance(n, ast.Name) and env.get(n.id):
            return True
        if isinstance(n, ast.Attribute) and env.get(attr_chain(n) or ""):
            return True
    return False


def _tainted_locals(f, env) -> dict:
    """``env`` + every local of ``f`` that is assigned (anywhere in f: flow-insensitive, an over-approximation) from an expression that
    mentions untrusted data"""
    env = dict(env)
    for _ in range(6):
        grew = False
        for n in _own_nodes(f):
            tg, val = [], None
            if isinstance(n, ast.Assign):
                tg, val = n.targets, n.value
            elif isinstance(n, (ast.AnnAssign, ast.NamedExpr)) and n.value is not None:
                tg, val = [n.target], n.value
            if val is None or not _mentions(val, env):
                continue
            for t in tg:
                for x in ast.walk(t):
                    if isinstance(x, ast.Name) and isinstance(x.ctx, ast.Store) and not env.get(x.id):
                        env[x.id] = "V"
                        grew = True
        if not grew:
            break
    return env


def _unpack_chains(ctx, fn, depth=0, seen=()):
    """every way from ``fn`` to a call of self.unpack_message through methods of the layer called on self:
    [[(function, call node), ...]] - the last pair is the function containing the call of unpack_message and that call"""
    out = []
    for n in walk_in_order(fn):
        if not (isinstance(n, ast.Call) and isinstance(n.func, ast.Attribute) and isinstance(n.func.value, ast.Name) and n.func.value.id == "self"):
            continue
        if n.func.attr == "unpack_message":
            out.append([(fn, n)])
            continue
        if depth >= 3 or n.func.attr in seen:
            continue
        r = ctx.model.method(LAYER, "DNSLayer", n.func.attr)
        if r is None or r[0].rel != LAYER or not isinstance(r[1], (ast.FunctionDef, ast.AsyncFunctionDef)) or r[1] is fn:
            continue
        for sub in _unpack_chains(ctx, r[1], depth + 1, seen + (n.func.attr,)):
            out.append([(fn, n)] + sub)
    return out


def _r25_3(ctx):
    fn = ctx.func(LAYER, "DNSLayer.state_query")
    for q in ("DNSMessage.unpack", "DNSMessage.unpack_from"):
        ctx.func(DNS, q)
    for q in (NAME_FN, "decompress_from_record_data", "pack"):
        ctx.func(DN, q)
    ctx.func(LAYER, "DNSLayer.unpack_message")

    # the guarded region is found by ROLE: the call of self.unpack_message reachable from state_query (directly or through helper methods of
    # the layer, whatever they are called), and the handlers that are active when it runs: the `try` statements around the call in its own
    # function and around the call sites of the helpers on the way down from state_query.
    chains = _unpack_chains(ctx, fn)
    ctx.require(len(chains) == 1, f"DNSLayer.state_query: {len(chains)} calls of self.unpack_message are reachable from it (exactly one is modelled)")
    chain = chains[0]  # [(function, call node in it), ...] from state_query down to the call of unpack_message
    # untrusted: the received bytes - event.data, the event that carries them, any local that holds them, and what the helpers are passed of it
    env = _tainted_locals(fn, {"event.data": "V", "event": "V"})
    for (g, call), (g2, _) in zip(chain, chain[1:]):
        ps = [a.arg for a in g2.args.posonlyargs + g2.args.args]
        ps = ps[1:] if "staticmethod" not in [norm(d) for d in g2.decorator_list] else ps
        ctx.require(not any(isinstance(a, ast.Starred) for a in call.args) and not any(k.arg is None for k in call.keywords),
                    f"DNSLayer.{g.name}: `{norm(call)[:60]}` passes */** arguments (not modelled)")
        bound = {ps[i]: a for i, a in enumerate(call.args) if i < len(ps)}
        bound.update({k.arg: k.value for k in call.keywords})
        env = _tainted_locals(g2, {p: "V" for p, a in bound.items() if _mentions(a, env)})
    site_fn, site_call = chain[-1]
    site_qual = site_fn._qual
    levels = []  # innermost first: (function, Try, handler class names)
    model = _DecoderModel(ctx)
    mr = MayRaise(ctx, Config(discharge=_make_discharge(ctx, model.get), dynamic=_dynamic, bounded_recursion=_recursion_bounds(ctx)))
    lmod = mr.model.module(LAYER)
    for i in range(len(chain) - 1, -1, -1):
        g, node = chain[i]
        if i < len(chain) - 1 and _is_generator(chain[i + 1][0]):
            # the helper below is a generator: its body (and what it raises) runs where it is iterated - that must be right here
            p = getattr(node, "_parent", None)
            eager = isinstance(p, ast.YieldFrom) or (isinstance(p, (ast.For, ast.comprehension)) and p.iter is node) or (
                isinstance(p, ast.Call) and norm(p.func) in ("list", "tuple") and p.args[:1] == [node])
            ctx.require(eager, f"DNSLayer.{g.name}: the generator `{norm(node)[:50]}` is not iterated where it is created (not modelled)")
        child, p = node, getattr(node, "_parent", None)
        while p is not None and child is not g:
            if isinstance(p, ast.Try) and any(child is st for st in p.body):
                names = []
                for h in p.handlers:
                    names += ["BaseException"] if h.type is None else mr.handler_names(lmod, h.type)
                levels.append((g, p, names))
            child, p = p, getattr(p, "_parent", None)
    t = levels[0][1] if levels else site_call
    region = [ast.copy_location(ast.Expr(value=site_call), site_call)]  # the call itself: what follows it in the try body is not decoding
    esc = mr.region(LAYER, site_qual, region, env)
    key = mr.key_of_region(LAYER, site_qual, env)
    need = {f"{LAYER}::DNSLayer.unpack_message", f"{DNS}::DNSMessage.unpack", f"{DNS}::DNSMessage.unpack_from", f"{DN}::{NAME_FN}", f"{DN}::decompress_from_record_data", f"{DN}::pack"}
    ctx.require(mr.sites >= 15 and need <= set(mr.functions), f"escape analysis collapsed: {mr.sites} raiser sites in {sorted(mr.functions)}")
    ctx.paths += mr.sites
    for f in mr.functions:
        ctx.functions.add(f)
    model.get()
    handled = []
    for _, _, names in levels:
        handled += [n for n in names if n not in handled]
    bad = sorted((e for e in esc if not any(mr.h.isa(e.exc, h) for h in handled)), key=lambda e: (e.exc, e.rel, e.qual, e.text))
    for typ in sorted({e.exc for e in bad}):
        first = next(e for e in bad if e.exc == typ)
        ctx.fail("R25.3", (LAYER, "DNSLayer.state_query", t), f"{typ} escapes DNSMessage.unpack",
                 f"{typ} raised at {first.site()} ({first.why}) is not handled (handled: {handled}); call chain: " + " -> ".join(mr.chain(key, first)),
                 chain=mr.chain(key, first), sites=[e.site() for e in bad if e.exc == typ][:8])
    # concrete escapes of the bounded model: a witness, whatever the static analysis says
    witnessed = 0
    for typ, (buf, msg) in sorted(model.escapes.items()):
        if typ != "<does not terminate>" and typ in mr.h.parents and any(mr.h.isa(typ, h) for h in handled):
            continue
        witnessed += 1
        if any(e.exc == typ for e in bad):
            continue
        ctx.fail("R25.3", (LAYER, "DNSLayer.state_query", t), f"{typ} escapes DNSMessage.unpack",
                 f"interpreting DNSMessage.unpack on the {len(buf)} octets {buf[:48].hex(' ')}{'...' if len(buf) > 48 else ''} ends with {typ} {msg}(handled: {handled})", message=buf.hex())
    if not bad and not witnessed:
        ctx.ok("R25.3", f"{mr.sites} raiser sites in {len(mr.functions)} functions; escape set {sorted({e.exc for e in esc})} within handled {handled}")
    for k, v in sorted(mr.discharged.items()):
        ctx.assume(f"discharged: {k}: {v}")
    ctx.sample({"rule": "R25.3", "handled": handled, "escape_set": sorted({e.exc for e in esc}), "discharged": dict(mr.discharged),
                "functions": sorted(mr.functions)})
    ctx.expect_instances("R25.3", 1)


# ---------------------------------------------------------------------------------------------------
# R25.4  known-bits analysis of the encoder's bit-field compositions


class _Unb(tuple):
    """an operand for which no upper bound is established; carries the def-use chain that was followed"""

    def __new__(cls, *chain):
        return tuple.__new__(cls, chain)


_CYC = object()  # a variable reached again while it is being evaluated (`flags |= x`, `flags = flags | x`)
_READ_METHODS = ("get", "items", "keys", "values", "pop", "clear", "copy", "index", "count")


def _own_nodes(fn):
    """nodes of ``fn`` without the bodies of nested function definitions (those are analysed on their own)"""
    todo = list(ast.iter_child_nodes(fn))
    while todo:
        n = todo.pop()
        yield n
        if not isinstance(n, (ast.FunctionDef, ast.AsyncFunctionDef, ast.Lambda, ast.ClassDef)):
            todo.extend(ast.iter_child_nodes(n))


def _func_of(node):
    n = getattr(node, "_parent", None)
    while n is not None and not isinstance(n, (ast.FunctionDef, ast.AsyncFunctionDef)):
        n = getattr(n, "_parent", None)
    return n


def _qual(fn):
    q, n = [fn.name], getattr(fn, "_parent", None)
    while n is not None:
        if isinstance(n, (ast.FunctionDef, ast.AsyncFunctionDef, ast.ClassDef)):
            q.append(n.name)
        n = getattr(n, "_parent", None)
    return ".".join(reversed(q))


def _flatten_or(e):
    if isinstance(e, ast.BinOp) and isinstance(e.op, ast.BitOr):
        return _flatten_or(e.left) + _flatten_or(e.right)
    return [e]


def _exclusive(a, b) -> bool:
    """a and b sit in different arms of the same ``if``: they never both execute"""
    chain = []
    n = a
    while n is not None:
        chain.append(n)
        n = getattr(n, "_parent", None)
    prev, n = b, getattr(b, "_parent", None)
    while n is not None:
        if isinstance(n, ast.If) and n in chain:
            ca = chain[chain.index(n) - 1]
            in_body = lambda x: any(x is s for s in n.body)  # noqa: E731
            in_else = lambda x: any(x is s for s in n.orelse)  # noqa: E731
            return (in_body(ca) and in_else(prev)) or (in_else(ca) and in_body(prev))
        if n in chain:
            return False
        prev, n = n, getattr(n, "_parent", None)
    return False


class EncoderBits:
    """Possible-bit masks ("known bits") of the integer expressions the encoder composes with ``|``.

    Values are assumed non-negative (fields of a well-formed message, lengths, offsets).  An upper bound comes from
    a constant, from a guard that dominates the use (``if x > MAX: raise``, ``if x < N:``, early ``return``), from the
    bounds of everything a local variable is assigned, of every argument passed for a parameter by the callers inside the
    encoder, or of everything stored into a local container the value is loaded from.  A plain value (attribute, length,
    parameter, container element) for which no bound is found anywhere on that chain is *unbounded*; expression kinds the
    evaluator does not model raise AnalysisError."""

    def __init__(self, ctx, rel, qual):
        self.ctx = ctx
        self.model = ctx.model
        root_mod = self.model.module(rel)
        root = ctx.func(rel, qual)
        self.root = (rel, qual)
        self._dyn: dict = {}
        self._it = None
        self.funcs: dict[int, tuple] = {}
        self.calls: dict[int, list] = {}  # id(callee) -> [(module, caller fn, Call)]
        work = [(root_mod, root)]
        while work:
            m, f = work.pop()
            if id(f) in self.funcs:
                continue
            self.funcs[id(f)] = (m, f)
            for n in _own_nodes(f):
                if isinstance(n, (ast.FunctionDef, ast.AsyncFunctionDef)):
                    work.append((m, n))
                elif isinstance(n, ast.Call):
                    tgt = self.resolve_call(m, f, n)
                    if tgt is not None:
                        self.calls.setdefault(id(tgt[1]), []).append((m, f, n))
                        work.append(tgt)
        self._active: list = []

    # ---- resolution
    def resolve_call(self, m, f, call):
        fx = call.func
        if isinstance(fx, ast.Name):
            g = f
            while g is not None:
                for n in _own_nodes(g):
                    if isinstance(n, (ast.FunctionDef, ast.AsyncFunctionDef)) and n.name == fx.id:
                        return m, n
                g = _func_of(g)
        if isinstance(fx, ast.Attribute) and isinstance(fx.value, ast.Name) and fx.value.id in ("self", "cls"):
            c = getattr(f, "_parent", None)
            while c is not None and not isinstance(c, ast.ClassDef):
                c = getattr(c, "_parent", None)
            if c is not None and hasattr(c, "_qual"):
                r = self.model.method(m.rel, c._qual, fx.attr)
                if r is not None and isinstance(r[1], (ast.FunctionDef, ast.AsyncFunctionDef)):
                    return r
            return None
        r = self.model.resolve_name(m, fx)
        if r is not None and isinstance(r[1], (ast.FunctionDef, ast.AsyncFunctionDef)):
            return r
        if isinstance(fx, ast.Attribute) and isinstance(fx.value, ast.Name):
            # `rr._pack_into(out)` where rr iterates over self.<field> declared `list[Cls]`: the method of Cls
            c = self.element_class(m, f, fx.value.id)
            if c is not None:
                r = self.model.method(c[0].rel, c[1]._qual, fx.attr)
                if r is not None and isinstance(r[1], (ast.FunctionDef, ast.AsyncFunctionDef)):
                    return r
        return None

    def element_class(self, m, f, name):
        """class of the loop variable ``name``: `for name in self.a` / `(*self.a, *self.b)` / `chain(self.a, self.b)` with `a: list[Cls]`"""
        loops = [n for n in _own_nodes(f) if isinstance(n, (ast.For, ast.AsyncFor)) and isinstance(n.target, ast.Name) and n.target.id == name]
        if len(loops) != 1:
            return None
        it = loops[0].iter
        if isinstance(it, ast.Tuple):
            srcs = [e.value if isinstance(e, ast.Starred) else None for e in it.elts]
        elif isinstance(it, ast.Call) and norm(it.func).split(".")[-1] == "chain":
            srcs = list(it.args)
        else:
            srcs = [it]
        c = getattr(f, "_parent", None)
        while c is not None and not isinstance(c, ast.ClassDef):
            c = getattr(c, "_parent", None)
        if c is None or not hasattr(c, "_qual"):
            return None
        found = set()
        for src in srcs:
            if not (isinstance(src, ast.Attribute) and isinstance(src.value, ast.Name) and src.value.id == "self"):
                return None
            ann = None
            for cm, cd in self.model.mro(m.rel, c._qual):
                for st in cd.body:
                    if isinstance(st, ast.AnnAssign) and isinstance(st.target, ast.Name) and st.target.id == src.attr:
                        ann = (cm, st.annotation)
                        break
                if ann:
                    break
            if ann is None or not (isinstance(ann[1], ast.Subscript) and norm(ann[1].value).split(".")[-1].lower() in ("list", "sequence", "tuple", "iterable")):
                return None
            elem = ann[1].slice.elts[0] if isinstance(ann[1].slice, ast.Tuple) else ann[1].slice
            r = self.model.resolve_name(ann[0], elem)
            if r is None or not isinstance(r[1], ast.ClassDef):
                return None
            found.add((r[0].rel, r[1]._qual))
        if len(found) != 1:
            return None
        rel, qual = found.pop()
        return self.model.module(rel), self.model.cls(rel, qual)

    def const(self, m, e, depth=0):
        if isinstance(e, ast.Constant):
            if isinstance(e.value, bool):
                return int(e.value)
            return e.value if isinstance(e.value, int) else None
        if depth > 6:
            return None
        if isinstance(e, ast.Name):
            vals = m.assigns(e.id)
            return self.const(m, vals[0], depth + 1) if len(vals) == 1 else None
        if isinstance(e, ast.Attribute):
            if isinstance(e.value, ast.Name) and e.value.id in m.imports:
                tm = self.model.module_by_dotted(m.imports[e.value.id])
                if tm is not None:
                    vals = tm.assigns(e.attr)
                    return self.const(tm, vals[0], depth + 1) if len(vals) == 1 else None
            return None
        if isinstance(e, ast.UnaryOp) and isinstance(e.op, (ast.Invert, ast.USub, ast.UAdd)):
            v = self.const(m, e.operand, depth + 1)
            if v is None:
                return None
            return ~v if isinstance(e.op, ast.Invert) else -v if isinstance(e.op, ast.USub) else v
        if isinstance(e, ast.BinOp):
            a, b = self.const(m, e.left, depth + 1), self.const(m, e.right, depth + 1)
            if a is None or b is None:
                return None
            op = e.op
            try:
                if isinstance(op, ast.LShift) and 0 <= b <= 64:
                    return a << b
                if isinstance(op, ast.RShift) and 0 <= b <= 64:
                    return a >> b
                if isinstance(op, ast.BitOr):
                    return a | b
                if isinstance(op, ast.BitAnd):
                    return a & b
                if isinstance(op, ast.BitXor):
                    return a ^ b
                if isinstance(op, ast.Add):
                    return a + b
                if isinstance(op, ast.Sub):
                    return a - b
                if isinstance(op, ast.Mult):
                    return a * b
                if isinstance(op, ast.Pow) and 0 <= b <= 64:
                    return a**b
            except Exception:
                return None
        return None

    # ---- bounds from guards
    def guard_hi(self, m, f, node):
        """largest value the guards that dominate ``node`` allow for the expression ``node`` (None: no guard)"""
        text = norm(node)
        best = None
        facts = []
        for e, v in guards_at(node, f):
            if not isinstance(e, ast.Compare):
                continue
            if len(e.ops) == 1:
                facts.append((e.left, e.comparators[0], type(e.ops[0]), v))
            elif v:  # a chained comparison that holds: every link holds
                terms = [e.left] + list(e.comparators)
                facts.extend((terms[i], terms[i + 1], type(op), True) for i, op in enumerate(e.ops))
        for l, r, op, v in facts:
            if norm(l) == text:
                c = self.const(m, r)
            elif norm(r) == text:
                c = self.const(m, l)
                op = {ast.Lt: ast.Gt, ast.Gt: ast.Lt, ast.LtE: ast.GtE, ast.GtE: ast.LtE}.get(op, op)
            else:
                continue
            if c is None:
                continue
            hi = None
            if v:
                hi = {ast.Lt: c - 1, ast.LtE: c, ast.Eq: c}.get(op)
            else:
                hi = {ast.Gt: c, ast.GtE: c - 1, ast.NotEq: c}.get(op)
            if hi is not None and hi >= 0:
                best = hi if best is None else min(best, hi)
        return best

    # ---- masks
    @staticmethod
    def _join(parts):
        """union of contributions; unbounded wins, a cycle contributes nothing (least fix-point of an OR accumulation)"""
        out = 0
        for p in parts:
            if isinstance(p, _Unb):
                return p
            if p is _CYC:
                continue
            out |= p
        return out

    @staticmethod
    def _of_hi(hi):
        return (1 << hi.bit_length()) - 1

    def mask(self, m, f, e):
        """int mask of the bits that can be set in ``e`` | _Unb | _CYC"""
        c = self.const(m, e)
        if c is not None:
            return c if c >= 0 else _Unb(f"{norm(e)} is negative")
        hi = self.guard_hi(m, f, e)
        if hi is not None:
            return self._of_hi(hi)
        if isinstance(e, ast.BinOp):
            a, b = self.mask(m, f, e.left), self.mask(m, f, e.right)
            op = e.op
            if isinstance(op, ast.BitAnd):
                known = [x for x in (a, b) if isinstance(x, int)]
                if known:
                    out = known[0]
                    for x in known[1:]:
                        out &= x
                    return out
                # `x & ~K`: at most the bits of x
                return next((x for x in (a, b) if isinstance(x, _Unb) and "is negative" not in x[0]), a)
            if isinstance(op, ast.BitOr):
                return self._join([a, b])
            for x in (a, b):
                if x is _CYC:
                    return _Unb(f"{norm(e)} feeds back into itself")
            for x in (a, b):
                if isinstance(x, _Unb):
                    return x
            if isinstance(op, ast.BitXor):
                return a | b
            if isinstance(op, ast.Add):
                return self._of_hi(a + b)
            if isinstance(op, (ast.LShift, ast.RShift)):
                n = self.const(m, e.right)
                if n is None or not 0 <= n <= 64:
                    raise AnalysisError(f"R25.4: shift by a non-constant amount is not modelled: {norm(e)}")
                return a << n if isinstance(op, ast.LShift) else a >> n
            raise AnalysisError(f"R25.4: arithmetic in a bit-field operand is not modelled: {norm(e)}")
        if isinstance(e, ast.IfExp):
            return self._join([self.mask(m, f, e.body), self.mask(m, f, e.orelse)])
        if isinstance(e, ast.Compare) or (isinstance(e, ast.UnaryOp) and isinstance(e.op, ast.Not)):
            return 1  # a bool: 0 or 1
        key = id(e)
        if key in self._active:
            return _CYC
        self._active.append(key)
        try:
            if isinstance(e, ast.Name):
                return self.var_mask(m, f, e)
            if isinstance(e, ast.Attribute):
                if self.is_bool_field(m, f, e):
                    return 1
                hi = self.dynamic_bound(m, f, e)
                if hi is not None:
                    return self._of_hi(hi)
                return _Unb(f"{norm(e)} has no range check")
            if isinstance(e, ast.Call) and isinstance(e.func, ast.Name) and e.func.id == "bool" and len(e.args) == 1:
                return 1
            if isinstance(e, ast.Subscript) and isinstance(e.value, ast.Name):
                return self.element_mask(m, f, e)
            if isinstance(e, ast.Call) and isinstance(e.func, ast.Name) and e.func.id == "len" and len(e.args) == 1:
                return _Unb(f"{norm(e)} has no upper bound")
            if isinstance(e, ast.Call) and isinstance(e.func, ast.Name) and e.func.id == "int" and len(e.args) == 1:
                return self.mask(m, f, e.args[0])
        finally:
            self._active.pop()
        raise AnalysisError(f"R25.4: operand of a bit-field composition is not modelled: {norm(e)}")

    def dynamic_bound(self, m, f, e):
        """``self.x`` in a method of the message class, x a field: the largest value of x the *interpreted* encoder accepts when every
        probed larger value (next values, powers of two up to 2**40) is refused - however the range check is spelled (chained
        comparison, loop over field names with getattr, validating helper).  None: no such bound."""
        if not (isinstance(e.value, ast.Name) and e.value.id == "self"):
            return None
        c = getattr(f, "_parent", None)
        while c is not None and not isinstance(c, ast.ClassDef):
            c = getattr(c, "_parent", None)
        if c is None or (m.rel, getattr(c, "_qual", None)) != (self.root[0], self.root[1].rsplit(".", 1)[0]) or self.root != (DNS, "DNSMessage.packed"):
            return None
        if e.attr not in _BASE or isinstance(_BASE[e.attr], (bool, list)):
            return None
        if e.attr in self._dyn:
            return self._dyn[e.attr]
        self._dyn[e.attr] = None
        if self._it is None:
            self._it = DnsInterp(self.ctx.model, max_steps=3_000_000)
        accepted = lambda v: packed(self._it, {**_BASE, e.attr: v})[0] == "ok"  # noqa: E731
        if not accepted(0):
            return None
        k = next((k for k in range(0, 41) if not accepted(1 << k)), None)
        if k is None:
            return None
        lo, hi = (1 << k) >> 1, (1 << k)  # lo accepted (or 0), hi refused
        while hi - lo > 1:
            mid = (lo + hi) // 2
            if accepted(mid):
                lo = mid
            else:
                hi = mid
        probes = [lo + 1, lo + 2, 2 * lo + 1, 2 * lo + 2] + [1 << j for j in range(k, 41)] + [(1 << j) + lo for j in range(k, 41, 4)]
        if any(accepted(v) for v in probes):
            return None
        self.ctx.cells += 41 + len(probes)
        self.ctx.assume(f"R25.4: self.{e.attr} <= {lo}: the interpreted DNSMessage.packed accepts {lo} and refuses every larger value probed ({lo + 1}, {lo + 2}, powers of two up to 2**40)")
        self._dyn[e.attr] = lo
        return lo

    def is_bool_field(self, m, f, e) -> bool:
        """``self.x`` where the enclosing class (or a base) declares ``x: bool``"""
        if not (isinstance(e.value, ast.Name) and e.value.id == "self"):
            return False
        c = getattr(f, "_parent", None)
        while c is not None and not isinstance(c, ast.ClassDef):
            c = getattr(c, "_parent", None)
        if c is None or not hasattr(c, "_qual"):
            return False
        for cm, cd in self.model.mro(m.rel, c._qual):
            for st in cd.body:
                if isinstance(st, ast.AnnAssign) and isinstance(st.target, ast.Name) and st.target.id == e.attr:
                    return norm(st.annotation) == "bool"
        return False

    def _scope_of(self, f, name):
        """the function (f or an enclosing one) that binds ``name``, and how: 'param' | 'local'"""
        g = f
        while g is not None:
            a = g.args
            if name in [x.arg for x in a.posonlyargs + a.args + a.kwonlyargs] or name in (a.vararg.arg if a.vararg else None, a.kwarg.arg if a.kwarg else None):
                return g, "param"
            for n in _own_nodes(g):
                if isinstance(n, ast.Name) and n.id == name and isinstance(n.ctx, ast.Store):
                    return g, "local"
            g = _func_of(g)
        return None, None

    def var_mask(self, m, f, e):
        name = e.id
        g, how = self._scope_of(f, name)
        if g is None:
            return _Unb(f"{name} is not bound in the encoder")
        if how == "param":
            return self.param_mask(m, g, name)
        key = ("var", id(g), name)
        if key in self._active:
            return _CYC
        self._active.append(key)
        try:
            parts = []
            use_fn = _func_of(e)
            use_loops = [q for q in self._ancestors(e, g) if isinstance(q, (ast.For, ast.While, ast.AsyncFor))] if use_fn is g else []

            def reaches(d) -> bool:
                """can the binding ``d`` be the one the use ``e`` sees?  (same function: it completed before the use, or
                both sit in one loop; bindings made by nested functions / seen from nested functions: always)"""
                if use_fn is not g or _func_of(d) is not g:
                    return True
                if (d.end_lineno, d.end_col_offset) <= (e.lineno, e.col_offset):
                    return True
                return any(L in use_loops for L in self._ancestors(d, g))

            # the binding function and the functions nested in it (nonlocal writers)
            for n in ast.walk(g):
                if isinstance(n, (ast.Assign, ast.AnnAssign, ast.AugAssign)) and not reaches(n):
                    continue
                if isinstance(n, ast.Assign):
                    for t in n.targets:
                        if isinstance(t, ast.Name) and t.id == name:
                            parts.append(self.mask(m, _func_of(n) or g, n.value))
                        elif any(isinstance(x, ast.Name) and x.id == name and isinstance(x.ctx, ast.Store) for x in ast.walk(t)):
                            parts.append(_Unb(f"{name} is bound by unpacking {norm(n.value)}"))
                elif isinstance(n, ast.AnnAssign) and isinstance(n.target, ast.Name) and n.target.id == name and n.value is not None:
                    parts.append(self.mask(m, _func_of(n) or g, n.value))
                elif isinstance(n, ast.AugAssign) and isinstance(n.target, ast.Name) and n.target.id == name:
                    v = self.mask(m, _func_of(n) or g, n.value)
                    if isinstance(n.op, ast.BitOr) or isinstance(v, _Unb):
                        parts.append(v)
                    else:
                        parts.append(_Unb(f"{name} is updated by {norm(n)}"))
                elif isinstance(n, (ast.For, ast.AsyncFor, ast.comprehension, ast.NamedExpr, ast.withitem)):
                    t = n.target if not isinstance(n, ast.withitem) else n.optional_vars
                    if t is not None and any(isinstance(x, ast.Name) and x.id == name for x in ast.walk(t)):
                        parts.append(_Unb(f"{name} is bound by {type(n).__name__.lower()} without a range check"))
            r = self._join(parts)
            return _Unb(f"{name}", *r) if isinstance(r, _Unb) else r
        finally:
            self._active.pop()

    def param_mask(self, m, g, name):
        key = ("param", id(g), name)
        if key in self._active:
            return _CYC
        sites = self.calls.get(id(g), [])
        if not sites:
            return _Unb(f"parameter {name} of {_qual(g)} has no range check")
        a = g.args
        pos = [x.arg for x in a.posonlyargs + a.args]
        defaults = dict(zip(reversed(pos), reversed(a.defaults)))
        defaults.update({k.arg: d for k, d in zip(a.kwonlyargs, a.kw_defaults) if d is not None})
        self._active.append(key)
        try:
            parts = []
            for cm, cf, call in sites:
                skip = 1 if pos[:1] in (["self"], ["cls"]) and isinstance(call.func, ast.Attribute) else 0
                if any(isinstance(x, ast.Starred) for x in call.args) or any(k.arg is None for k in call.keywords):
                    raise AnalysisError(f"R25.4: star-arguments in {norm(call)} are not modelled")
                arg = None
                if name in pos and pos.index(name) - skip < len(call.args) and pos.index(name) - skip >= 0:
                    arg = call.args[pos.index(name) - skip]
                for k in call.keywords:
                    if k.arg == name:
                        arg = k.value
                if arg is None:
                    if name not in defaults:
                        raise AnalysisError(f"R25.4: no argument for {name} in {norm(call)}")
                    parts.append(self.mask(m, g, defaults[name]))
                    continue
                v = self.mask(cm, cf, arg)
                parts.append(_Unb(f"{norm(arg)} passed by {_qual(cf)}", *v) if isinstance(v, _Unb) else v)
            r = self._join(parts)
            return _Unb(f"parameter {name} of {_qual(g)}", *r) if isinstance(r, _Unb) else r
        finally:
            self._active.pop()

    def element_mask(self, m, f, e):
        """``cont[key]`` where cont is a container local to the encoder: union over everything stored into it"""
        name = e.value.id
        g, how = self._scope_of(f, name)
        if how != "local":
            return _Unb(f"{norm(e)}: elements of {name} have no range check")
        parts = []
        for n in ast.walk(g):
            if isinstance(n, ast.Name) and n.id == name:
                p = n._parent
                fn_here = _func_of(n) or g
                if isinstance(n.ctx, ast.Store):
                    st = p
                    if isinstance(st, (ast.Assign, ast.AnnAssign)) and st.value is not None and (
                        (isinstance(st.value, (ast.Dict, ast.List)) and not (getattr(st.value, "keys", None) or getattr(st.value, "elts", None)))
                        or (isinstance(st.value, ast.Call) and isinstance(st.value.func, ast.Name) and st.value.func.id in ("dict", "list") and not st.value.args and not st.value.keywords)
                    ):
                        continue
                    raise AnalysisError(f"R25.4: container {name} is initialised in a way that is not modelled: {norm(st)[:80]}")
                if isinstance(p, ast.Subscript) and p.value is n:
                    if isinstance(p.ctx, ast.Store):
                        st = p._parent
                        if isinstance(st, ast.Assign) and len(st.targets) == 1:
                            v = self.mask(m, fn_here, st.value)
                            parts.append(_Unb(f"{norm(st)} in {_qual(fn_here)}", *v) if isinstance(v, _Unb) else v)
                        else:
                            raise AnalysisError(f"R25.4: store into {name} is not modelled: {norm(st)[:80]}")
                    continue
                if isinstance(p, ast.Compare) and any(n is c for c in p.comparators):
                    continue
                if isinstance(p, ast.Attribute) and isinstance(p._parent, ast.Call) and p._parent.func is p:
                    call = p._parent
                    if p.attr in _READ_METHODS:
                        continue
                    if p.attr in ("setdefault", "append") and len(call.args) == (2 if p.attr == "setdefault" else 1):
                        v = self.mask(m, fn_here, call.args[-1])
                        parts.append(_Unb(f"{norm(call)} in {_qual(fn_here)}", *v) if isinstance(v, _Unb) else v)
                        continue
                if isinstance(p, ast.Nonlocal):
                    continue
                raise AnalysisError(f"R25.4: container {name} is used in a way that is not modelled: {norm(p)[:80]}")
        if not parts:
            raise AnalysisError(f"R25.4: nothing is ever stored into {name}")
        r = self._join(parts)
        return _Unb(f"{norm(e)}", *r) if isinstance(r, _Unb) else r

    # ---- compositions
    def compositions(self):
        """[(module, fn, node, whole-text, [(leaf expr, [other leaf exprs])])]"""
        out = []
        for m, f in self.funcs.values():
            accs: dict[str, list] = {}
            for n in sorted(_own_nodes(f), key=lambda x: (getattr(x, "lineno", 0), getattr(x, "col_offset", 0))):
                if isinstance(n, ast.AugAssign) and isinstance(n.op, ast.BitOr) and isinstance(n.target, ast.Name):
                    accs.setdefault(n.target.id, []).append(n)
                elif isinstance(n, ast.BinOp) and isinstance(n.op, ast.BitOr):
                    p = n._parent
                    if isinstance(p, ast.BinOp) and isinstance(p.op, ast.BitOr):
                        continue  # part of a longer chain
                    if isinstance(p, ast.AugAssign) and isinstance(p.op, ast.BitOr) and isinstance(p.target, ast.Name):
                        continue  # flattened with the accumulation
                    leaves = self.add_parts(m, _flatten_or(n))
                    out.append((m, f, n, norm(n), [(x, [y for y in leaves if y is not x]) for x in leaves]))
                elif isinstance(n, ast.BinOp) and isinstance(n.op, ast.Add) and self.is_field_add(m, n):
                    p = n._parent
                    if isinstance(p, ast.BinOp) and isinstance(p.op, ast.BitOr):
                        continue
                    leaves = [n.left, n.right]
                    out.append((m, f, n, norm(n), [(x, [y for y in leaves if y is not x]) for x in leaves]))
            for name, augs in accs.items():
                inits = [x.value for x in _own_nodes(f) if isinstance(x, ast.Assign) and any(isinstance(t, ast.Name) and t.id == name for t in x.targets)]
                contrib = [(a, leaf) for a in augs for leaf in self.add_parts(m, _flatten_or(a.value))]
                for a, leaf in contrib:
                    in_loop = any(isinstance(q, (ast.For, ast.While, ast.AsyncFor)) for q in self._ancestors(a, f))
                    others = [l2 for a2, l2 in contrib if (l2 is not leaf or in_loop) and not _exclusive(a, a2)] + inits
                    out.append((m, f, a, f"{name} |= {norm(a.value)}", [(leaf, others)]))
        return out

    @staticmethod
    def _ancestors(n, stop):
        n = getattr(n, "_parent", None)
        while n is not None and n is not stop:
            yield n
            n = getattr(n, "_parent", None)

    def is_field_add(self, m, n):
        """``K + x`` with a constant K whose low byte is zero, used as a struct field / inside an OR: a bit-field composition
        written with ``+``"""
        ks = [self.const(m, x) for x in (n.left, n.right)]
        if sum(k is not None for k in ks) != 1:
            return False
        k = next(k for k in ks if k is not None)
        if not (k > 0 and k & 0xFF == 0):
            return False
        p = n._parent
        if isinstance(p, ast.BinOp) and isinstance(p.op, ast.BitOr):
            return True
        return isinstance(p, ast.Call) and isinstance(p.func, ast.Attribute) and p.func.attr in ("pack", "pack_into") and any(n is a for a in p.args)

    def add_parts(self, m, leaves):
        out = []
        for x in leaves:
            if isinstance(x, ast.BinOp) and isinstance(x.op, ast.Add) and self.is_field_add(m, x):
                out += [x.left, x.right]
            else:
                out.append(x)
        return out


def _r25_4(ctx):
    eb = EncoderBits(ctx, DNS, "DNSMessage.packed")
    for m, f in eb.funcs.values():
        ctx.functions.add(f"{m.rel}::{_qual(f)}")
    n_fields = 0
    for m, f, node, text, items in eb.compositions():
        where = (m.rel, _qual(f), node)
        for leaf, others in items:
            lm = eb.mask(m, _func_of(leaf) or f, leaf)
            if lm is _CYC:
                continue
            if isinstance(lm, int) and lm == 0:
                continue
            ctx.cells += 1
            rest = 0
            rest_unb = None
            for o in others:
                om = eb.mask(m, _func_of(o) or f, o)
                if isinstance(om, _Unb):
                    rest_unb = rest_unb or om
                elif om is not _CYC:
                    rest |= om
            if isinstance(lm, _Unb):
                ctx.fail("R25.4", where, f"`{text}`: operand {norm(leaf)} is unbounded",
                         f"no range check bounds {norm(leaf)} before it is merged into the bit field (followed: {' <- '.join(lm)}); the other operands occupy bits {rest:#x}: "
                         "a large value silently spills into them, so the encoded bytes decode to a different message (or do not decode)", chain=list(lm))
                continue
            n_fields += 1
            if rest_unb is not None:
                continue  # reported at the unbounded operand
            ctx.check(lm & rest == 0, "R25.4", where, f"`{text}`: operand {norm(leaf)} occupies bits {lm:#x}",
                      f"{norm(leaf)} can set bits {lm:#x}, which overlap the bits {rest:#x} of the other operands merged into the same value: the fields cannot be separated again when decoding",
                      desc=f"{_qual(f)}: {norm(leaf)} <= bits {lm:#x}, disjoint from the other operands of `{text[:40]}`")
    ctx.note(f"R25.4: encoder = {sorted(_qual(f) for m, f in eb.funcs.values())}; {n_fields} bounded bit-field operands")
    ctx.expect_instances("R25.4", 8)


def check(ctx):
    roomy(lambda: _check(ctx))


def _check(ctx):
    ctx.rule("R25.1", "pointer loops terminate: sentinel stored before recursing, sentinel hit raises, labels consume >= 1 byte")
    ctx.rule("R25.2", "header bit layout, word order and struct formats agree between DNSMessage.packed and unpack_from")
    ctx.rule("R25.4", "bit-field compositions (`a | b`, `K + b`) in the encoder reachable from DNSMessage.packed are lossless: possible-bit masks of the operands are disjoint")
    ctx.rule("R25.3", "escape set of DNSMessage.unpack on untrusted bytes is within the types handled by DNSLayer.state_query")
    # each rule on its own: an AnalysisError in one of them is deferred (exit 2) and a violation found by another takes precedence
    for rule in (_r25_1, _r25_2, _r25_3, _r25_4):
        ctx.guard(rule, ctx)


MUTANTS = [
    # R25.3 - reverse of the F-C25 / F-C25b / F-C25c fixes and other coverage regressions
    Mutant("reverse-fix-idna-unicodeerror", DN, "        except UnicodeError:\n", "        except UnicodeDecodeError:\n", "R25.3"),
    Mutant("reverse-fix-repack-valueerror", DN, "            except (struct.error, ValueError):\n", "            except struct.error:\n", "R25.3"),
    Mutant("reverse-fix-pointer-depth-unbounded", DN, "                if depth >= _MAX_POINTER_DEPTH:\n                    raise struct.error(\"unpack encountered too many pointers\")\n", "", "R25.3"),
    Mutant("rdata-length-guard-dropped", DNS, "                    if len(buffer) < end_data:\n                        raise struct.error(\n                            f\"unpack requires a data buffer of {len_data} bytes\"\n                        )\n", "", "R25.3"),
    Mutant("layer-handles-valueerror-only", LAYER, "            except struct.error as e:\n                yield commands.Log(f\"{event.connection} sent an invalid message", "            except ValueError as e:\n                yield commands.Log(f\"{event.connection} sent an invalid message", "R25.3"),
    Mutant("zero-length-message-raises-valueerror", LAYER, 'raise struct.error("Message length field cannot be zero")', 'raise ValueError("Message length field cannot be zero")', "R25.3"),
    Mutant("label-decoded-as-ascii-strict", DN, '            labels.append(buffer[offset:end_label].decode("idna"))\n        except UnicodeError:', '            labels.append(buffer[offset:end_label].decode("idna"))\n        except UnicodeTranslateError:', "R25.3"),
    # R25.1
    Mutant("sentinel-store-removed", DN, "        cache[offset] = None  # this will indicate that the offset is being unpacked\n", "", "R25.1"),
    # (storing the marker later but still under the start offset and before recursing - `cache[start_offset] = None` inside the loop - is
    #  behaviour-preserving and must stay quiet; what breaks the guard is marking the offset the scan has advanced to)
    Mutant("sentinel-stored-under-the-advanced-offset", DN,
           "        cache[offset] = None  # this will indicate that the offset is being unpacked\n        start_offset = offset\n        labels = []\n        while True:\n            (size,) = _LABEL_SIZE.unpack_from(buffer, offset)\n            if size & _POINTER_INDICATOR == _POINTER_INDICATOR:\n                (pointer,) = _POINTER_OFFSET.unpack_from(buffer, offset)\n                offset += _POINTER_OFFSET.size\n",
           "        start_offset = offset\n        labels = []\n        while True:\n            (size,) = _LABEL_SIZE.unpack_from(buffer, offset)\n            if size & _POINTER_INDICATOR == _POINTER_INDICATOR:\n                (pointer,) = _POINTER_OFFSET.unpack_from(buffer, offset)\n                offset += _POINTER_OFFSET.size\n                cache[offset] = None\n", "R25.1"),
    Mutant("sentinel-only-on-the-label-path", DN, "        cache[offset] = None  # this will indicate that the offset is being unpacked\n        start_offset = offset\n        labels = []\n        while True:\n            (size,) = _LABEL_SIZE.unpack_from(buffer, offset)\n            if size & _POINTER_INDICATOR == _POINTER_INDICATOR:\n",
           "        start_offset = offset\n        labels = []\n        while True:\n            (size,) = _LABEL_SIZE.unpack_from(buffer, offset)\n            if size & _POINTER_INDICATOR != _POINTER_INDICATOR:\n                cache[start_offset] = None\n            if size & _POINTER_INDICATOR == _POINTER_INDICATOR:\n", "R25.1"),
    Mutant("loop-detected-but-name-returned", DN, "        if result is None:\n            raise struct.error(f\"unpack encountered domain name loop\")\n", "        if result is None:\n            return \"\", _POINTER_OFFSET.size\n", "R25.1"),
    Mutant("pointer-consumes-one-octet", DN, "                offset += _POINTER_OFFSET.size\n                if depth >= _MAX_POINTER_DEPTH:", "                offset += _LABEL_SIZE.size\n                if depth >= _MAX_POINTER_DEPTH:", "R25.1"),
    Mutant("sentinel-hit-does-not-raise", DN, "        if result is None:\n            raise struct.error(f\"unpack encountered domain name loop\")\n", "        if result is None:\n            result = (\"\", 0)\n", "R25.1"),
    Mutant("empty-label-consumes-nothing", DN, "    elif size == 0:\n        return _LABEL_SIZE.size\n", "    elif size == 0:\n        return 0\n", "R25.1"),
    # R25.4 (the first one is the essence of seed C25b, written inside dns.py: pointer offset taken from len(data) without a 14-bit bound)
    Mutant("owner-names-compressed-with-unchecked-pointer-offset", DNS,
           "        for rr in (*self.answers, *self.authorities, *self.additionals):\n            data.extend(domain_names.pack(rr.name))\n",
           "        offsets: dict[str, int] = {}\n        for rr in (*self.answers, *self.authorities, *self.additionals):\n            if rr.name in offsets:\n"
           "                data.extend(struct.pack(\"!H\", 0xC000 | offsets[rr.name]))\n            else:\n                offsets[rr.name] = len(data)\n"
           "                data.extend(domain_names.pack(rr.name))\n", "R25.4"),
    Mutant("pointer-offset-bound-one-bit-too-wide", DNS,
           "        for rr in (*self.answers, *self.authorities, *self.additionals):\n            data.extend(domain_names.pack(rr.name))\n",
           "        offsets: dict[str, int] = {}\n        for rr in (*self.answers, *self.authorities, *self.additionals):\n            if rr.name in offsets:\n"
           "                data.extend(struct.pack(\"!H\", 0xC000 + offsets[rr.name]))\n            else:\n                if len(data) < 0x8000:\n                    offsets[rr.name] = len(data)\n"
           "                data.extend(domain_names.pack(rr.name))\n", "R25.4"),
    Mutant("response-code-range-check-dropped", DNS, "        if self.response_code < 0 or self.response_code > 0b1111:\n            raise ValueError(\n                f\"DNS message's response_code {self.response_code} is out of bounds.\"\n            )\n", "", "R25.4"),
    Mutant("reserved-shifted-into-ra-bit", DNS, "        flags |= self.reserved << 4\n", "        flags |= self.reserved << 5\n", "R25.4"),
    # R25.2
    Mutant("opcode-unpacked-one-bit-off", DNS, "op_code=(flags >> 11) & 0b1111,", "op_code=(flags >> 12) & 0b1111,", "R25.2"),
    Mutant("truncation-and-rd-bits-swapped-in-pack", DNS, "        if self.truncation:\n            flags |= 1 << 9\n        if self.recursion_desired:\n            flags |= 1 << 8\n",
           "        if self.truncation:\n            flags |= 1 << 8\n        if self.recursion_desired:\n            flags |= 1 << 9\n", "R25.2"),
    Mutant("query-bit-polarity-flipped", DNS, "query=(flags & (1 << 15)) == 0,", "query=(flags & (1 << 15)) != 0,", "R25.2"),
    Mutant("reserved-range-too-wide", DNS, "if self.reserved < 0 or self.reserved > 0b111:", "if self.reserved < 0 or self.reserved > 0b1111:", "R25.2"),
    Mutant("header-counts-swapped", DNS, "                len(self.answers),\n                len(self.authorities),\n", "                len(self.authorities),\n                len(self.answers),\n", "R25.2"),
    Mutant("question-type-class-swapped", DNS, "Question.HEADER.pack(question.type, question.class_)", "Question.HEADER.pack(question.class_, question.type)", "R25.2"),
    Mutant("rr-header-format-changed", DNS, 'HEADER: ClassVar[struct.Struct] = struct.Struct("!HHIH")', 'HEADER: ClassVar[struct.Struct] = struct.Struct("!HHHH")', "R25.2"),
    Mutant("sections-unpacked-out-of-order", DNS, '        unpack_rrs(msg.answers, "answer", len_answers)\n        unpack_rrs(msg.authorities, "authority", len_authorities)\n',
           '        unpack_rrs(msg.authorities, "authority", len_authorities)\n        unpack_rrs(msg.answers, "answer", len_answers)\n', "R25.2"),
]
