"""C07 - body size limits are enforced and streamed bodies are relayed exactly.

Decided (structural clauses):
  R07.1 decision table of HttpStream.check_body_size over the abstract domain
        {limit unset, expected <,=,> limit} x {threshold unset, <,=,>} x {request,response} x {early,late} x
        expected {None, <=0, >0, malformed (ValueError)}: abort iff limit set and expected > limit (before streaming is considered, strict),
        stream iff not aborted and threshold set and expected > threshold (strict); abort trace shape
        (error hook, error to client, states errored, not live, nothing forwarded, returns True).
  R07.2 every `+=` on a body buffer in a consume state is immediately followed by check_body_size; in the
        wait-for-headers states check_body_size runs before the headers hook when the message has a body.
  R07.3 streamed relay identity: buffers are written only under store_streamed_bodies; each chunk goes into
        exactly one Send of the same loop iteration, default chunk list is [event.data]; on the late switch the
        buffer is cleared before it is replayed.
  R07.4 human.parse_size: None -> None, int literal, suffix table b,k,m,g,t = 1024^0..4, else ValueError;
        Proxyserver.configure validates both options through it.
  R07.5 HTTP/2 send buffering (BufferedH2Connection): the class is interpreted from its AST (pyint; hyper-h2's send_data /
        local_flow_control_window replaced by a recording stub with a window) over all short schedules of
        send_data / end_stream / WINDOW_UPDATE: the bytes handed to h2 are exactly the submitted bytes, in order, END_STREAM only
        on the last frame and only after all data.  Bounded: <= 3 (quick) / 4 (thorough) operations, chunk sizes {1,3,5},
        END_STREAM carried by the last chunk of {0,3,5} bytes (the HTTP/2 error page - "the client receives an error" - is sent as
        send_data(page, end_stream=True)), frame size 4, window increments {1,2,4,64}.  Weakest kind of rule here (DESIGN 10.2).
        Found F-C07 (END_STREAM dropped when the data is split into several frames), repaired in /repo.
Not decided: byte-level equality of relayed bodies at run time, memory use of the libraries below.
"""

from __future__ import annotations

import ast

from ..core import AnalysisError
from ..core import norm
from ..httpstream import BUFS
from ..httpstream import HttpStreamSpec
from ..httpstream import REL
from ..layerx import EV
from ..model import attr_chain
from ..model import calls_in
from ..model import last_attr
from ..model import walk_in_order
from ..paths import C
from ..paths import Engine
from ..paths import GenericSpec
from ..paths import is_const
from ..paths import R
from ..paths import State
from ..paths import traces_of
from ..paths import UNKNOWN
from ..selftest import Mutant

PROP = "C07"
REG = {
    "strength": "partial",
    "technique": "decision table by abstract interpretation of check_body_size + path rules (must-follow, control dependence) on the body states",
    "claim": "check_body_size's abort/stream/nothing decision equals the reference table on all 256 abstract cells incl. the boundary (strictness) "
    "and the abort trace shape; every buffer append is followed by the check; streamed chunks are relayed once, in order, stored only on option; "
    "the HTTP/2 send buffer hands over submitted bytes once, in order, END_STREAM last (bounded schedules).",
    "note": "Abstract domain relates expected size to each threshold by {unset,<,=,>}; comparisons of a shape the interpreter does not model are an ANALYSIS-ERROR.",
}

HUMAN = "mitmproxy/utils/human.py"
PS = "mitmproxy/addons/proxyserver.py"


class BodySizeSpec(HttpStreamSpec):
    """cfg: limit_rel, thr_rel in {unset, lt, eq, gt}; expected in {None, nonpos, pos}"""

    def __init__(self, model, cfg):
        super().__init__(model)
        self.cfg = cfg

    def raises_into(self, stmt, handler_names, st):
        if "ValueError" in handler_names and any(last_attr(c.func) == "expected_http_body_size" for c in calls_in(stmt)):
            return ["ValueError"]
        return []

    def handler_event(self, handler, exc_name, st):
        return ("handler", exc_name)

    def value(self, expr, st, depth):
        # options are recognised by the object they are read from (also through a local bound to the options object / to `self.context`)
        ch = self.chain(expr, st, depth) if isinstance(expr, ast.Attribute) else ""
        if ch.endswith(".options.stream_large_bodies") or ch == "options.stream_large_bodies":
            return C("thr" if self.cfg["thr_rel"] != "unset" else None)
        if ch.endswith(".options.body_size_limit") or ch == "options.body_size_limit":
            return C("lim" if self.cfg["limit_rel"] != "unset" else None)
        if isinstance(expr, ast.Call):
            name = self.callee_name(expr.func, st, depth) if isinstance(expr.func, ast.Name) else last_attr(expr.func)
            if name == "parse_size" and (expr.args or expr.keywords):
                # by value: the argument is one of the two option values (directly, through a temporary or a helper parameter)
                v = self.value(expr.args[0] if expr.args else expr.keywords[0].value, st, depth)
                if v == C("lim"):
                    return ("opt", "limit")
                if v == C("thr"):
                    return ("opt", "thr")
                if v == C(None):
                    return C(None)
                raise AnalysisError(f"parse_size of an unknown option: {norm(expr)}")
            if name == "len" and len(expr.args) == 1:
                # the abstract value of a body buffer (also through a local alias / helper parameter / conditional expression) is its non-emptiness
                ref = HttpStreamSpec.value(self, expr.args[0], st, depth)
                if ref[0] == "r" and ref[1] in BUFS:
                    flag = st.get(ref[1])
                    if not (is_const(flag) and isinstance(flag[1], bool)):
                        raise AnalysisError(f"emptiness of the body buffer is not known where {norm(expr)} is evaluated")
                    return ("size", "pos" if flag[1] else "nonpos")  # body events carry >= 1 byte: non-empty buffer = positive size
            if name == "expected_http_body_size":
                return ("size", "pos" if self.cfg["expected"] == "error" else self.cfg["expected"])
        return HttpStreamSpec.value(self, expr, st, depth)

    def decide_leaf(self, cond, st, depth):
        if isinstance(cond, ast.Compare) and len(cond.ops) == 1:
            a = self.value(cond.left, st, depth)
            b = self.value(cond.comparators[0], st, depth)
            op = cond.ops[0]
            sized = lambda v: isinstance(v, tuple) and v and v[0] in ("size", "opt")  # noqa: E731
            if sized(a) or sized(b):
                # x is None / is not None
                if isinstance(op, (ast.Is, ast.IsNot)) and b == C(None):
                    isnone = a == ("size", "None")
                    return isnone if isinstance(op, ast.Is) else not isnone
                if a[0] == "size" and b == C(0):
                    if a[1] == "None":
                        raise AnalysisError("comparison of a None size with 0 is reachable")
                    truth = {"nonpos": {"LtE": True, "Lt": None, "Gt": False, "GtE": None, "Eq": None}, "pos": {"LtE": False, "Lt": False, "Gt": True, "GtE": True, "Eq": False}}
                    t = truth[a[1]].get(type(op).__name__)
                    if t is None:
                        raise AnalysisError(f"unmodelled size comparison {norm(cond)}")
                    return t
                if a[0] == "size" and b[0] == "opt":
                    rel = self.cfg["limit_rel" if b[1] == "limit" else "thr_rel"]
                    table = {"Gt": {"lt": False, "eq": False, "gt": True}, "GtE": {"lt": False, "eq": True, "gt": True},
                             "Lt": {"lt": True, "eq": False, "gt": False}, "LtE": {"lt": True, "eq": True, "gt": False}}
                    row = table.get(type(op).__name__)
                    if row is None:
                        raise AnalysisError(f"unmodelled size comparison {norm(cond)}")
                    return row[rel]
                if a[0] == "opt" and b[0] == "size":
                    rel = self.cfg["limit_rel" if a[1] == "limit" else "thr_rel"]
                    table = {"Lt": {"lt": False, "eq": False, "gt": True}, "LtE": {"lt": False, "eq": True, "gt": True},
                             "Gt": {"lt": True, "eq": False, "gt": False}, "GtE": {"lt": True, "eq": True, "gt": False}}
                    row = table.get(type(op).__name__)
                    if row is None:
                        raise AnalysisError(f"unmodelled size comparison {norm(cond)}")
                    return row[rel]
                if isinstance(op, (ast.Is, ast.IsNot)) and is_const(b) and b[1] is None and a[0] == "opt":
                    return isinstance(op, ast.IsNot)
                raise AnalysisError(f"unmodelled comparison on body sizes: {norm(cond)} (operands {a!r}, {b!r}; cell {self.cfg})")
        if isinstance(cond, ast.Name):
            v = self.value(cond, st, depth)
            if isinstance(v, tuple) and v and v[0] in ("size", "opt"):
                raise AnalysisError(f"truthiness test on a size value is not modelled: {norm(cond)}")
        return HttpStreamSpec.decide_leaf(self, cond, st, depth)


def classify(final: State):
    ret = final.get("$ret")
    tr = final.trace
    hooks = [e[1] for e in tr if e[0] == "hook"]
    if ret == C(True):
        return "abort"
    streamed = any(e[0] == "stream:=" and e[2] is True for e in tr)
    if ret == C(False):
        return "stream" if streamed else "nothing"
    return f"?ret={ret}"


def check_abort_trace(tr, request: bool, late: bool):
    """Returns a reason string if the abort trace does not have the required shape."""
    ev = [e for e in tr if e[0] in ("hook", "send", "set", "live", "error:=", "getconn", "drop")]
    hooks = [e[1] for e in ev if e[0] == "hook"]
    want_first = [] if late else (["HttpRequestHeadersHook"] if request else ["HttpResponseHeadersHook"])
    if hooks != want_first + ["HttpErrorHook"]:
        return f"hooks on the abort path are {hooks}, expected {want_first + ['HttpErrorHook']}"
    sends = [e for e in ev if e[0] == "send"]
    if ("send", "ResponseProtocolError", "client") not in sends:
        return "the client is not sent a ResponseProtocolError"
    for s in sends:
        if s[1] not in ("ResponseProtocolError", "RequestProtocolError"):
            return f"something other than a protocol error is sent on the abort path: {s}"
    if not request and ("send", "RequestProtocolError", "server") not in sends:
        return "response abort does not reset the upstream request"
    if ("set", "self.client_state", "self.state_errored") not in ev:
        return "client_state is not set to state_errored"
    if not request and ("set", "self.server_state", "self.state_errored") not in ev:
        return "server_state is not set to state_errored"
    if ("live", False) not in ev:
        return "flow.live is not cleared"
    if ("error:=",) not in ev or ev.index(("error:=",)) > ev.index(("hook", "HttpErrorHook")):
        return "flow.error is not set before the error hook"
    if any(e[0] == "getconn" for e in ev):
        return "a server connection is requested on the abort path"
    return None


def const_eval(node):
    if isinstance(node, ast.Constant):
        return node.value
    if isinstance(node, ast.BinOp) and isinstance(node.op, (ast.Pow, ast.Mult, ast.LShift)):
        l, r = const_eval(node.left), const_eval(node.right)
        if isinstance(node.op, ast.Pow):
            return l**r
        if isinstance(node.op, ast.Mult):
            return l * r
        return l << r
    raise AnalysisError(f"not a constant expression: {norm(node)}")


H2B = "mitmproxy/proxy/layers/http/_http_h2.py"


def r07_5(ctx):
    import collections
    import itertools
    import types

    from ..pyint import Interp
    from ..pyint import Raised
    from ..pyint import Rec

    snd = ctx.func(H2B, "BufferedH2Connection.send_data")
    swu = ctx.func(H2B, "BufferedH2Connection.stream_window_updated")
    ctx.func(H2B, "BufferedH2Connection.end_stream")
    h2stub = types.SimpleNamespace(
        stream=types.SimpleNamespace(StreamState=types.SimpleNamespace(OPEN="OPEN", HALF_CLOSED_REMOTE="HALF_CLOSED_REMOTE"), H2Stream=object),
        events=types.SimpleNamespace(), settings=types.SimpleNamespace(), config=types.SimpleNamespace(DummyLogger=object), connection=types.SimpleNamespace(H2Connection=object), exceptions=types.SimpleNamespace(),
    )
    ops_send = [("send", n) for n in (1, 3, 5)]
    # ("end", n>0): the last data chunk carries END_STREAM itself (the HTTP/2 error page is sent that way); 3 fits into one frame and can be
    # sent partially from the buffer, 5 is split into two frames on submission
    ops = ops_send + [("window", w) for w in (1, 2, 4, 64)] + [("end", 0), ("end", 3), ("end", 5)]
    limit = 4 if ctx.tier == "thorough" else 3
    n = 0
    bad = {}
    for length in range(1, limit + 1):
        for seq in itertools.product(ops, repeat=length):
            if not any(o[0] == "send" or (o[0] == "end" and o[1]) for o in seq):
                continue
            if any(o[0] != "window" for o in seq[[i for i, o in enumerate(seq) if o[0] == "end"][0] + 1 :]) if any(o[0] == "end" for o in seq) else False:
                continue  # nothing is sent after the stream was ended
            for init_window in (0, 2):
                world = {"window": init_window, "sent": [], "ended": False}

                def h2_send_data(stream_id, data=b"", end_stream=False, pad_length=None, _w=world):
                    if len(data) > _w["window"]:
                        raise RuntimeError("FlowControlError")  # hyper-h2 raises when the window is exceeded
                    if any(e for _, e in _w["sent"]):
                        raise RuntimeError("StreamClosedError")  # ... and when the stream was already ended by us
                    _w["window"] -= len(data)
                    _w["sent"].append((bytes(data), bool(end_stream)))

                it = Interp(ctx.model, trusted_modules={"collections": collections, "h2": h2stub, "logging": types.SimpleNamespace(getLogger=lambda *a: None, DEBUG=10)})
                conn = Rec(
                    "BufferedH2Connection", _impl=(H2B, "BufferedH2Connection"),
                    stream_buffers=collections.defaultdict(collections.deque), stream_trailers={}, max_outbound_frame_size=4,
                    streams={1: Rec("H2Stream", state_machine=Rec("SM", state="OPEN"))},
                    local_flow_control_window=(lambda sid, _w=world: _w["window"]),
                    _super_stubs={"send_data": h2_send_data},
                )
                submitted = b""
                counter = 0
                err = None
                try:
                    for op, arg in seq:
                        if op == "send":
                            data = bytes((65 + (counter + i) % 26) for i in range(arg))
                            counter += arg
                            submitted += data
                            it.method(conn, "send_data", 1, data)
                        elif op == "end" and arg:
                            world["ended"] = True
                            data = bytes((65 + (counter + i) % 26) for i in range(arg))
                            counter += arg
                            submitted += data
                            it.method(conn, "send_data", 1, data, True)
                        elif op == "end":
                            world["ended"] = True
                            it.method(conn, "end_stream", 1)
                        else:
                            world["window"] += arg
                            it.method(conn, "stream_window_updated", 1)
                    # drain: a large window update must flush everything that is still buffered
                    world["window"] += 1000
                    it.method(conn, "stream_window_updated", 1)
                except Raised as r:
                    err = f"raises {r.name}"
                n += 1
                sent = b"".join(d for d, _ in world["sent"])
                ends = [i for i, (_, e) in enumerate(world["sent"]) if e]
                problem = err
                if problem is None and sent != submitted:
                    problem = f"bytes handed to h2 are {sent!r}, submitted {submitted!r}"
                if problem is None and world["ended"] and ends != [len(world["sent"]) - 1]:
                    problem = f"END_STREAM on frames {ends} of {len(world['sent'])}"
                if problem is None and not world["ended"] and ends:
                    problem = "END_STREAM sent although the stream was not ended"
                if problem:
                    bad.setdefault(problem.split(",")[0][:60], (seq, init_window, problem))
    ctx.cells += n
    for k, (seq, w0, problem) in sorted(bad.items()):
        # a schedule without WINDOW_UPDATE never enters stream_window_updated before the final drain: point at send_data
        ctx.fail("R07.5", (H2B, "BufferedH2Connection", swu if any(o[0] == "window" for o in seq) else snd), f"schedule {list(seq)} (initial window {w0}): {problem[:120]}",
                 "buffered HTTP/2 body data is not handed to the peer exactly once, in order, with END_STREAM last")
    if not bad:
        ctx.ok("R07.5", f"{n} schedules of send_data/end_stream/WINDOW_UPDATE relay the submitted bytes in order")
    ctx.bounds.append(f"R07.5: schedules of at most {limit} operations, chunk sizes 1/3/5, END_STREAM with 0/3/5 bytes (frame size 4), window increments 1/2/4/64, initial window 0/2")
    ctx.trust("hyper-h2 (R07.5 stub): H2Connection.send_data raises when the data exceeds the stream window or the stream was already ended; local_flow_control_window returns the remaining window")


def check(ctx):
    ctx.rule("R07.5", "BufferedH2Connection relays buffered body bytes exactly once, in order, END_STREAM last (interpreted over short schedules)")
    ctx.guard(r07_5, ctx)
    # not `exhaustive`: R07.1 enumerates its abstract domain completely, but R07.5 is a bounded enumeration (see bounds)
    ctx.bounds.append("loops unrolled once in path enumeration; the check_body_size table enumerates its abstract domain completely")
    ctx.rule("R07.1", "check_body_size decision table equals the reference (abort before stream, strict comparisons, abort trace shape)")
    ctx.rule("R07.2", "every body-buffer append is immediately followed by check_body_size; early check precedes the headers hook")
    ctx.rule("R07.3", "streamed chunks: one send per chunk in order, stored only under store_streamed_bodies, buffer cleared before late replay")
    ctx.rule("R07.4", "parse_size table and option validation")
    m = ctx.model
    cbs = ctx.func(REL, "HttpStream.check_body_size")

    # ---- R07.1
    bad = 0
    n = 0
    for limit_rel in ("unset", "lt", "eq", "gt"):
        for thr_rel in ("unset", "lt", "eq", "gt"):
            for request in (True, False):
                for late in (False, True):
                    for expected in ("None", "nonpos", "pos", "error"):
                        cfg = {"limit_rel": limit_rel, "thr_rel": thr_rel, "expected": expected}
                        spec = BodySizeSpec(m, cfg)
                        env = {
                            "self.client_state": R("self.state_consume_request_body" if late and request else "self.state_wait_for_request_headers" if request else "self.state_done"),
                            "self.server_state": R("self.state_consume_response_body" if late and not request else "self.state_wait_for_response_headers"),
                            "self._handle_event": R("self._handle_event"),
                            "self.request_body_buf": C(late and request),
                            "self.response_body_buf": C(late and not request),
                            "self.flow.response": C(not request),
                            "self.flow.websocket": C(False),
                            "self.flow.request.stream": C(False),
                            "self.flow.response.stream": C(False),
                        }
                        eng = Engine(spec)
                        finals = eng.finals(cbs, State((), env), {"request": C(request)})
                        finals = [f for f in finals if not f.has("$exc")]
                        # the malformed-Content-Length path (ValueError handler) is the abstract input 'error'
                        allf = finals
                        finals = [f for f in finals if (("handler", "ValueError") in f.trace) == (expected == "error")]
                        if expected == "error" and not finals and (late or limit_rel == thr_rel == "unset"):
                            finals = allf  # the framing size is never computed when no option is set / when the buffered bytes are the size
                        ctx.require(finals, f"check_body_size has no normal outcome for {cfg}")
                        n += 1
                        ctx.cells += 1
                        if limit_rel == "unset" and thr_rel == "unset":
                            want = "nothing"
                        elif expected in ("None", "nonpos", "error") and not late:
                            want = "nothing"  # (late: the bytes buffered so far are the size, whatever the framing headers announce)
                        elif limit_rel == "gt":
                            want = "abort"
                        elif thr_rel == "gt":
                            want = "stream"
                        else:
                            want = "nothing"
                        cell = f"limit:{limit_rel} threshold:{thr_rel} {'request' if request else 'response'} {'late' if late else 'early'} expected:{expected}"
                        for f in finals:
                            got = classify(f)
                            reason = None
                            if got != want:
                                reason = f"cell ({cell}) yields '{got}', reference says '{want}'"
                            elif got == "abort":
                                reason = check_abort_trace(f.trace, request, late)
                                if reason:
                                    reason = f"cell ({cell}): {reason}"
                            elif got == "nothing" and any(e[0] in ("hook", "send", "getconn", "set") for e in f.trace):
                                reason = f"cell ({cell}): side effects {[e for e in f.trace if e[0] in ('hook', 'send', 'getconn', 'set')]} although nothing is to be done"
                            elif got == "stream" and late:
                                tr = f.trace
                                which = "req" if request else "resp"
                                side = "server" if request else "client"
                                kind = "RequestData" if request else "ResponseData"
                                datas = [i for i, e in enumerate(tr) if e[0] == "send" and e[1] == kind]
                                errs = [e for e in tr if e[0] == "hook" and e[1] == "HttpErrorHook"]
                                if errs:
                                    pass  # connection failure while switching to streaming: no data to send
                                elif ("bufclear", which) not in tr:
                                    reason = f"cell ({cell}): buffer not cleared before the late switch to streaming"
                                elif len(datas) > 1 or any(tr[i][2] != side or tr.index(("bufclear", which)) > i for i in datas):
                                    reason = f"cell ({cell}): buffered body is not replayed exactly once to the {side} after clearing"
                            if reason:
                                bad += 1
                                ctx.fail("R07.1", (REL, "HttpStream.check_body_size", cbs), cell, reason, trace=[str(e) for e in f.trace])
                                break
                        if n in (37, 101, 140):
                            ctx.sample({"cell": cell, "reference": want, "outcomes": sorted({classify(f) for f in finals})})
    if not bad:
        ctx.ok("R07.1", f"{n} cells agree with the reference table")
    ctx.require(n == 256, f"decision table has {n} cells, expected 256")

    # ---- R07.2 append -> check
    def resolver_none(call):
        return None

    keep = lambda e: (e[0] == "assign" and e[1] in ("self.request_body_buf", "self.response_body_buf")) or (  # noqa: E731
        e[0] in ("call", "yield_from") and e[1] == "self.check_body_size"
    ) or (e[0] == "yield" and e[1].endswith("HeadersHook"))
    # appends are found by value on the HttpStream model (a `+=` on the buffer attribute or on any local / helper parameter bound to it)
    class AppendSpec(HttpStreamSpec):
        """the size check itself stays opaque (labelled ('cbs',) where it is called); everything else of the state function is followed"""

        @staticmethod
        def _is_cbs(n):
            return isinstance(n, ast.Call) and attr_chain(n.func) == "self.check_body_size"

        def inline(self, call, st, depth):
            return None if self._is_cbs(call) else HttpStreamSpec.inline(self, call, st, depth)

        def events(self, node, st):
            return [("cbs",) for n in ast.walk(node) if self._is_cbs(n)] + HttpStreamSpec.events(self, node, st)

    from ..httpstream import init_env as _init_env

    for fname, side, evkind in (("state_consume_request_body", "req", "RequestData"), ("state_consume_response_body", "resp", "ResponseData")):
        fn = ctx.func(REL, f"HttpStream.{fname}")
        params = [a.arg for a in fn.args.posonlyargs + fn.args.args if a.arg not in ("self", "cls")]
        ctx.require(params, f"{fname} takes no event")
        env = _init_env()
        env.update({"self.client_state": R("self.state_consume_request_body" if side == "req" else "self.state_done"),
                    "self.server_state": R("self.state_consume_response_body" if side == "resp" else "self.state_uninitialized"), "self.flow.response": C(side == "resp")})
        finals = Engine(AppendSpec(m)).finals(fn, State((), env), {params[0]: EV(evkind)})
        ctx.paths += len(finals)
        appends = 0
        unchecked = None
        for f in finals:
            t = f.trace
            for i, e in enumerate(t):
                if e == ("buf+", side):
                    appends += 1
                    nxt = t[i + 1] if i + 1 < len(t) else ("nothing",)
                    if nxt != ("cbs",):
                        unchecked = nxt
        ctx.require(appends >= 1, f"{fname}: no append to the {'request' if side == 'req' else 'response'} body buffer found (anchor changed)")
        ctx.check(unchecked is None, "R07.2", (REL, f"HttpStream.{fname}", fn), f"{'self.request_body_buf' if side == 'req' else 'self.response_body_buf'} += ... ; then check_body_size",
                  f"a body chunk is buffered without re-checking the size limit (memory no longer bounded by limit + one chunk); the append is followed by {unchecked}", desc=f"{fname}: append followed by check")
    for fname, hook in (("state_wait_for_request_headers", "HttpRequestHeadersHook"), ("state_wait_for_response_headers", "HttpResponseHeadersHook")):
        fn = ctx.func(REL, f"HttpStream.{fname}")
        spec = GenericSpec(keep=keep)
        spec.value = lambda expr, st, depth, _o=spec: C(False) if attr_chain(expr) == "event.end_stream" else GenericSpec.value(_o, expr, st, depth)  # type: ignore[method-assign]
        tr, eng = traces_of(fn, spec)
        ctx.paths += len(tr)
        sites = 0
        for t, how, s in tr:
            hi = [i for i, e in enumerate(t) if e == ("yield", hook)]
            if not hi:
                continue
            sites += 1
            ci = [i for i, e in enumerate(t) if e[1] == "self.check_body_size"]
            ctx.check(bool(ci) and ci[0] < hi[0], "R07.2", (REL, f"HttpStream.{fname}", fn), f"{hook} without a preceding check_body_size (message has a body)",
                      "a message known to exceed the limit reaches the headers hook / is forwarded before the size check", desc=f"{fname}: check precedes {hook}")
        ctx.require(sites >= 1, f"{fname}: {hook} yield not found")
    ctx.expect_instances("R07.2", 4)

    # ---- R07.3 streamed relay: the *Data branch of both stream states is interpreted (mitmlint.pyint; SendHttp / *Data are recording stubs)
    # for every kind of `stream` attribute (True, a callable returning bytes / a list / nothing) and both values of store_streamed_bodies:
    # each chunk is sent exactly once, in order, to the right side, and is stored only when the option is on.
    from ..pyint import Interp as PInterp
    from ..pyint import Raised as PRaised
    from ..pyint import Rec as PRec

    IN = b" \x00<received>\xff\r\n "  # bytes a "harmless" normalisation (strip, decode/encode) would change
    for fname, bufattr, kind, side, msgattr in (
        ("state_stream_request_body", "request_body_buf", "RequestData", "server", "request"),
        ("state_stream_response_body", "response_body_buf", "ResponseData", "client", "response"),
    ):
        fn = ctx.func(REL, f"HttpStream.{fname}")
        where = (REL, f"HttpStream.{fname}", fn)
        streams = {
            "True (no transformation)": (True, [IN]),
            "callable -> bytes": ((lambda d: b"T:" + d), [b"T:" + IN]),
            "callable -> list of chunks": ((lambda d: [b"1", d, b"3"]), [b"1", IN, b"3"]),
            "callable -> empty list (swallowed)": ((lambda d: []), []),
        }
        bad = {"relay": None, "store": None}
        for sname, (stream, want) in streams.items():
            for store in (False, True):
                buf = bytearray()
                server, client = PRec("Server"), PRec("Client")
                # the message objects carry their repository class (the relay may decide the direction by `isinstance(message, http.Request)`)
                mcls = {"request": "Request", "response": "Response"}
                other = "response" if msgattr == "request" else "request"
                msg = PRec(mcls[msgattr], _bases=("Message",), stream=stream, trailers=None)
                flow = PRec("HTTPFlow", live=True, error=None, websocket=None, **{msgattr: msg, other: PRec(mcls[other], _bases=("Message",), stream=False, trailers=None)})
                me = PRec("HttpStream", _bases=("Layer",), _impl=(REL, "HttpStream"), flow=flow, stream_id=7,
                          context=PRec("Context", server=server, client=client, options=PRec("Options", store_streamed_bodies=store)), **{bufattr: buf})
                # SendHttp / RequestData / ResponseData are the repository's own (data)classes, instantiated by the interpreter: what is
                # yielded is inspected by value (class, fields), however the objects are constructed (directly, through a local bound to the class)
                it = PInterp(m)
                ev = PRec(kind, _bases=("HttpEvent", "Event"), stream_id=7, data=IN)
                try:
                    out = list(it.method(me, fname, ev))
                except PRaised as r:
                    out = [f"<raises {r.name}>"]
                ctx.cells += 1
                def parts(cmd):
                    """(event, connection) carried by a SendHttp command, identified by what the values are (the interpreter's positional
                    field order of a dataclass with a plain base class is not relied upon)"""
                    vals = [v for k, v in vars(cmd).items() if not k.startswith("_")]
                    evs = [v for v in vals if isinstance(v, PRec) and (v.isa("HttpEvent") or v._cls in ("RequestData", "ResponseData"))]
                    conns = [v for v in vals if v is server or v is client]
                    return (evs[0] if len(evs) == 1 else None), (conns[0] if len(conns) == 1 else None)

                sends = [o for o in out if isinstance(o, PRec) and o._cls == "SendHttp"]
                got = []
                for o in sends:
                    e, c = parts(o)
                    got.append((getattr(e, "_cls", "?"), getattr(e, "stream_id", "?"), getattr(e, "data", "?"), "server" if c is server else "client" if c is client else "?"))
                if (got != [(kind, 7, c, side) for c in want] or len(sends) != len(out)) and bad["relay"] is None:
                    bad["relay"] = f"stream = {sname}, store_streamed_bodies={store}: a received chunk is relayed as {got if len(sends) == len(out) else out!r}, expected {[(kind, 7, c, side) for c in want]}"
                held = bytes(getattr(me, bufattr))
                if held != (b"".join(want) if store else b"") and bad["store"] is None:
                    bad["store"] = f"stream = {sname}, store_streamed_bodies={store}: the flow's buffer holds {held!r} afterwards"
        ctx.check(bad["relay"] is None, "R07.3", where, f"{kind}: every chunk relayed once, in order, to the {side}", bad["relay"] or "", desc=f"{fname}: chunks of 4 stream kinds relayed exactly")
        ctx.check(bad["store"] is None, "R07.3", where, f"{kind}: streamed bytes kept only with store_streamed_bodies", bad["store"] or "", desc=f"{fname}: buffer written iff store_streamed_bodies")
    ctx.expect_instances("R07.3", 4)

    # ---- R07.4 parse_size (interpreted) and validation of both options at configure time
    ctx.func(HUMAN, "parse_size")
    ref_sizes = {None: None, "0": 0, "1": 1, "1024": 1024, "5b": 5, "1k": 1024, "3k": 3072, "2m": 2 * 1024**2, "1g": 1024**3, "1t": 1024**4, "10m": 10 * 1024**2,
                 "": "ValueError", "k": "ValueError", "abc": "ValueError", "1x": "ValueError", "1kk": "ValueError", "1.5k": "ValueError", "m1": "ValueError"}
    wrong = []
    for arg, want in ref_sizes.items():
        it = PInterp(m)
        try:
            got = it.call(HUMAN, "parse_size", arg)
        except PRaised as r:
            got = r.name
        ctx.cells += 1
        if got != want or (got is not None and not isinstance(got, str) and type(got) is not int):
            wrong.append(f"parse_size({arg!r}) = {got!r}, expected {want!r}")
    ctx.check(not wrong, "R07.4", (HUMAN, "parse_size", m.func(HUMAN, "parse_size")), "parse_size table", "; ".join(wrong[:3]) + ": limits would be enforced at a different size (or an invalid value accepted)", desc=f"parse_size: {len(ref_sizes)} representative inputs (None, plain, each suffix, invalid)")
    conf = ctx.func(PS, "Proxyserver.configure")
    for opt in ("stream_large_bodies", "body_size_limit"):
        hits = [c for c in calls_in(conf, suffix="parse_size") if c.args and attr_chain(c.args[0]).endswith("options." + opt)]
        inside_try = any(isinstance(p, ast.Try) for c in hits for p in _parents(c))
        ctx.check(bool(hits) and inside_try, "R07.4", (PS, "Proxyserver.configure", conf), f"parse_size(ctx.options.{opt}) in try", f"option {opt} is not validated when it is set", desc=f"configure validates {opt}")
    ctx.expect_instances("R07.4", 3)


def _parents(n):
    p = getattr(n, "_parent", None)
    while p is not None:
        yield p
        p = getattr(p, "_parent", None)


I = REL
MUTANTS = [
    Mutant("late-size-from-framing-headers", I, "        if request and self.request_body_buf:\n            expected_size = len(self.request_body_buf)\n        elif response and self.response_body_buf:\n            expected_size = len(self.response_body_buf)\n        else:\n",
           "        if False:\n            pass\n        else:\n", "R07.1"),
    Mutant("h2-remainder-requeued-at-the-back", H2B, "                self.stream_buffers[stream_id].appendleft(", "                self.stream_buffers[stream_id].append(", "R07.5"),
    Mutant("h2-partial-chunk-keeps-end-stream", H2B, "                    data=chunk.data[:available_window],\n                    end_stream=False,", "                    data=chunk.data[:available_window],\n                    end_stream=chunk.end_stream,", "R07.5"),
    Mutant("h2-split-drops-end-stream", H2B, "                self.send_data(stream_id, chunk, end_stream=end_stream and is_last)", "                self.send_data(stream_id, chunk, end_stream=False)", "R07.5"),  # F-C07 returning
    Mutant("h2-split-ends-on-every-slice", H2B, "                self.send_data(stream_id, chunk, end_stream=end_stream and is_last)", "                self.send_data(stream_id, chunk, end_stream=end_stream)", "R07.5"),
    Mutant("h2-send-bypasses-buffer", H2B, "        if self.stream_buffers.get(stream_id, None):\n            # We already have some data buffered, let's append.", "        if False:\n            # We already have some data buffered, let's append.", "R07.5"),
    Mutant("limit-not-strict", I, "if max_total_size is not None and expected_size > max_total_size:", "if max_total_size is not None and expected_size >= max_total_size:", "R07.1"),
    Mutant("threshold-not-strict", I, "if max_stream_size is not None and expected_size > max_stream_size:", "if max_stream_size is not None and expected_size >= max_stream_size:", "R07.1"),
    Mutant("abort-no-client-error", I, "            yield SendHttp(\n                ResponseProtocolError(self.stream_id, err_msg, err_code),\n                self.context.client,\n            )\n            self.client_state = self.state_errored\n",
           "            self.client_state = self.state_errored\n", "R07.1"),
    Mutant("abort-no-upstream-reset", I, "                yield SendHttp(\n                    RequestProtocolError(self.stream_id, err_msg, err_code),\n                    self.context.server,\n                )\n", "", "R07.1"),
    Mutant("late-switch-no-clear", I, "                    body_buf = bytes(self.request_body_buf)\n                    self.request_body_buf.clear()\n", "                    body_buf = bytes(self.request_body_buf)\n", "R07.1"),
    Mutant("nonpositive-guard-dropped", I, "        if expected_size is None or expected_size <= 0:\n            return False\n", "        if expected_size is None:\n            return False\n", "R07.1"),
    Mutant("consume-request-no-check", I, "            self.request_body_buf += event.data\n            yield from self.check_body_size(True)\n", "            self.request_body_buf += event.data\n", "R07.2"),
    Mutant("consume-response-no-check", I, "            self.response_body_buf += event.data\n            yield from self.check_body_size(False)\n", "            self.response_body_buf += event.data\n", "R07.2"),
    Mutant("early-response-check-after-hook", I, "        if not event.end_stream and (yield from self.check_body_size(False)):\n            return\n        if (yield from self.check_invalid(False)):\n            return\n\n        yield HttpResponseHeadersHook(self.flow)\n",
           "        if (yield from self.check_invalid(False)):\n            return\n\n        yield HttpResponseHeadersHook(self.flow)\n        if not event.end_stream and (yield from self.check_body_size(False)):\n            return\n", "R07.2"),
    Mutant("stream-store-unconditional", I, "            for chunk in chunks:\n                if self.context.options.store_streamed_bodies:\n                    self.response_body_buf += chunk\n                yield SendHttp(ResponseData(self.stream_id, chunk), self.context.client)\n",
           "            for chunk in chunks:\n                self.response_body_buf += chunk\n                yield SendHttp(ResponseData(self.stream_id, chunk), self.context.client)\n", "R07.3"),
    Mutant("stream-skip-empty-chunk-guard", I, "                yield SendHttp(RequestData(self.stream_id, chunk), self.context.server)\n        elif isinstance(event, RequestTrailers):",
           "                if len(chunk) > 1:\n                    yield SendHttp(RequestData(self.stream_id, chunk), self.context.server)\n        elif isinstance(event, RequestTrailers):", "R07.3"),
    Mutant("stream-default-not-identity", I, "            else:\n                chunks = [event.data]\n            for chunk in chunks:\n                if self.context.options.store_streamed_bodies:\n                    self.request_body_buf += chunk",
           "            else:\n                chunks = [event.data.strip()]\n            for chunk in chunks:\n                if self.context.options.store_streamed_bodies:\n                    self.request_body_buf += chunk", "R07.3"),
    Mutant("size-units-decimal", HUMAN, '"k": 1024**1,', '"k": 1000**1,', "R07.4"),
    Mutant("configure-no-limit-validation", PS, "human.parse_size(ctx.options.body_size_limit)", "str(ctx.options.body_size_limit)", "R07.4"),
]
