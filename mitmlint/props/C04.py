"""C04 - blocked layers process events exactly once, in order (queue discipline of Layer / NextLayer / routers).

Decided (path enumeration over the source, leaf conditions mapped to named atoms whose truth comes from a scenario table; traces are
projected onto the queue / generator / pause alphabet).  The code is found by ROLE, never by private names: in class Layer the pause
attribute is the one that is None in __init__ and later assigned a record of the module, the queue is the attribute initialised with a
deque, the command pump is the method that advances a generator it is handed (directly or through a helper); only the public names
``handle_event`` / ``_handle_event`` (and the documented anchors of the other layers) are looked up.  Every other method or module
function that touches that state is INLINED at its call site (path engine), so an extracted, merged or renamed helper is analysed exactly
like the statements it stands for; locals are followed by abstract value (snapshots ``p = self._paused``, queue aliases, temporaries for
the record / the completion test / ``command.blocking``, tuple assignments, conditional expressions, walrus, ``cast``, simple properties);
the content of the pause attribute is tracked along the trace (entry value / None after a reset / the stored record / unknown after a
pump call), so a stale snapshot is not mistaken for a re-check.
  R04.1 effect table of Layer.handle_event over (paused?, event is CommandCompleted?, event.command is the awaited command?):
        queue-and-nothing-else / resume / handle-once.  The identity test must not be looked at for non-completions and equality
        instead of identity is treated as "may also match a foreign command".  An assertion that is definitely false in a row (for
        instance in an inlined resume helper) is a crash of that row, not an infeasible path.
  R04.2 the row of the awaited completion (wherever that code lives: __continue today) is a word of the resume-and-drain language:
        the generator stored in the pause record at entry is read before the single reset, resumed through the pump with event.reply,
        then a while loop that re-checks `not paused and queue` (on the CURRENT values) before every dequeue, dequeues from the FRONT,
        and hands each dequeued event to _handle_event exactly once and drives that generator.
  R04.3 (a) the command pump (the pump method and its inlined copy) per blocking value {False, True, <inner layer>}:
        every command obtained is yielded exactly once; only `blocking is True` pauses: blocking := self and
        pause := Record(command, generator) BEFORE the yield, no advance afterwards; nothing else pauses.
        (b) routers HttpLayer / RawQuicLayer: a blocking-or-wakeup command is recorded in command_sources[command] =
        child before it is yielded upward or consumed by a method that pops it; CommandCompleted is routed to
        command_sources[event.command] with the same event, exactly once.
  R04.4 the inlined copy of the pump in handle_event has the same projected trace set as pump(gen, None) (or handle_event delegates).
  R04.5 NextLayer._handle_event buffers the event before anything else, exactly once; _ask replays self.events in list
        order, each exactly once, without mutating the list before/while replaying, rebinds _handle_event to the chosen
        layer, and leaves the buffer alone while undecided.  (Helpers of NextLayer that touch the buffer / handlers are inlined.)
        TunnelLayer is decided by interpretation (pyint, harness shared with C14): a TunnelLayer object built from its own constructors,
        a recording child layer, schedules of events fed to _handle_event and compared with a reference tunnel after every event -
        each event is either queued or forwarded exactly once (queued iff ESTABLISHING and nobody waits for OpenConnection), and the
        queued events reach the child exactly once, in arrival order, when the handshake completes; no private name or statement
        shape is looked at.
Refused (exit 2, never a verdict): no or several pump methods, a state-touching helper called where the path engine cannot inline it
(nested in an expression) or with effectful arguments, a test of a stale ``command.blocking`` snapshot, replay by something else than a
``for`` loop over the NextLayer buffer, a property / rebind value the rule cannot evaluate; for TunnelLayer whatever is outside the
interpreter's subset (pyint).
NOT decided: behaviour under real schedules (asyncio), layers overriding handle_event themselves, that every concrete
layer only blocks through the pump. Clearing the replay buffers *after* the replay is not demanded (not necessary for
the property once handlers are rebound / the state left ESTABLISHING).
"""

from __future__ import annotations

import ast

from ..core import AnalysisError
from ..core import norm
from ..model import attr_chain
from ..model import eval_order
from ..model import last_attr
from ..paths import C
from ..paths import R
from ..selftest import Mutant
from . import C14 as _H  # the interpretation harness for tunnel layers (TunnelLayer object + recording stubs + reference model)
from ._helpers_A import ASpec
from ._helpers_A import compare_pair
from ._helpers_A import dataclass_fields
from ._helpers_A import is_self_call
from ._helpers_A import isinstance_names
from ._helpers_A import isinstance_of
from ._helpers_A import loops_over
from ._helpers_A import method_call_on
from ._helpers_A import method_on
from ._helpers_A import params_of
from ._helpers_A import proj
from ._helpers_A import run_block
from ._helpers_A import show
from ._helpers_A import truthiness_atom
from ._helpers_A import truthiness_of

PROP = "C04"
REG = {
    "strength": "partial",
    "technique": "CFG path enumeration with scenario-decided condition atoms (effect tables), trace-language checks, sibling trace-set agreement; "
    "TunnelLayer's buffer by AST interpretation (pyint) of event schedules against a recording child and a reference tunnel",
    "claim": "Layer.handle_event/__process/__continue implement: queue while paused (append, nothing else), resume only with the awaited "
    "command's own completion (identity), FIFO drain re-checking the pause before every dequeue, each event handled exactly once, only "
    "`blocking is True` pauses and the command is marked handled before it is yielded; HttpLayer/RawQuicLayer record and route completions "
    "by command; NextLayer/TunnelLayer replay buffered events in order exactly once (TunnelLayer: interpreted schedules against a reference model).",
    "note": "Loops unrolled twice; generator protocol (send/next/StopIteration) and deque/list/dict semantics are trusted library behaviour. "
    "Concrete layers are assumed to block only through Layer.handle_event.",
}

F = "mitmproxy/proxy/layer.py"
HTTP = "mitmproxy/proxy/layers/http/__init__.py"
QUIC = "mitmproxy/proxy/layers/quic/_raw_layers.py"
TUN = "mitmproxy/proxy/tunnel.py"
EVENTS = "mitmproxy/proxy/events.py"
QUEUE = "self._paused_event_queue"

CMD = ("cmd",)
BLOCKING_VALUES = {  # abstract value of command.blocking -> truth of the three leaf forms
    "False": {"Btrue": False, "Btruthy": False, "Bfalse": True},
    "True": {"Btrue": True, "Btruthy": True, "Bfalse": False},
    "Layer": {"Btrue": False, "Btruthy": True, "Bfalse": False},
}


def _is_gen(v):
    return isinstance(v, tuple) and len(v) == 2 and v[0] == "gen"


def _is_rec(v):
    return isinstance(v, tuple) and len(v) == 2 and v[0] == "rec"


def _own_nodes(fn):
    """All nodes of ``fn`` except those inside nested function / class definitions."""
    stack = list(ast.iter_child_nodes(fn))
    while stack:
        n = stack.pop()
        yield n
        if not isinstance(n, (ast.FunctionDef, ast.AsyncFunctionDef, ast.ClassDef, ast.Lambda)):
            stack.extend(ast.iter_child_nodes(n))


def _self_attr(expr) -> str:
    """'x' for ``self.x``."""
    if isinstance(expr, ast.Attribute) and isinstance(expr.value, ast.Name) and expr.value.id == "self":
        return expr.attr
    return ""


def _self_callee(call) -> str:
    """'m' for ``self.m(...)``."""
    return _self_attr(call.func) if isinstance(call, ast.Call) else ""


def _assign_pairs(node):
    """(target, value) pairs of an assignment statement, tuple targets flattened (their value is None = not modelled)."""
    if isinstance(node, ast.Assign):
        out = []

        def pair(t, v):
            if isinstance(t, (ast.Tuple, ast.List)):
                if isinstance(v, (ast.Tuple, ast.List)) and len(v.elts) == len(t.elts) and not any(isinstance(e, ast.Starred) for e in list(t.elts) + list(v.elts)):
                    for a, b in zip(t.elts, v.elts):  # a, b = x, y: element-wise (the right-hand side is evaluated first)
                        pair(a, b)
                else:
                    out.extend((e, None) for e in ast.walk(t) if isinstance(e, (ast.Attribute, ast.Name, ast.Subscript)) and isinstance(e.ctx, ast.Store))
            else:
                out.append((t, v))

        for t in node.targets:
            pair(t, node.value)
        return out
    if isinstance(node, ast.AnnAssign) and node.value is not None:
        return [(node.target, node.value)]
    if isinstance(node, ast.AugAssign):
        return [(node.target, None)]
    return []


def _guard_capture(name):
    """If ``name`` (a Name being read) stands in the guard of a ``case`` whose pattern captures it, the expression it is bound to
    (``subject`` for ``as name``, ``subject.attr`` for ``Cls(attr=name)``), else None."""
    n, p = name, getattr(name, "_parent", None)
    while p is not None and not isinstance(p, (ast.match_case, ast.FunctionDef, ast.AsyncFunctionDef, ast.Lambda)):
        n, p = p, getattr(p, "_parent", None)
    if not isinstance(p, ast.match_case) or n is not p.guard:
        return None
    m = getattr(p, "_parent", None)
    if not isinstance(m, ast.Match):
        return None
    pat = p.pattern
    if isinstance(pat, ast.MatchAs) and pat.pattern is not None:
        if pat.name == name.id:
            return m.subject
        pat = pat.pattern
    if isinstance(pat, ast.MatchClass):
        for attr, sub in zip(pat.kwd_attrs, pat.kwd_patterns):
            if isinstance(sub, ast.MatchAs) and sub.pattern is None and sub.name == name.id:
                return ast.copy_location(ast.Attribute(value=m.subject, attr=attr, ctx=ast.Load()), name)
    return None


class LSpec(ASpec):
    """ASpec + (a) the statement-level (assignment) labels of ``target = a if c else b``: the path engine evaluates such an assignment branch by
    branch through ``bind`` without asking for the labels of the statement, so they are produced here from a synthetic ``target = a`` (marked
    ``_assign_only``: the label functions skip its sub-expressions, which the engine has labelled already); (b) objects of the abstract
    domain are known not to be None."""

    def value(self, expr, st, depth):
        # (d) a capture of a class pattern used in the guard of the same case (`case X(command=c) if c is ...`): the path engine binds
        # captures only after it has evaluated the guard, so the capture is resolved here to `subject.attr` / `subject`
        if isinstance(expr, ast.Name) and isinstance(expr.ctx, ast.Load) and not st.has(f"{depth}:{expr.id}"):
            src = _guard_capture(expr)
            if src is not None:
                return self.value(src, st, depth)
        return ASpec.value(self, expr, st, depth)

    def bind(self, target, value_expr, st, depth, value=None):
        p = getattr(value_expr, "_parent", None) if value_expr is not None else None
        pp = getattr(p, "_parent", None)
        if value is None and isinstance(p, ast.IfExp) and (value_expr is p.body or value_expr is p.orelse) and isinstance(pp, ast.Assign) and len(pp.targets) == 1 and pp.targets[0] is target and self._label:
            synth = ast.Assign(targets=[target], value=value_expr)
            ast.copy_location(synth, pp)
            synth._assign_only = True
            st = st.emit(*self._label(synth, st, self))
        return ASpec.bind(self, target, value_expr, st, depth, value)

    # (c) the path engine assumes assertions to hold (paths violating them are dropped).  Helpers are inlined into the scenario of
    # their caller here, so an assertion over scenario atoms can be DEFINITELY false on a path (e.g. the resume helper asserting that
    # the completion is the awaited one while the caller let a foreign one through): that is a crash, not an infeasible path.
    assert_failures = None  # set to a list to collect them

    def cond_event(self, expr, value, st):
        if self.assert_failures is not None:
            self._note_assert(expr, value, st)
        return ASpec.cond_event(self, expr, value, st)

    def _note_assert(self, expr, value, st):
        if self.decide(expr, st, self._depth) is not value:
            return  # forked, not decided
        pol, n, p = value, expr, getattr(expr, "_parent", None)
        while True:
            if isinstance(p, ast.UnaryOp) and isinstance(p.op, ast.Not):
                pol = not pol
            elif isinstance(p, ast.BoolOp) and ((isinstance(p.op, ast.And) and pol is False) or (isinstance(p.op, ast.Or) and pol is True)):
                pass  # a false conjunct / true disjunct decides the whole operation
            elif isinstance(p, ast.Assert) and n is p.test:
                break
            else:
                return
            n, p = p, getattr(p, "_parent", None)
        if pol is False:
            self.assert_failures.append(norm(p))

    _pre = None

    def events(self, node, st):
        self._pre = (node, st)  # the state before the statement's own events (the engine calls effect() right after events() for the same state)
        return ASpec.events(self, node, st)

    def effect(self, stmt, st, depth):
        # `a, b = x, y`: all of the right-hand side is evaluated in the old state, then the targets are bound one by one
        if isinstance(stmt, ast.Assign) and len(stmt.targets) == 1 and isinstance(stmt.targets[0], (ast.Tuple, ast.List)) and isinstance(stmt.value, (ast.Tuple, ast.List)):
            pairs = _assign_pairs(stmt)
            if all(v is not None for _, v in pairs):
                old = self._pre[1] if self._pre and self._pre[0] is stmt else st
                vals = [self.value(v, old, depth) for _, v in pairs]
                for (t, v), val in zip(pairs, vals):
                    st = ASpec.bind(self, t, v, st, depth, value=val)
                return st
        return ASpec.effect(self, stmt, st, depth)

    def decide_extra(self, cond, st, depth):
        cp = compare_pair(cond, (ast.Is, ast.IsNot, ast.Eq, ast.NotEq))
        if cp:
            a, b = self.value(cp[0], st, depth), self.value(cp[1], st, depth)
            if a == C(None):
                a, b = b, a
            if b == C(None) and isinstance(a, tuple) and a and a[0] in ("cmd", "gen", "param", "deq", "recv", "self"):
                return isinstance(cp[2], (ast.IsNot, ast.NotEq))
        return None


def _sub_exprs(node):
    """Sub-expressions to label, in evaluation order (none for the synthetic assignments of LSpec.bind)."""
    return () if getattr(node, "_assign_only", False) else eval_order(node)


def _is_cast(expr):
    """``cast(T, x)`` / ``typing.cast(T, x)``: transparent."""
    return isinstance(expr, ast.Call) and last_attr(expr.func) == "cast" and len(expr.args) == 2 and not expr.keywords


def _effectful_arg(a):
    """Does evaluating argument ``a`` involve a call / yield (other than the transparent cast)?"""
    for x in ast.walk(a):
        if isinstance(x, (ast.Yield, ast.YieldFrom, ast.Await, ast.NamedExpr)) or (isinstance(x, ast.Call) and not _is_cast(x)):
            return True
    return False


def _syntactic_advance(call, names):
    """name of the generator variable if ``call`` is ``<name>.send(x)`` / ``next(<name>)`` with name in ``names``."""
    if not isinstance(call, ast.Call):
        return None
    f = call.func
    if isinstance(f, ast.Attribute) and f.attr == "send" and isinstance(f.value, ast.Name) and f.value.id in names:
        return f.value.id
    if isinstance(f, ast.Name) and f.id == "next" and len(call.args) == 1 and isinstance(call.args[0], ast.Name) and call.args[0].id in names:
        return call.args[0].id
    return None


class _Roles:
    """Who is who in class Layer, found by ROLE (what the code does), not by the private names:
    paused  - the attribute initialised to None in __init__ that is elsewhere assigned a record (class of the module) construction
    queue   - the attribute initialised with a deque() in __init__
    record  - the record class with a command field and a generator field
    pump    - the method (not handle_event) that advances a generator it receives as a parameter (``p.send(x)`` / ``next(p)``)
    helpers - every other method touching that state (transitively): inlined at its call sites, so its name and extent do not matter
    """


def _layer_roles(ctx):
    m = ctx.model
    mod = m.module(F)
    cls = m.cls(F, "Layer")
    r = _Roles()
    r.methods = {st.name: st for st in cls.body if isinstance(st, (ast.FunctionDef, ast.AsyncFunctionDef))}
    init = ctx.func(F, "Layer.__init__")
    ctx.require("_handle_event" in r.methods, "Layer._handle_event (the hook concrete layers implement) vanished")
    deques, nones = [], []
    for n in _own_nodes(init):
        for t, v in _assign_pairs(n):
            a = _self_attr(t)
            if not a or v is None:
                continue
            if isinstance(v, ast.Call) and last_attr(v.func.value if isinstance(v.func, ast.Subscript) else v.func) == "deque":
                deques.append(a)
            elif isinstance(v, ast.Constant) and v.value is None:
                nones.append(a)
    ctx.require(len(set(deques)) == 1, f"Layer.__init__: expected exactly one attribute initialised with a deque (the paused-event queue), found {sorted(set(deques))}")
    r.queue_attr = deques[0]
    cands = {}
    for name, fn in r.methods.items():
        if name == "__init__":
            continue
        for n in _own_nodes(fn):
            for t, v in _assign_pairs(n):
                a = _self_attr(t)
                if a in nones and isinstance(v, ast.Call):
                    d = m.resolve_name(mod, v.func)
                    if d is not None and isinstance(d[1], ast.ClassDef) and d[0] is mod:
                        cands.setdefault(a, {})[d[1].name] = d[1]
    if not cands and "_paused" in nones and isinstance(mod.get("Paused"), ast.ClassDef):
        cands = {"_paused": {"Paused": mod.get("Paused")}}  # record built into a temporary first: fall back to the documented names
    ctx.require(len(cands) == 1 and len(next(iter(cands.values()))) == 1,
                f"Layer: expected exactly one attribute that is None in __init__ and later assigned a pause record, found {sorted(cands)}")
    r.paused_attr = next(iter(cands))
    r.rec_cls = next(iter(cands[r.paused_attr].values()))
    r.PAUSED = "self." + r.paused_attr
    r.QUEUE = "self." + r.queue_attr
    ann = {st.target.id: ast.unparse(st.annotation) for st in r.rec_cls.body if isinstance(st, ast.AnnAssign) and isinstance(st.target, ast.Name)}
    r.rec_fields = dataclass_fields(r.rec_cls)
    gens = [f for f in r.rec_fields if "Generator" in ann[f]]
    cmds = [f for f in r.rec_fields if "Command" in ann[f] and "Generator" not in ann[f]]
    if len(gens) != 1 or len(cmds) != 1:
        gens = [f for f in r.rec_fields if f == "generator"]
        cmds = [f for f in r.rec_fields if f == "command"]
    ctx.require(len(r.rec_fields) == 2 and len(gens) == 1 and len(cmds) == 1,
                f"{r.rec_cls.name}: expected a record of (command, generator), found fields {r.rec_fields}")
    r.gen_field, r.cmd_field = gens[0], cmds[0]

    # pump: advances a generator parameter (itself, or by handing it on to a helper that does)
    dmemo = {}

    def drives(name):
        """own parameters of method ``name`` that are advanced as generators"""
        if name in dmemo:
            return dmemo[name]
        dmemo[name] = set()
        fn = r.methods[name]
        ps = params_of(fn)
        hit = set()
        for n in _own_nodes(fn):
            g = _syntactic_advance(n, ps)
            if g:
                hit.add(g)
            c = _self_callee(n) if isinstance(n, ast.Call) else ""
            if c and c in r.methods and c != name and c not in ("handle_event", "__init__", "_handle_event"):
                cps = params_of(r.methods[c])
                passed = {cps[i]: a for i, a in enumerate(n.args) if i < len(cps)}
                passed.update({k.arg: k.value for k in n.keywords if k.arg})
                for cp_, a in passed.items():
                    if cp_ in drives(c) and isinstance(a, ast.Name) and a.id in ps:
                        hit.add(a.id)
        dmemo[name] = hit
        return hit

    adv = {}
    for name in r.methods:
        if name in ("handle_event", "__init__", "_handle_event"):
            continue
        if drives(name):
            adv[name] = drives(name)
    outer = {n for n in adv if not any(o != n and any(_self_callee(c) == n for c in _own_nodes(r.methods[o])) for o in adv)}
    ctx.require(len(outer) == 1, f"Layer: expected exactly one method that drives a command generator handed to it (the command pump), found {sorted(outer) or sorted(adv)}"
                " (shape not modelled)")
    r.pump_name = next(iter(outer))
    r.pump = r.methods[r.pump_name]
    r.pump_params = params_of(r.pump)
    ctx.require(len(r.pump_params) == 2 and len(adv[r.pump_name]) == 1, f"Layer.{r.pump_name} no longer has the (command_generator, send) signature")
    r.gen_param = next(iter(adv[r.pump_name]))
    r.send_param = [p for p in r.pump_params if p != r.gen_param][0]
    ctx.functions.add(f"{F}::Layer.{r.pump_name}")

    # relevance (transitive): does a method touch the alphabet of the rules?
    memo = {}

    def relevant(name):
        if name in memo:
            return memo[name]
        memo[name] = False  # cycles
        fn = r.methods[name]
        ps = set(params_of(fn))
        res = False
        for n in _own_nodes(fn):
            if isinstance(n, ast.Attribute) and (_self_attr(n) in (r.paused_attr, r.queue_attr) or n.attr == "blocking"):
                res = True
            elif isinstance(n, ast.Call):
                c = _self_callee(n)
                if _syntactic_advance(n, ps) or c in (r.pump_name, "_handle_event") or (c in r.methods and c != name and relevant(c)):
                    res = True
            if res:
                break
        memo[name] = res
        return res

    r.opaque = {r.pump_name, "_handle_event", "handle_event", "__init__"}
    r.relevant = relevant
    r.properties = {name: fn for name, fn in r.methods.items() if any(last_attr(d) in ("property", "cached_property") for d in fn.decorator_list) and relevant(name)}
    # module-level helper functions that look at commands / completions / pause records
    fields = {"blocking", r.cmd_field, r.gen_field, r.paused_attr, r.queue_attr}
    r.modfuncs = {}
    for st in mod.tree.body:
        if isinstance(st, ast.FunctionDef):
            ps = set(params_of(st))
            if any((isinstance(n, ast.Attribute) and (n.attr in fields or n.attr == "CommandCompleted")) or (isinstance(n, ast.Name) and n.id == "CommandCompleted") or
                   _syntactic_advance(n, ps) for n in _own_nodes(st)):
                r.modfuncs[st.name] = st

    def resolver(call):
        c = _self_callee(call)
        fn = None
        if c and c in r.methods and c not in r.opaque and c not in r.properties and relevant(c):
            fn = r.methods[c]
        elif isinstance(call, ast.Call) and isinstance(call.func, ast.Name) and call.func.id in r.modfuncs:
            fn = r.modfuncs[call.func.id]
        if fn is not None:
            for a in list(call.args) + [k.value for k in call.keywords]:
                if _effectful_arg(a):
                    raise AnalysisError(f"{norm(call)}: helper argument with a call / yield inside (effects of arguments of inlined helpers are not modelled)")
            ctx.functions.add(f"{F}::{getattr(fn, '_qual', fn.name)}")
        return fn

    r.resolver = resolver

    def may_stop(name, seen=()):
        """May calling self.<name>() let a StopIteration of a generator advance escape?"""
        if name in seen or name not in r.methods or name in r.opaque:
            return False
        fn = r.methods[name]
        ps = set(params_of(fn))
        for n in _own_nodes(fn):
            if isinstance(n, ast.Call) and (_syntactic_advance(n, ps) or may_stop(_self_callee(n), seen + (name,))):
                p = getattr(n, "_parent", None)
                prev = n
                caught = False
                while p is not None and p is not fn:
                    if isinstance(p, ast.Try) and prev in p.body and any(h.type is None or last_attr(h.type) in ("StopIteration", "Exception", "BaseException") or
                                                                           (isinstance(h.type, ast.Tuple) and any(last_attr(e) in ("StopIteration", "Exception", "BaseException") for e in h.type.elts))
                                                                           for h in p.handlers):
                        caught = True
                        break
                    prev, p = p, getattr(p, "_parent", None)
                if not caught:
                    return True
        return False

    r.may_stop = may_stop
    return r


def _advance(call, st, sp):
    """(gen_value, send_value) if ``call`` advances a tracked generator: G.send(x) | next(G)."""
    if not isinstance(call, ast.Call):
        return None
    f = call.func
    if isinstance(f, ast.Attribute) and f.attr == "send" and len(call.args) == 1 and _is_gen(sp.v(f.value, st)):
        return sp.v(f.value, st), sp.v(call.args[0], st)
    if isinstance(f, ast.Name) and f.id == "next" and len(call.args) == 1 and _is_gen(sp.v(call.args[0], st)):
        return sp.v(call.args[0], st), C(None)
    return None


def _n_setb(trace):
    """Epoch of ``<command>.blocking``: it changes when the layer claims the command and when the next command is obtained."""
    return sum(1 for t in trace if t[0] in ("setb", "adv"))


def _blocking_atom(expr, st, sp):
    """Leaf forms over ``<command>.blocking`` (read directly or through a local that still holds the current value)."""

    def is_blocking(e):
        if isinstance(e, ast.Attribute) and e.attr == "blocking" and sp.v(e.value, st) == CMD:
            return True
        return isinstance(e, ast.Name) and sp.v(e, st) == ("blk", _n_setb(st.trace))

    def mentions(e):
        if isinstance(e, ast.Attribute) and e.attr == "blocking" and sp.v(e.value, st) == CMD:
            return True
        v = sp.v(e, st) if isinstance(e, ast.Name) else None
        return isinstance(v, tuple) and len(v) == 2 and v[0] == "blk"

    if is_blocking(expr):
        return ("Btruthy", True)
    if isinstance(expr, ast.Call) and isinstance(expr.func, ast.Name) and expr.func.id == "bool" and len(expr.args) == 1 and is_blocking(expr.args[0]):
        return ("Btruthy", True)
    cp = compare_pair(expr, (ast.Is, ast.IsNot, ast.Eq, ast.NotEq))
    if cp:
        l, r = cp[0], cp[1]
        if isinstance(l, ast.Constant) and not isinstance(r, ast.Constant):
            l, r = r, l
        if is_blocking(l) and isinstance(r, ast.Constant) and isinstance(r.value, bool):
            pos = isinstance(cp[2], (ast.Is, ast.Eq))
            return ("Btrue" if r.value else "Bfalse", pos)
    if any(mentions(n) for n in ast.walk(expr)):
        raise AnalysisError(f"unmodelled test of command.blocking: {norm(expr)}")
    return None


# ---------------------------------------------------------------------------------------------------
# Layer.handle_event / command pump / resume-and-drain


def _paused_content(trace):
    """Abstract content of the paused attribute after ``trace``: ('rec', 0) the value at entry (None or a record: the scenario says which),
    C(None) after a reset, ('recv', command, generator) after a record was stored, ('rec', k) unknown after the k-th event (a pump call
    may or may not have paused again)."""
    for i in range(len(trace) - 1, -1, -1):
        t = trace[i]
        if t[0] == "reset":
            return C(None)
        if t[0] == "setp":
            if isinstance(t[1], tuple) and t[1] and t[1][0] == "?":
                return ("unk", i + 1)  # assigned something the rule cannot evaluate
            return ("recv", t[1], t[2])
        if t[0] == "process":
            return ("rec", i + 1)
    return ("rec", 0)


def _layer_spec(roles, event_param, scenario, unroll=2):
    rec_name = roles.rec_cls.name
    scenario = dict(scenario)
    scenario.setdefault("Pset", True)

    def is_queue(e, st, sp):
        return sp.v(e, st) == R(roles.QUEUE)

    def rec_args(call, st, sp):
        """(command value, generator value) of a record construction."""
        vals = {}
        for i, a in enumerate(call.args):
            if isinstance(a, ast.Starred) or i >= len(roles.rec_fields):
                return ("?", norm(call)), ("?",)
            vals[roles.rec_fields[i]] = a
        for k in call.keywords:
            if k.arg is None:
                return ("?", norm(call)), ("?",)
            vals[k.arg] = k.value
        c, g = vals.get(roles.cmd_field), vals.get(roles.gen_field)
        return (sp.v(c, st) if c is not None else ("?",), sp.v(g, st) if g is not None else ("?",))

    def prop_value(fn, st, sp):
        """value of a read-only property of the layer whose body is a single `return <expr>` (conditional expressions decided)"""
        body = [b for b in fn.body if not (isinstance(b, ast.Expr) and isinstance(b.value, ast.Constant))]
        if len(body) != 1 or not isinstance(body[0], ast.Return) or body[0].value is None:
            return None
        e = body[0].value
        while isinstance(e, ast.IfExp):
            d = sp.decide(e.test, st, sp._depth)
            if d is None:
                return None
            e = e.body if d else e.orelse
        return sp.v(e, st)

    def val(expr, st, sp):
        if _is_cast(expr):
            return sp.v(expr.args[1], st)
        a = _self_attr(expr)
        if a and a in roles.properties and isinstance(getattr(expr, "ctx", None), ast.Load):
            v = prop_value(roles.properties[a], st, sp)
            if v is None:
                raise AnalysisError(f"self.{a}: property over the pause state that the rule cannot evaluate (shape not modelled)")
            return v
        if isinstance(expr, ast.Call):
            if is_self_call(expr, "_handle_event") and len(expr.args) == 1 and not expr.keywords:
                return ("gen", sp.v(expr.args[0], st))
            if method_on(expr, lambda e: is_queue(e, st, sp)) in ("popleft", "pop"):
                return ("deq",)
            if _advance(expr, st, sp):
                return CMD
            if last_attr(expr.func) == rec_name and not isinstance(expr.func, ast.Call):
                c, g = rec_args(expr, st, sp)
                return ("recv", c, g)
            return None
        if isinstance(expr, ast.Name) and expr.id == "self":
            return ("self",)
        if attr_chain(expr) == roles.PAUSED:
            return _paused_content(st.trace)
        if isinstance(expr, ast.Attribute):
            base = sp.v(expr.value, st)
            if isinstance(base, tuple) and base:
                if base == ("rec", 0):
                    if expr.attr == roles.gen_field:
                        return ("gen", ("paused",))
                    if expr.attr == roles.cmd_field:
                        return ("awaited",)
                elif base[0] == "recv":
                    if expr.attr == roles.cmd_field:
                        return base[1]
                    if expr.attr == roles.gen_field:
                        return base[2]
                elif base[0] == "param":
                    return ("attr", base[1], expr.attr)
                elif base == CMD and expr.attr == "blocking":
                    return ("blk", _n_setb(st.trace))
        return None

    def pump_args(c, st, sp):
        vals = {}
        for i, a in enumerate(c.args):
            if isinstance(a, ast.Starred) or i >= len(roles.pump_params):
                return ("?",), ("?",)
            vals[roles.pump_params[i]] = a
        for k in c.keywords:
            if k.arg is None:
                return ("?",), ("?",)
            vals[k.arg] = k.value
        g, s = vals.get(roles.gen_param), vals.get(roles.send_param)
        return (sp.v(g, st) if g is not None else ("?",), sp.v(s, st) if s is not None else C(None))

    def label(node, st, sp):
        out = []
        for n in _sub_exprs(node):
            if isinstance(n, ast.Call):
                m = method_on(n, lambda e: is_queue(e, st, sp))
                if m == "popleft" and not n.args:
                    out.append(("deq", "front"))
                    sp.deq_nodes.append(n)
                elif m == "pop":
                    a = [x.value if isinstance(x, ast.Constant) else "?" for x in n.args]
                    sp.deq_nodes.append(n)
                    if a == [0]:
                        out.append(("deq", "front"))
                    elif a in ([], [-1]):
                        out.append(("deq", "back"))
                    else:
                        raise AnalysisError(f"unmodelled dequeue idiom {norm(n)}")
                elif m:
                    out.append(("queue", m, tuple(sp.v(x, st) for x in n.args)))
                elif is_self_call(n, "_handle_event"):
                    out.append(("handle", sp.v(n.args[0], st) if len(n.args) == 1 and not n.keywords else ("?",)))
                elif is_self_call(n, roles.pump_name):
                    if not isinstance(getattr(n, "_parent", None), ast.YieldFrom):
                        raise AnalysisError(f"{norm(n)} is not driven by `yield from` (shape not modelled)")
                elif roles.resolver(n) is not None:
                    raise AnalysisError(f"{norm(n)}: a helper that touches the pause state is called in a position the path engine does not inline (shape not modelled)")
                else:
                    adv = _advance(n, st, sp)
                    if adv:
                        out.append(("adv",) + adv)
            elif isinstance(n, ast.YieldFrom) and isinstance(n.value, ast.Call):
                c = n.value
                if is_self_call(c, roles.pump_name):
                    out.append(("process",) + pump_args(c, st, sp))
            elif isinstance(n, ast.Yield) and n.value is not None and sp.v(n.value, st) == CMD:
                out.append(("yield", "cmd"))
        for t, v in _assign_pairs(node):
            if attr_chain(t) == roles.PAUSED:
                vv = sp.v(v, st) if v is not None and not isinstance(node, ast.AugAssign) else None
                if vv == C(None):
                    out.append(("reset",))
                elif isinstance(vv, tuple) and vv and vv[0] == "recv":
                    out.append(("setp", vv[1], vv[2]))
                else:
                    out.append(("setp", ("?", norm(v) if v is not None else norm(node)), ("?",)))
            elif isinstance(t, ast.Attribute) and t.attr == "blocking" and sp.v(t.value, st) == CMD:
                out.append(("setb", "self" if v is not None and sp.v(v, st) == ("self",) else norm(v if v is not None else node)))
        if isinstance(node, ast.Delete) and any(attr_chain(t) == roles.PAUSED for t in node.targets):
            out.append(("setp", ("?", norm(node)), ("?",)))
        return out

    def atom(expr, st, sp):
        if isinstance(expr, ast.NamedExpr):
            expr = expr.target  # the engine has bound the target already and decides on it
        cur = _paused_content(st.trace)

        def is_cur(e):
            return isinstance(e, (ast.Name, ast.Attribute)) and sp.v(e, st) == cur

        if cur[0] in ("rec", "recv"):
            p = truthiness_of(expr, is_cur)
            if p is not None:
                if cur[0] == "recv":
                    return ("Pset", p)
                return ("P" if cur == ("rec", 0) else "P+", p)
        q = truthiness_of(expr, lambda e: isinstance(e, (ast.Name, ast.Attribute)) and is_queue(e, st, sp))
        if q is not None:
            return ("Q", q)
        io = isinstance_names(expr)
        if io and sp.v(io[0], st) == ("param", event_param) and io[1] == ["CommandCompleted"]:
            return ("I", True)
        cp = compare_pair(expr, (ast.Is, ast.IsNot, ast.Eq, ast.NotEq))
        if cp:
            vals = {sp.v(cp[0], st), sp.v(cp[1], st)}
            if vals == {("attr", event_param, "command"), ("awaited",)}:
                if sp.scenario.get("I") is False:
                    sp.problems.append(f"`{norm(expr)}` is evaluated for an event that is not a CommandCompleted (no .command attribute)")
                ident = isinstance(cp[2], (ast.Is, ast.IsNot))
                return ("S" if ident else "Seq", isinstance(cp[2], (ast.Is, ast.Eq)))
        return _blocking_atom(expr, st, sp)

    def raises(stmt, st, sp):
        for n in ast.walk(stmt):
            if isinstance(n, ast.Call) and (_advance(n, st, sp) or roles.may_stop(_self_callee(n))):
                return ["StopIteration"]
        return []

    sp = LSpec(label=label, atom=atom, scenario=scenario, val=val, raises=raises, resolver=roles.resolver, unroll=unroll, max_depth=5)
    sp.deq_nodes = []
    sp.assert_failures = []
    return sp


PUMP = ("adv", "yield", "setb", "setp", "reset", "caught", "process", "handle", "queue", "deq")


def _canon(tokens):
    """Replace concrete generator values by 'G' (sibling comparison modulo where the generator came from)."""

    def c(x):
        if _is_gen(x):
            return "G"
        return x

    return tuple(tuple(c(x) for x in t) for t in tokens)


def _pump_ok(tokens, bval, gen, send0):
    """Is the projected token sequence a word of the command-pump language for blocking value ``bval``?  -> reason | None"""
    stop = ("caught", "StopIteration")
    toks = list(tokens)
    if toks == [("process", gen, send0)]:
        return None  # delegates to the pump function (checked on its own)
    i = 0
    first = True
    while True:
        if i < len(toks) and toks[i] == stop:
            if i != len(toks) - 1:
                return "events after the generator was exhausted"
            return None
        if i >= len(toks):
            return "returns although the generator is neither exhausted nor blocked"
        want = ("adv", gen, send0 if first else C(None))
        if toks[i] != want:
            return f"expected generator advance {want}, saw {toks[i]}"
        first = False
        i += 1
        if bval == "True":
            rest = toks[i:]
            if ("yield", "cmd") not in rest:
                return "blocking command is never yielded"
            y = rest.index(("yield", "cmd"))
            before, after = rest[:y], rest[y + 1 :]
            if sorted(before) != sorted([("setb", "self"), ("setp", CMD, gen)]):
                return f"before yielding a blocking command the layer must set command.blocking = self and _paused = Paused(command, generator) (saw {before})"
            if after:
                return f"the layer goes on after yielding a blocking command: {after}"
            return None
        if i >= len(toks) or toks[i] != ("yield", "cmd"):
            return f"non-blocking command (blocking={bval}) is not yielded exactly once right after it was obtained (saw {toks[i] if i < len(toks) else 'end'})"
        i += 1


def _run(stmts, sp, bindings):
    b = dict(bindings)
    return run_block(stmts, sp, b, depth_aware=True)


def _check_pump(ctx, roles, rule, where, name, stmts, bindings, gen, send0, strip_handle=None):
    """Run the pump language check for the three blocking values. Returns {bval: set(canonical traces)}."""
    sets = {}
    for bval, sc in BLOCKING_VALUES.items():
        scenario = dict(sc)
        scenario["P"] = False
        sp = _layer_spec(roles, strip_handle or "event", scenario)
        traces, eng = _run(stmts, sp, bindings)
        ctx.paths += len(traces)
        ctx.require(traces or sp.assert_failures, f"{name}: no terminating path for blocking={bval}")
        got = set()
        bad = None
        crashed = False
        for a in dict.fromkeys(sp.assert_failures):
            crashed = True
            ctx.fail(rule, where, f"{name} blocking={bval}", f"`{a}` fails for this kind of command (AssertionError while driving the generator)")
        for tr, how, _ in traces:
            toks = proj(tr, PUMP)
            if strip_handle is not None:
                hs = [t for t in toks if t[0] == "handle"]
                other = [t for t in toks if t[0] in ("queue", "deq", "reset")]
                if hs != [("handle", ("param", strip_handle))] or toks[0] != hs[0] or other:
                    ctx.fail("R04.1", where, "paused=False", f"an event arriving while not paused must be passed to _handle_event exactly once and nothing else; trace: {show(toks)}")
                    continue
                toks = toks[1:]
            if how != "return":
                bad = f"path ends with {how}"
            else:
                bad = _pump_ok(toks, bval, gen, send0)
            got.add(_canon(toks))
            if bad:
                ctx.fail(rule, where, f"{name} blocking={bval}", f"{bad}; trace: {show(toks)}")
                break
        if not bad and not crashed:
            ctx.ok(rule, f"{name} blocking={bval}: {len(traces)} paths in the pump language")
        sets[bval] = got
    return sets


def _layer_core(ctx):
    roles = _layer_roles(ctx)
    he = ctx.func(F, "Layer.handle_event")
    pr = roles.pump
    pname = roles.pump_name
    ev = params_of(he)
    ctx.require(len(ev) == 1, "Layer.handle_event no longer takes exactly one event parameter")
    ev = ev[0]
    where = (F, "Layer.handle_event", he)
    KIND = PUMP + ("cond",)

    def with_conds(tr):
        out = []
        for t in proj(tr, KIND):
            if t[0] == "cond":
                if t[1] in ("P", "P+"):
                    out.append(("cond", "P", t[2]))
                elif t[1] == "Q":
                    out.append(t)
            else:
                out.append(t)
        return out

    # ---- R04.1 paused rows; the row of the awaited completion is at the same time the resume-and-drain sequence of R04.2
    n_deq = 0
    deq_nodes = []
    r2_problems = {}
    r2_paths = 0
    r2_seen = False
    for I in (True, False):
        for S in (True, False):
            scenario = {"P": True, "I": I, "S": S}
            if S:
                scenario["Seq"] = True
            resume = I and S
            sp = _layer_spec(roles, ev, scenario)
            traces, _ = _run(he.body, sp, {ev: ("param", ev)})
            if resume and max([sum(1 for t in tr if t[0] == "deq") for tr, _, _ in traces] or [0]) == 1:
                # a `while True: if <guard>: break` drain loop needs one more unrolling before a path with two dequeues leaves the loop
                sp = _layer_spec(roles, ev, scenario, unroll=3)
                traces, _ = _run(he.body, sp, {ev: ("param", ev)})
            ctx.paths += len(traces)
            ctx.cells += 1
            ctx.require(traces or sp.assert_failures, "Layer.handle_event: no terminating path in a paused scenario")
            want = (("queue", "append", (("param", ev),)),)
            cons = f"paused=True completion={I} own_command={S}"
            ok = True
            if not (I is False and S is True):  # own_command is meaningless for non-completions; the table row is still evaluated
                for p in sp.problems:
                    ok = False
                    ctx.fail("R04.1", where, "completion test order", p)
            for a in dict.fromkeys(sp.assert_failures):
                ok = False
                ctx.fail("R04.1", where, cons, f"`{a}` fails in this scenario: the event is neither queued nor handled (AssertionError)")
            for tr, how, _ in traces:
                toks = proj(tr, PUMP)
                if resume:
                    kinds = {t[0] for t in toks}
                    if "queue" in kinds or not (kinds & {"reset", "process", "deq", "handle", "adv"}):
                        ok = False
                        ctx.fail("R04.1", where, cons, f"the awaited completion does not (only) resume the paused generator; trace: {show(toks)} ({how})")
                        break
                    r2_seen = True
                    r2_paths += 1
                    ctoks = with_conds(tr)
                    why = _continue_ok(ctoks, ev) if how == "return" else ("resume", f"path ends with {how}")
                    n_deq = max(n_deq, sum(1 for t in toks if t[0] == "deq"))
                    if why:
                        r2_problems.setdefault(why[0], (why[1], ctoks))
                elif how != "return" or toks != want:
                    ok = False
                    if any(t[0] in ("handle", "adv", "process", "reset", "deq") for t in toks):
                        why = "an event other than the awaited completion is handled / resumes the generator while the layer is blocked"
                    else:
                        why = "an event arriving while blocked is not appended (once, at the back) to the paused-event queue"
                    ctx.fail("R04.1", where, cons, f"{why}; trace: {show(toks)} ({how})")
                    break
            if resume:
                deq_nodes = list(sp.deq_nodes)
            if ok:
                ctx.ok("R04.1", f"{cons}: {'resume-and-drain sequence (R04.2)' if resume else show(want)} on {len(traces)} paths")

    # ---- R04.1 not-paused row + R04.3 pump language of the inlined copy
    inl = _check_pump(ctx, roles, "R04.3", where, "handle_event(not paused)", he.body, {ev: ("param", ev)}, ("gen", ("param", ev)), C(None), strip_handle=ev)
    if not any(f.rule == "R04.1" and f.construct == "paused=False" for f in ctx.findings):
        ctx.ok("R04.1", "paused=False: exactly one _handle_event(event), generator driven, no queue operation")
    ctx.cells += 1

    # ---- R04.3 the pump function
    gp, spn = roles.gen_param, roles.send_param
    wherep = (F, f"Layer.{pname}", pr)
    prs = _check_pump(ctx, roles, "R04.3", wherep, pname, pr.body, {gp: ("gen", ("arg",)), spn: ("send0",)}, ("gen", ("arg",)), ("send0",))
    dmap = {}
    allp = [a.arg for a in pr.args.posonlyargs + pr.args.args]
    for p, d in zip(allp[len(allp) - len(pr.args.defaults):], pr.args.defaults):
        dmap[p] = d
    for a, d in zip(pr.args.kwonlyargs, pr.args.kw_defaults):
        if d is not None:
            dmap[a.arg] = d
    d = dmap.get(spn)
    ctx.check(isinstance(d, ast.Constant) and d.value is None and gp not in dmap, "R04.3", wherep, "send default",
              f"{pname}'s send parameter must default to None (a fresh generator can only be sent None)", desc=f"{pname}(send=None) default")

    # ---- R04.4 sibling agreement (trace sets, generator origin abstracted, send=None)
    delegated = all(s == {(("process", "G", C(None)),)} for s in inl.values())
    if delegated:
        for bval in BLOCKING_VALUES:
            ctx.ok("R04.4", f"handle_event delegates to {pname} (no inlined copy), blocking={bval}")
    else:
        for bval, sc in BLOCKING_VALUES.items():
            scenario = dict(sc)
            sp = _layer_spec(roles, "event", scenario)
            traces, _ = _run(pr.body, sp, {gp: ("gen", ("arg",)), spn: C(None)})
            ref = {_canon(proj(tr, PUMP)) for tr, how, _ in traces}
            a, b = inl[bval], ref
            ctx.check(a == b, "R04.4", where, f"inlined copy of __process, blocking={bval}",
                      f"the inlined copy and {pname} differ: only inlined {sorted(map(show, a - b))[:2]}, only {pname} {sorted(map(show, b - a))[:2]}",
                      desc=f"inlined copy == {pname}(gen, None) for blocking={bval}: {len(a)} projected traces")

    # ---- R04.2 resume-and-drain (the traces of the awaited-completion row, helpers inlined wherever the code lives)
    def owner(n):
        p = n
        while p is not None and not isinstance(p, (ast.FunctionDef, ast.AsyncFunctionDef)):
            p = getattr(p, "_parent", None)
        return p

    co = owner(deq_nodes[0]) if deq_nodes else he
    wherec = (F, f"Layer.{co.name}", co)
    if r2_seen:
        for cons, (why, toks) in r2_problems.items():
            ctx.fail("R04.2", wherec, cons, f"{why}; trace: {show(toks)}")
        if not r2_problems:
            ctx.ok("R04.2", f"resume-and-drain ({co.name}): {r2_paths} paths: reset, resume the stored generator with event.reply, guarded FIFO drain (up to {n_deq} dequeues per path)")
        seen = set()
        for dq in deq_nodes:
            if id(dq) in seen:
                continue
            seen.add(id(dq))
            p = dq
            while p is not None and not isinstance(p, (ast.While, ast.For, ast.FunctionDef, ast.AsyncFunctionDef)):
                p = getattr(p, "_parent", None)
            ctx.check(isinstance(p, ast.While), "R04.2", wherec, "drain loop", "queued events are not drained by a `while` loop that re-evaluates its guard after every event "
                      "(remaining events would stay queued although the layer is not blocked)", desc="dequeue sits in a while loop")
        ctx.require(n_deq >= 2 or any(f.rule == "R04.2" for f in ctx.findings), f"Layer.{co.name}: the drain loop was not explored for two iterations")
    ctx.expect_instances("R04.1", 5)
    ctx.expect_instances("R04.2", 2)
    ctx.expect_instances("R04.3", 7)
    ctx.expect_instances("R04.4", 3)


def _continue_ok(toks, ev):
    """Resume-and-drain language over one projected trace -> (construct, reason) | None"""
    kinds = [t[0] for t in toks]
    if "process" not in kinds:
        return ("resume", "the paused generator is never resumed")
    fp = kinds.index("process")
    pre = toks[:fp]
    prek = [t[0] for t in pre]
    if any(k in ("handle", "deq", "adv", "queue", "setp") for k in prek):
        return ("resume", "something is handled before the paused generator is resumed")
    if prek.count("reset") != 1:
        return ("reset before resume", "self._paused is not reset to None (exactly once) before the generator is resumed - a pause set while resuming would be lost / the layer stays blocked")
    if toks[fp] != ("process", ("gen", ("paused",)), ("attr", ev, "reply")):
        if toks[fp][1] != ("gen", ("paused",)):
            return ("reset before resume", f"the generator that is resumed is not the one stored in self._paused when the completion arrived (read before the reset); saw {toks[fp][1]}")
        return ("resume value", f"the paused generator must be resumed with exactly event.reply (saw {toks[fp]})")
    i = fp + 1
    seenP = seenQ = None
    while i < len(toks):
        t = toks[i]
        if t[0] == "cond":
            if t[1] == "P":
                seenP = t[2]
            else:
                seenQ = t[2]
            i += 1
            continue
        if t[0] == "deq":
            if t[1] != "front":
                return ("dequeue", "queued events are taken from the back of the queue (LIFO) - arrival order is lost")
            if seenP is not False or seenQ is not True:
                return ("drain guard", "an event is dequeued without re-checking `not self._paused and queue` after the previous generator ran "
                        "(a new event would be handled while the layer is blocked again)")
            nxt = [x for x in toks[i + 1 :] if x[0] != "cond"][:2]
            if nxt != [("handle", ("deq",)), ("process", ("gen", ("deq",)), C(None))]:
                return ("dequeued event", f"a dequeued event is not passed to _handle_event exactly once and driven (saw {nxt})")
            j = i + 1
            seen = 0
            while seen < 2:
                if toks[j][0] != "cond":
                    seen += 1
                j += 1
            i = j
            seenP = seenQ = None
            continue
        return ("drain", f"unexpected effect in the drain phase: {t}")
    return None


def _helper_resolver(ctx, rel, cls, opaque, touches):
    """Resolver that inlines ``self.<m>(...)`` for every method m of class ``cls`` (own body) that - transitively through other such helpers -
    contains a node with ``touches(node)``; methods named in ``opaque`` are never inlined (they are summarised by the rule's own tokens).
    An extracted helper is therefore analysed exactly like the statements it replaced, whatever it is called."""
    methods = {st.name: st for st in ctx.model.cls(rel, cls).body if isinstance(st, (ast.FunctionDef, ast.AsyncFunctionDef))}
    memo = {}

    def relevant(name):
        if name in memo:
            return memo[name]
        memo[name] = False
        res = False
        for n in _own_nodes(methods[name]):
            if touches(n):
                res = True
            elif isinstance(n, ast.Call):
                c = _self_callee(n)
                if c in methods and c not in opaque and c != name and relevant(c):
                    res = True
            if res:
                break
        memo[name] = res
        return res

    def resolver(call):
        c = _self_callee(call)
        if c and c in methods and c not in opaque and relevant(c):
            for a in list(call.args) + [k.value for k in call.keywords]:
                if _effectful_arg(a):
                    raise AnalysisError(f"{norm(call)}: helper argument with a call / yield inside (effects of arguments of inlined helpers are not modelled)")
            ctx.functions.add(f"{rel}::{cls}.{c}")
            return methods[c]
        return None

    return resolver


def _uninlined_guard(resolver, node):
    """A helper the rule would have to look into, called where the path engine does not inline calls (nested in an expression)."""
    for n in ast.walk(node):
        if isinstance(n, ast.Call) and resolver(n) is not None:
            raise AnalysisError(f"{norm(n)}: a helper that touches the analysed state is called in a position the path engine does not inline (shape not modelled)")


# ---------------------------------------------------------------------------------------------------
# routers


def _class_info(ctx, mod_rel, expr):
    """(name, ancestor names) of a class expression used in ``mod_rel``; ancestors None when unresolved."""
    m = ctx.model.module(mod_rel)
    r = ctx.model.resolve_name(m, expr)
    if r is None and isinstance(expr, ast.Attribute):
        ev = ctx.model.module(EVENTS)
        d = ev.get(expr.attr)
        if isinstance(d, ast.ClassDef) and attr_chain(expr.value) in ("events", "mevents"):
            r = (ev, d)
    if r is None or not isinstance(r[1], ast.ClassDef):
        return last_attr(expr), None
    anc = set()
    for mm, cc in ctx.model.mro(r[0].rel, getattr(r[1], "_qual", r[1].name)):
        anc.add(cc.name)
    return r[1].name, anc


def _router(ctx, rel, cls):
    m = ctx.model
    etc = ctx.func(rel, f"{cls}.event_to_child")
    he = ctx.func(rel, f"{cls}._handle_event")
    ps = params_of(etc)
    ctx.require(len(ps) == 2, f"{cls}.event_to_child no longer takes (child, event)")
    child_p, event_p = ps

    def is_pump(it):
        return isinstance(it, ast.Call) and isinstance(it.func, ast.Attribute) and it.func.attr == "handle_event" and isinstance(it.func.value, ast.Name) and it.func.value.id == child_p

    loops = loops_over(etc, is_pump)
    ctx.require(len(loops) == 1 and isinstance(loops[0].target, ast.Name), f"{cls}.event_to_child: expected exactly one `for command in {child_p}.handle_event(...)` loop")
    loop = loops[0]
    cmdvar = loop.target.id
    # methods of the class that pop their first parameter from command_sources (they need the record to exist)
    consumers = set()
    for st in m.cls(rel, cls).body:
        if isinstance(st, ast.FunctionDef) and params_of(st):
            p0 = params_of(st)[0]
            for n in ast.walk(st):
                if isinstance(n, ast.Call) and method_call_on(n, "self.command_sources") == "pop" and n.args and isinstance(n.args[0], ast.Name) and n.args[0].id == p0:
                    consumers.add(st.name)
    opaque = set(consumers) | {"event_to_child", "_handle_event", "handle_event", "__init__"}
    resolver = _helper_resolver(ctx, rel, cls, opaque, lambda n: isinstance(n, ast.Attribute) and attr_chain(n) == "self.command_sources")

    def val(expr, st, sp):
        return None

    def label(node, st, sp):
        out = []
        _uninlined_guard(resolver, node)
        for n in _sub_exprs(node):
            if isinstance(n, ast.Yield) and n.value is not None and sp.v(n.value, st) == CMD:
                out.append(("yield", "cmd"))
            elif isinstance(n, ast.YieldFrom) and isinstance(n.value, ast.Call):
                c = n.value
                f = c.func
                if isinstance(f, ast.Attribute) and isinstance(f.value, ast.Name) and f.value.id == "self" and f.attr in consumers and c.args and sp.v(c.args[0], st) == CMD:
                    out.append(("consume", f.attr))
        if isinstance(node, ast.Assign):
            for t in node.targets:
                if isinstance(t, ast.Subscript) and attr_chain(t.value) == "self.command_sources":
                    out.append(("record", sp.v(t.slice, st), sp.v(node.value, st)))
        return out

    def atom(expr, st, sp):
        io = isinstance_of(expr)
        if io and sp.v(io[0], st) == CMD and io[1] == ["RequestWakeup"]:
            return ("W", True)
        return _blocking_atom(expr, st, sp)

    where = (rel, f"{cls}.event_to_child", loop)
    n_need = 0
    for bval, sc in BLOCKING_VALUES.items():
        for W in (False, True):
            scenario = dict(sc)
            scenario["W"] = W
            sp = LSpec(label=label, atom=atom, scenario=scenario, val=val, unroll=1, resolver=resolver, max_depth=4)
            traces, _ = run_block(loop.body, sp, {cmdvar: CMD, child_p: ("param", child_p)}, depth_aware=True)
            ctx.paths += len(traces)
            ctx.cells += 1
            if bval == "False" and not W:
                continue
            bad = None
            uses = 0
            for tr, how, _ in traces:
                if how != "return":
                    continue
                seen = False
                for t in tr:
                    if t == ("record", CMD, ("param", child_p)):
                        seen = True
                    elif t[0] in ("yield", "consume"):
                        uses += 1
                        if not seen:
                            bad = (t, tr)
            n_need += uses
            cons = f"command_sources record, blocking={bval} wakeup={W}"
            if bad:
                ctx.fail("R04.3", where, cons, f"a command whose completion must come back ({'RequestWakeup' if W else 'blocking'}) reaches {bad[0]} without "
                         f"`self.command_sources[{cmdvar}] = {child_p}` - its CommandCompleted cannot be routed to the layer that waits for it")
            else:
                ctx.ok("R04.3", f"{cls}.event_to_child {cons}: recorded before {uses} yield/consume uses on {len(traces)} paths")
    ctx.require(n_need > 0, f"{cls}.event_to_child: no path yields the child's command upward (router shape changed)")

    # completion routing
    hp = params_of(he)
    ctx.require(len(hp) == 1, f"{cls}._handle_event no longer takes exactly one event parameter")
    ep = hp[0]

    def val2(expr, st, sp):
        if isinstance(expr, ast.Call) and method_call_on(expr, "self.command_sources") == "pop" and len(expr.args) == 1:
            return ("src", sp.v(expr.args[0], st))
        if isinstance(expr, ast.Subscript) and attr_chain(expr.value) == "self.command_sources":
            return ("src", sp.v(expr.slice, st))
        if isinstance(expr, ast.Attribute) and isinstance(expr.value, ast.Name):
            base = sp.v(expr.value, st)
            if isinstance(base, tuple) and base and base[0] == "param":
                return ("attr", base[1], expr.attr)
        return None

    def label2(node, st, sp):
        out = []
        _uninlined_guard(resolver, node)
        for n in _sub_exprs(node):
            if isinstance(n, ast.Call) and is_self_call(n, "event_to_child"):
                out.append(("route", sp.v(n.args[0], st) if n.args else ("?",), sp.v(n.args[1], st) if len(n.args) > 1 else ("?",)))
            elif isinstance(n, (ast.Yield, ast.YieldFrom)) and not (isinstance(n.value, ast.Call) and is_self_call(n.value, "event_to_child")):
                out.append(("other", norm(n)))
        return out

    class CC(LSpec):
        def decide_leaf(self, cond, st, depth):
            io = isinstance_of(cond)
            if io and isinstance(io[0], ast.Name) and self.v(io[0], st) == ("param", ep):
                t = cond.args[1]
                exprs = list(t.elts) if isinstance(t, ast.Tuple) else [t]
                res = False
                for e in exprs:
                    name, anc = _class_info(ctx, rel, e)
                    if name in ("CommandCompleted", "Event"):
                        return True
                    if anc is None or "CommandCompleted" in anc:
                        res = None  # unresolved or a subclass of CommandCompleted: may or may not match
                return res
            return LSpec.decide_leaf(self, cond, st, depth)

    sp = CC(label=label2, val=val2, unroll=1, resolver=resolver, max_depth=4)
    traces, _ = run_block(he.body, sp, {ep: ("param", ep)}, depth_aware=True)
    ctx.paths += len(traces)
    whereh = (rel, f"{cls}._handle_event", he)
    want = (("route", ("src", ("attr", ep, "command")), ("param", ep)),)
    bad = [(tr, how) for tr, how, _ in traces if how != "return" or proj(tr, ("route", "other")) != want]
    ctx.require(traces, f"{cls}._handle_event: no path for a CommandCompleted event")
    ctx.check(not bad, "R04.3", whereh, "CommandCompleted routing",
              f"a CommandCompleted is not routed exactly once to command_sources[event.command] with the same event: {show(proj(bad[0][0], ('route', 'other'))) if bad else ''}",
              desc=f"{cls}._handle_event routes CommandCompleted via command_sources.pop(event.command) on {len(traces)} paths")


# ---------------------------------------------------------------------------------------------------
# replay buffers


def _iter_kind(it, chain):
    """'fwd' if ``it`` iterates ``chain`` front to back, 'rev' if back to front, None if it is something else."""
    if attr_chain(it) == chain:
        return "fwd"
    if isinstance(it, ast.Call):
        f = it.func
        if isinstance(f, ast.Name) and f.id in ("list", "tuple", "iter") and len(it.args) == 1 and attr_chain(it.args[0]) == chain:
            return "fwd"
        if isinstance(f, ast.Attribute) and f.attr == "copy" and attr_chain(f.value) == chain:
            return "fwd"
        if isinstance(f, ast.Name) and f.id == "reversed" and len(it.args) == 1 and attr_chain(it.args[0]) == chain:
            return "rev"
    if isinstance(it, ast.Subscript) and attr_chain(it.value) == chain and isinstance(it.slice, ast.Slice):
        s = it.slice
        if s.lower is None and s.upper is None:
            if s.step is None:
                return "fwd"
            if isinstance(s.step, ast.UnaryOp) and isinstance(s.step.op, ast.USub) and isinstance(s.step.operand, ast.Constant) and s.step.operand.value == 1:
                return "rev"
    if chain in ast.unparse(it):
        raise AnalysisError(f"unmodelled iteration over {chain}: {norm(it)}")
    return None


def _replay_spec(chain, is_replay_call, extra_label=None, atom=None, scenario=None, resolver=None):
    """Alphabet: ('loop', 'fwd'|'rev', entered) ('replay', 'loopvar'|text) ('mut', how) + extra."""

    def label(node, st, sp):
        out = []
        if resolver is not None:
            _uninlined_guard(resolver, node)
        for n in _sub_exprs(node):
            if isinstance(n, ast.Call):
                m = method_call_on(n, chain)
                if m in ("clear", "pop", "remove", "reverse", "sort", "insert", "popleft"):
                    out.append(("mut", m))
                elif m == "append":
                    out.append(("append", sp.v(n.args[0], st) if len(n.args) == 1 else ("?",)))
                if is_replay_call(n):
                    a = n.args[0] if len(n.args) == 1 else None
                    tag = norm(a) if a is not None else "?"
                    p = n
                    while p is not None and not isinstance(p, (ast.For, ast.FunctionDef)):
                        p = getattr(p, "_parent", None)
                    if isinstance(p, ast.For) and isinstance(a, ast.Name) and isinstance(p.target, ast.Name) and p.target.id == a.id and _iter_kind(p.iter, chain):
                        tag = "loopvar"
                    out.append(("replay", tag))
        if isinstance(node, (ast.Assign, ast.AugAssign, ast.AnnAssign)):
            for t in node.targets if isinstance(node, ast.Assign) else [node.target]:
                if attr_chain(t) == chain:
                    out.append(("mut", "rebind"))
        if isinstance(node, ast.Delete):
            for t in node.targets:
                if chain in ast.unparse(t):
                    out.append(("mut", "del"))
        if extra_label:
            out.extend(extra_label(node, st, sp))
        return out

    class RS(LSpec):
        def loop_event(self, node, entered, st):
            k = _iter_kind(node.iter, chain)
            return ("loop", k, entered) if k else None

    return RS(label=label, atom=atom, scenario=scenario, unroll=2, resolver=resolver, max_depth=4)


def _replay_ok(toks, need_loop=True):
    """Replay discipline on one projected trace -> (construct, reason) | None."""
    loops = [i for i, t in enumerate(toks) if t[0] == "loop"]
    if not loops:
        if any(t[0] == "replay" for t in toks):
            raise AnalysisError("buffered events are replayed, but not by a `for` loop over the buffer (shape not modelled)")
        return ("replay loop", "buffered events are not replayed") if need_loop else None
    if any(toks[i][1] == "rev" for i in loops):
        return ("replay order", "buffered events are replayed back to front")
    last = loops[-1]
    if any(t[0] == "mut" for t in toks[:last]):
        return ("buffer mutation", "the buffer is cleared / mutated before or while it is being replayed (events are lost)")
    for a, b in zip(loops, loops[1:] + [len(toks)]):
        seg = [t for t in toks[a + 1 : b] if t[0] == "replay"]
        if toks[a][2]:
            if seg != [("replay", "loopvar")]:
                return ("replay exactly once", f"a buffered event is not handed to the next handler exactly once per iteration (saw {seg})")
        elif seg and b != len(toks):
            return ("replay exactly once", f"replay outside the loop body: {seg}")
    if [t for t in toks[: loops[0]] if t[0] == "replay" and t[1] == "loopvar"]:
        return ("replay exactly once", "replay before the loop")
    return None


def _nextlayer(ctx):
    he = ctx.func(F, "NextLayer._handle_event")
    ask = ctx.func(F, "NextLayer._ask")
    ep = params_of(he)
    ctx.require(len(ep) == 1, "NextLayer._handle_event no longer takes exactly one event parameter")
    ep = ep[0]

    def touches(n):
        if not isinstance(n, ast.Attribute):
            return False
        ch = attr_chain(n)
        return ch in ("self.events", "self.layer.handle_event") or (ch in ("self._handle_event", "self.handle_event", "self._handle") and isinstance(n.ctx, ast.Store))

    resolver = _helper_resolver(ctx, F, "NextLayer", {"_ask", "_handle_event", "handle_event", "__init__"}, touches)

    def label(node, st, sp):
        out = []
        _uninlined_guard(resolver, node)
        for n in _sub_exprs(node):
            if isinstance(n, ast.Call) and method_call_on(n, "self.events") == "append":
                out.append(("buffer", sp.v(n.args[0], st) if len(n.args) == 1 else ("?",)))
            elif isinstance(n, (ast.Yield, ast.YieldFrom)):
                out.append(("emit",))
        return out

    traces, _ = run_block(he.body, LSpec(label=label, unroll=1, resolver=resolver, max_depth=4), {ep: ("param", ep)}, depth_aware=True)
    ctx.paths += len(traces)
    ctx.require(traces, "NextLayer._handle_event: no path")
    bad = [tr for tr, how, _ in traces if not tr or tr[0] != ("buffer", ("param", ep)) or sum(1 for t in tr if t[0] == "buffer") != 1]
    ctx.check(not bad, "R04.5", (F, "NextLayer._handle_event", he), "self.events.append(event) first",
              f"an event received before the layer decision is not buffered exactly once before anything is emitted: {show(bad[0]) if bad else ''}",
              desc=f"NextLayer._handle_event buffers first on {len(traces)} paths")

    def is_replay(n):
        return isinstance(n.func, ast.Attribute) and n.func.attr == "handle_event" and attr_chain(n.func.value) == "self.layer"

    def extra(node, st, sp):
        out = []
        if isinstance(node, ast.Assign):
            for t in node.targets:
                if attr_chain(t) in ("self._handle_event", "self.handle_event", "self._handle"):
                    v = sp.v(node.value, st)
                    out.append(("rebind", attr_chain(t), v[1] if isinstance(v, tuple) and len(v) == 2 and v[0] == "r" else (attr_chain(node.value) or "?")))
        return out

    def atom(expr, st, sp):
        p = truthiness_atom(expr, "self.layer")
        return ("L", p) if p is not None else None

    wa = (F, "NextLayer._ask", ask)
    for L in (True, False):
        sp = _replay_spec("self.events", is_replay, extra, atom, {"L": L}, resolver=resolver)
        traces, _ = run_block(ask.body, sp, depth_aware=True)
        ctx.paths += len(traces)
        ctx.require(traces, "NextLayer._ask: no path")
        prob = {}
        for tr, how, _ in traces:
            toks = proj(tr, ("loop", "replay", "mut", "rebind", "append"))
            if ("rebind", "self._handle_event", "?") in toks:
                raise AnalysisError("NextLayer._ask: self._handle_event is rebound to a value the rule cannot evaluate (shape not modelled)")
            if L:
                why = _replay_ok(toks)
                if not why and ("rebind", "self._handle_event", "self.layer.handle_event") not in toks:
                    why = ("rebind _handle_event", "after the decision self._handle_event is not rebound to self.layer.handle_event - events queued while the "
                           "next_layer hook was pending would be buffered again instead of reaching the chosen layer")
            else:
                why = None
                if any(t[0] in ("replay", "mut", "rebind") for t in toks):
                    why = ("undecided", "without a decision the buffer must stay untouched and nothing may be replayed or rebound")
            if why:
                prob.setdefault(why[0], (why[1], toks))
        for cons, (why, toks) in prob.items():
            ctx.fail("R04.5", wa, f"_ask layer_decided={L}: {cons}", f"{why}; trace: {show(toks)}")
        if not prob:
            ctx.ok("R04.5", f"NextLayer._ask layer_decided={L}: {len(traces)} paths")


def _tunnel(ctx):
    """TunnelLayer's replay buffer, decided by INTERPRETING the class (pyint; the harness is shared with C14): a ``tunnel.TunnelLayer`` object is
    built by interpreting its constructors (so the private buffer may be called and shaped as it likes), its child layer is a recording stub
    that answers with scripted commands, and schedules of events are fed to ``_handle_event``.  After every event what the child received and
    what was handed down is compared with the reference tunnel (``GoldenTunnel``): events are queued - nothing delivered - exactly while
    ESTABLISHING without a pending OpenConnection, delivered exactly once otherwise, and replayed exactly once, in arrival order, when the
    handshake completes (which requires that ESTABLISHING was left before the replay).  Renamed attributes, conditional expressions,
    extracted helpers / properties, swap-and-drain instead of iterate-and-clear are interpreted like the original."""
    etc = ctx.func(TUN, "TunnelLayer.event_to_child")
    ctx.func(TUN, "TunnelLayer._handle_event")
    if ctx.model.has(TUN, "TunnelLayer._handshake_finished"):
        ctx.functions.add(f"{TUN}::TunnelLayer._handshake_finished")
    env = _H._Env(ctx, layer=(TUN, "TunnelLayer"))
    e1, e2, e3 = ("ev", "e1"), ("data", "other", b"x"), ("ev", "e3")
    answer = {"ev": (("send", b"r1"), ("log",)), "data": (("send", b"r2"), ("foreign",))}
    w = (TUN, "TunnelLayer.event_to_child", etc)
    replay_problem = None
    n_replay = 0
    for E in (True, False):
        for Rr in (True, False):
            pending = "open-cmd" if Rr else None
            bad = None
            for s0 in ("E",) if E else ("O", "C", "I"):
                for policy in ({}, answer):
                    steps = [("other", e1), ("other", e2), ("other", e3)] + ([("wire", b"handshake bytes"), ("other", e2), ("other", e1)] if E else [])
                    # only what the child is handed is this property's business (what happens to the child's commands is C14's)
                    found, n = _H.run_schedule(env, _H.GoldenTunnel, {}, s0, pending, policy, steps, aspects=("crash", "child"))
                    ctx.paths += 1
                    for k, st, gstate, aspect, text in found:
                        if st[0] == "wire":  # the completion of the handshake: replay (or the OpenConnection reply)
                            replay_problem = replay_problem or f"tunnel_state={s0} pending={Rr}, event {k + 1}: {text}"
                        else:
                            bad = bad or f"tunnel_state={s0}, event {k + 1} ({'before' if gstate == 'E' else 'after'} the handshake completed): {text}"
                    if E and not found:
                        n_replay += 1
            ctx.cells += 1
            want = "queued (nothing delivered), then replayed" if (E and not Rr) else "forwarded to the child"
            ctx.check(not bad, "R04.5", w, f"establishing={E} open_connection_pending={Rr}",
                      f"the event must be {want} exactly once; {bad}",
                      desc=f"TunnelLayer.event_to_child establishing={E} pending={Rr}: {want} exactly once (interpreted)")
    wh = (TUN, "TunnelLayer._handshake_finished", ctx.model.func(TUN, "TunnelLayer._handshake_finished")) if ctx.model.has(TUN, "TunnelLayer._handshake_finished") else w
    ctx.check(replay_problem is None, "R04.5", wh, "replay of queued events",
              f"when the handshake completes the queued events must reach the child exactly once, in arrival order (ESTABLISHING left before the replay, "
              f"the buffer not mutated while replaying); {replay_problem}",
              desc=f"TunnelLayer: queued events replayed in order exactly once after leaving ESTABLISHING ({n_replay} schedules)")


def check(ctx):
    ctx.rule("R04.1", "Layer.handle_event effect table: blocked -> queue only; own completion (isinstance and identity) -> resume; not blocked -> handle once")
    ctx.rule("R04.2", "Layer.__continue: reset before resume, resume with event.reply, guarded FIFO drain, each queued event handled exactly once")
    ctx.rule("R04.3", "command pump: every command yielded once, only `blocking is True` pauses (blocking:=self, Paused stored before the yield); "
             "routers record blocking/wakeup commands and route CommandCompleted by command")
    ctx.rule("R04.4", "the inlined copy of __process in handle_event equals __process(gen, None) (projected trace sets)")
    ctx.rule("R04.5", "NextLayer / TunnelLayer buffer first and replay buffered events in order exactly once")
    ctx.trust("generator protocol (send/next/StopIteration), collections.deque / list / dict semantics")
    ctx.assume("loops unrolled twice; conditions that are not named atoms fork both ways")
    # each part is guarded: a shape one part does not model (exit 2) must not hide a violation found by another part (exit 1)
    ctx.guard(_layer_core, ctx)
    ctx.guard(_router, ctx, HTTP, "HttpLayer")
    ctx.guard(_router, ctx, QUIC, "RawQuicLayer")
    ctx.guard(_nextlayer, ctx)
    ctx.guard(_tunnel, ctx)
    ctx.expect_instances("R04.3", 7 + 2 * 6)
    ctx.expect_instances("R04.5", 1 + 2 + 4 + 1)


MUTANTS = [
    # R04.1
    Mutant("completion-test-drops-identity", F, "                isinstance(event, events.CommandCompleted)\n                and event.command is self._paused.command\n",
           "                isinstance(event, events.CommandCompleted)\n", "R04.1"),
    Mutant("completion-test-equality", F, "and event.command is self._paused.command", "and event.command == self._paused.command", "R04.1"),
    Mutant("completion-test-order-swapped", F, "                isinstance(event, events.CommandCompleted)\n                and event.command is self._paused.command\n",
           "                event.command is self._paused.command\n                and isinstance(event, events.CommandCompleted)\n", "R04.1"),
    Mutant("queue-appendleft", F, "self._paused_event_queue.append(event)", "self._paused_event_queue.appendleft(event)", "R04.1"),
    Mutant("handle-while-paused", F, "                self._paused_event_queue.append(event)\n",
           "                self._paused_event_queue.append(event)\n                yield from self._handle_event(event)\n", "R04.1"),
    # R04.2
    Mutant("continue-lifo", F, "ev = self._paused_event_queue.popleft()", "ev = self._paused_event_queue.pop()", "R04.2"),
    Mutant("continue-no-reset", F, "        command_generator = self._paused.generator\n        self._paused = None\n", "        command_generator = self._paused.generator\n", "R04.2"),
    Mutant("continue-reset-after-resume", F, "        self._paused = None\n        yield from self.__process(command_generator, event.reply)\n",
           "        yield from self.__process(command_generator, event.reply)\n        self._paused = None\n", "R04.2"),
    Mutant("continue-ignores-new-pause", F, "while not self._paused and self._paused_event_queue:", "while self._paused_event_queue:", "R04.2"),
    Mutant("continue-drains-one", F, "while not self._paused and self._paused_event_queue:", "if not self._paused and self._paused_event_queue:", "R04.2"),
    Mutant("continue-resume-with-event", F, "yield from self.__process(command_generator, event.reply)", "yield from self.__process(command_generator, event)", "R04.2"),
    # R04.3
    Mutant("process-blocks-on-truthy", F, "            if command.blocking is True:\n                # We only want this layer to block, the outer layers should not block.\n"
           "                # For example, take an HTTP/2 connection: If we intercept one particular request,\n                # we don't want all other requests in the connection to be blocked a well.\n"
           "                # We signal to outer layers that this command is already handled by assigning our layer to\n                # `.blocking` here (upper layers explicitly check for `is True`).\n"
           "                command.blocking = self\n                self._paused = Paused(\n                    command,\n                    command_generator,\n                )\n                yield command\n                return\n            else:\n                yield command\n                try:\n                    command = next(command_generator)\n                except StopIteration:\n                    return\n\n    def __continue",
           "            if command.blocking:\n                command.blocking = self\n                self._paused = Paused(\n                    command,\n                    command_generator,\n                )\n                yield command\n                return\n            else:\n                yield command\n                try:\n                    command = next(command_generator)\n                except StopIteration:\n                    return\n\n    def __continue", "R04.3"),
    Mutant("process-pause-after-yield", F, "                self._paused = Paused(\n                    command,\n                    command_generator,\n                )\n                yield command\n                return\n            else:\n                yield command\n                try:\n                    command = next(command_generator)\n                except StopIteration:\n                    return\n\n    def __continue",
           "                yield command\n                self._paused = Paused(\n                    command,\n                    command_generator,\n                )\n                return\n            else:\n                yield command\n                try:\n                    command = next(command_generator)\n                except StopIteration:\n                    return\n\n    def __continue", "R04.3"),
    Mutant("http-router-records-only-true", HTTP, "if command.blocking or isinstance(command, commands.RequestWakeup):", "if command.blocking is True or isinstance(command, commands.RequestWakeup):", "R04.3"),
    Mutant("http-router-forgets-wakeup", HTTP, "if command.blocking or isinstance(command, commands.RequestWakeup):", "if command.blocking:", "R04.3"),
    Mutant("quic-router-records-wrong-layer", QUIC, "self.command_sources[command] = child_layer", "self.command_sources[command] = self.datagram_layer", "R04.3"),
    Mutant("http-router-routes-by-event", HTTP, "stream = self.command_sources.pop(event.command)\n            yield from self.event_to_child(stream, event)",
           "stream = self.command_sources.pop(event)\n            yield from self.event_to_child(stream, event)", "R04.3"),
    # R04.4
    Mutant("inlined-copy-no-blocking-handoff", F, "                    command.blocking = self\n                    self._paused = Paused(", "                    self._paused = Paused(", "R04.4"),
    Mutant("inlined-copy-skips-first-command", F, "                command = command_generator.send(send)\n            except StopIteration:\n                return\n\n            while True:\n                if self.debug is not None:\n                    if not isinstance(command, commands.Log):\n                        yield self.__debug(f\"<< {command}\")\n                if command.blocking is True:\n                    # We only want this layer to block, the outer layers should not block.\n                    # For example, take an HTTP/2 connection: If we intercept one particular request,\n                    # we don't want all other requests in the connection to be blocked a well.\n                    # We signal to outer layers that this command is already handled by assigning our layer to\n                    # `.blocking` here (upper layers explicitly check for `is True`).\n                    command.blocking = self",
           "                command = command_generator.send(send)\n                command = command_generator.send(send)\n            except StopIteration:\n                return\n\n            while True:\n                if command.blocking is True:\n                    command.blocking = self", "R04.4"),
    # R04.5
    Mutant("nextlayer-buffer-after-ask", F, "        self.events.append(event)\n\n        # We receive new data. Let's find out if we can determine the next layer now?\n        if self._ask_on_start and isinstance(event, events.Start):\n            yield from self._ask()\n",
           "        if self._ask_on_start and isinstance(event, events.Start):\n            yield from self._ask()\n            self.events.append(event)\n", "R04.5"),
    Mutant("nextlayer-replay-reversed", F, "            for e in self.events:\n                yield from self.layer.handle_event(e)", "            for e in reversed(self.events):\n                yield from self.layer.handle_event(e)", "R04.5"),
    Mutant("nextlayer-clear-before-replay", F, "            for e in self.events:\n                yield from self.layer.handle_event(e)\n            self.events.clear()\n",
           "            self.events.clear()\n            for e in self.events:\n                yield from self.layer.handle_event(e)\n", "R04.5"),
    Mutant("nextlayer-no-handle-event-rebind", F, "            self._handle_event = self.layer.handle_event  # type: ignore\n", "", "R04.5"),
    Mutant("tunnel-forwards-while-establishing", TUN, "            self._event_queue.append(event)\n            return\n", "            self._event_queue.append(event)\n", "R04.5"),
    Mutant("tunnel-replay-reversed", TUN, "            for evt in self._event_queue:\n", "            for evt in reversed(self._event_queue):\n", "R04.5"),
    Mutant("tunnel-queue-drops-event", TUN, "            self._event_queue.append(event)\n            return\n", "            return\n", "R04.5"),
    Mutant("tunnel-queue-cleared-before-replay", TUN, "            for evt in self._event_queue:\n                yield from self.event_to_child(evt)\n            self._event_queue.clear()\n",
           "            queued = self._event_queue\n            self._event_queue.clear()\n            for evt in queued:\n                yield from self.event_to_child(evt)\n", "R04.5"),
    Mutant("tunnel-replay-before-state-change", TUN, "        if err:\n            self.tunnel_state = TunnelState.CLOSED\n        else:\n            self.tunnel_state = TunnelState.OPEN\n        if self.command_to_reply_to:",
           "        if self.command_to_reply_to:", "R04.5"),
]
