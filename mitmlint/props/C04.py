"""C04 - blocked layers process events exactly once, in order (queue discipline of Layer / NextLayer / routers).

Decided (path enumeration over the source of the named functions, leaf conditions mapped to named atoms whose
truth comes from a scenario table; traces are projected onto the queue / generator / pause alphabet):
  R04.1 effect table of Layer.handle_event over (paused?, event is CommandCompleted?, event.command is the awaited
        command?): queue-and-nothing-else / resume / handle-once.  The identity test must not be looked at for
        non-completions and equality instead of identity is treated as "may also match a foreign command".
  R04.2 Layer.__continue: awaited generator read, _paused reset, generator resumed with event.reply, then a while loop
        that re-checks `not paused and queue` before every dequeue, dequeues from the FRONT, and hands each dequeued
        event to _handle_event exactly once and drives that generator.
  R04.3 (a) the command pump (Layer.__process and its inlined copy) per blocking value {False, True, <inner layer>}:
        every command obtained is yielded exactly once; only `blocking is True` pauses: blocking := self and
        _paused := Paused(command, generator) BEFORE the yield, no advance afterwards; nothing else pauses.
        (b) routers HttpLayer / RawQuicLayer: a blocking-or-wakeup command is recorded in command_sources[command] =
        child before it is yielded upward or consumed by a method that pops it; CommandCompleted is routed to
        command_sources[event.command] with the same event, exactly once.
  R04.4 the inlined copy of __process in handle_event has the same projected trace set as __process(gen, None).
  R04.5 NextLayer._handle_event buffers the event before anything else, exactly once; _ask replays self.events in list
        order, each exactly once, without mutating the list before/while replaying, rebinds _handle_event to the chosen
        layer, and leaves the buffer alone while undecided.  TunnelLayer.event_to_child either queues or forwards each
        event exactly once (queue iff ESTABLISHING and nobody waits for OpenConnection); _handshake_finished leaves
        ESTABLISHING before replaying _event_queue in order, each exactly once, no mutation before/while replaying.
NOT decided: behaviour under real schedules (asyncio), layers overriding handle_event themselves, that every concrete
layer only blocks through the pump. Clearing the replay buffers *after* the replay is not demanded (not necessary for
the property once handlers are rebound / the state left ESTABLISHING).
"""

from __future__ import annotations

import ast

from ..core import AnalysisError
from ..core import norm
from ..model import attr_chain
from ..model import eval_order
from ..model import last_attr
from ..model import walk_in_order
from ..paths import C
from ..paths import R
from ..paths import UNKNOWN
from ..selftest import Mutant
from ._helpers_A import ASpec
from ._helpers_A import compare_pair
from ._helpers_A import is_self_call
from ._helpers_A import isinstance_of
from ._helpers_A import loops_over
from ._helpers_A import method_call_on
from ._helpers_A import params_of
from ._helpers_A import proj
from ._helpers_A import run_block
from ._helpers_A import show
from ._helpers_A import truthiness_atom

PROP = "C04"
REG = {
    "strength": "partial",
    "technique": "CFG path enumeration with scenario-decided condition atoms (effect tables), trace-language checks, sibling trace-set agreement",
    "claim": "Layer.handle_event/__process/__continue implement: queue while paused (append, nothing else), resume only with the awaited "
    "command's own completion (identity), FIFO drain re-checking the pause before every dequeue, each event handled exactly once, only "
    "`blocking is True` pauses and the command is marked handled before it is yielded; HttpLayer/RawQuicLayer record and route completions "
    "by command; NextLayer/TunnelLayer replay buffered events in order exactly once.",
    "note": "Loops unrolled twice; generator protocol (send/next/StopIteration) and deque/list/dict semantics are trusted library behaviour. "
    "Concrete layers are assumed to block only through Layer.handle_event.",
}

F = "mitmproxy/proxy/layer.py"
HTTP = "mitmproxy/proxy/layers/http/__init__.py"
QUIC = "mitmproxy/proxy/layers/quic/_raw_layers.py"
TUN = "mitmproxy/proxy/tunnel.py"
EVENTS = "mitmproxy/proxy/events.py"
QUEUE = "self._paused_event_queue"

CMD = ("cmd",)
BLOCKING_VALUES = {  # abstract value of command.blocking -> truth of the three leaf forms
    "False": {"Btrue": False, "Btruthy": False, "Bfalse": True},
    "True": {"Btrue": True, "Btruthy": True, "Bfalse": False},
    "Layer": {"Btrue": False, "Btruthy": True, "Bfalse": False},
}


def _is_gen(v):
    return isinstance(v, tuple) and len(v) == 2 and v[0] == "gen"


def _advance(call, st, sp):
    """(gen_value, send_value) if ``call`` advances a tracked generator: G.send(x) | next(G)."""
    if not isinstance(call, ast.Call):
        return None
    f = call.func
    if isinstance(f, ast.Attribute) and f.attr == "send" and len(call.args) == 1 and _is_gen(sp.v(f.value, st)):
        return sp.v(f.value, st), sp.v(call.args[0], st)
    if isinstance(f, ast.Name) and f.id == "next" and len(call.args) == 1 and _is_gen(sp.v(call.args[0], st)):
        return sp.v(call.args[0], st), C(None)
    return None


def _blocking_atom(expr, st, sp):
    """Leaf forms over ``<command>.blocking``."""

    def is_blocking(e):
        return isinstance(e, ast.Attribute) and e.attr == "blocking" and sp.v(e.value, st) == CMD

    if is_blocking(expr):
        return ("Btruthy", True)
    cp = compare_pair(expr, (ast.Is, ast.IsNot, ast.Eq, ast.NotEq))
    if cp and is_blocking(cp[0]) and isinstance(cp[1], ast.Constant) and isinstance(cp[1].value, bool):
        pos = isinstance(cp[2], (ast.Is, ast.Eq))
        return ("Btrue" if cp[1].value else "Bfalse", pos)
    if any(is_blocking(n) for n in ast.walk(expr)):
        raise AnalysisError(f"unmodelled test of command.blocking: {norm(expr)}")
    return None


# ---------------------------------------------------------------------------------------------------
# Layer.handle_event / __process / __continue


def _layer_spec(event_param, scenario, unroll=2):
    def val(expr, st, sp):
        if isinstance(expr, ast.Call):
            if is_self_call(expr, "_handle_event") and len(expr.args) == 1:
                return ("gen", sp.v(expr.args[0], st))
            if method_call_on(expr, QUEUE) in ("popleft", "pop"):
                return ("deq",)
            if _advance(expr, st, sp):
                return CMD
        if attr_chain(expr) == "self._paused.generator":
            return ("gen", ("paused",))
        if isinstance(expr, ast.Attribute) and isinstance(expr.value, ast.Name):
            base = st.get("0:" + expr.value.id)
            if isinstance(base, tuple) and base and base[0] == "param":
                return ("attr", base[1], expr.attr)
        return None

    def label(node, st, sp):
        out = []
        for n in eval_order(node):
            if isinstance(n, ast.Attribute) and attr_chain(n) == "self._paused.generator":
                out.append(("readgen",))
            elif isinstance(n, ast.Call):
                m = method_call_on(n, QUEUE)
                if m == "popleft" and not n.args:
                    out.append(("deq", "front"))
                elif m == "pop":
                    a = [x.value if isinstance(x, ast.Constant) else "?" for x in n.args]
                    if a == [0]:
                        out.append(("deq", "front"))
                    elif a in ([], [-1]):
                        out.append(("deq", "back"))
                    else:
                        raise AnalysisError(f"unmodelled dequeue idiom {norm(n)}")
                elif m:
                    out.append(("queue", m, tuple(sp.v(x, st) for x in n.args)))
                elif is_self_call(n, "_handle_event"):
                    out.append(("handle", sp.v(n.args[0], st) if len(n.args) == 1 else ("?",)))
                elif is_self_call(n, "__process") or is_self_call(n, "__continue"):
                    if not isinstance(getattr(n, "_parent", None), ast.YieldFrom):
                        raise AnalysisError(f"{norm(n)} is not driven by `yield from` (shape not modelled)")
                else:
                    adv = _advance(n, st, sp)
                    if adv:
                        out.append(("adv",) + adv)
            elif isinstance(n, ast.YieldFrom) and isinstance(n.value, ast.Call):
                c = n.value
                if is_self_call(c, "__continue"):
                    out.append(("continue", sp.v(c.args[0], st) if len(c.args) == 1 else ("?",)))
                elif is_self_call(c, "__process"):
                    kw = {k.arg: k.value for k in c.keywords}
                    g = c.args[0] if c.args else kw.get("command_generator")
                    s = c.args[1] if len(c.args) > 1 else kw.get("send")
                    out.append(("process", sp.v(g, st) if g is not None else ("?",), sp.v(s, st) if s is not None else C(None)))
            elif isinstance(n, ast.Yield) and isinstance(n.value, ast.Name) and sp.v(n.value, st) == CMD:
                out.append(("yield", "cmd"))
        if isinstance(node, (ast.Assign, ast.AnnAssign, ast.AugAssign)):
            targets = node.targets if isinstance(node, ast.Assign) else [node.target]
            for t in targets:
                if attr_chain(t) == "self._paused":
                    v = node.value
                    if isinstance(v, ast.Constant) and v.value is None:
                        out.append(("reset",))
                    elif isinstance(v, ast.Call) and last_attr(v.func) == "Paused":
                        kw = {k.arg: k.value for k in v.keywords}
                        a0 = v.args[0] if v.args else kw.get("command")
                        a1 = v.args[1] if len(v.args) > 1 else kw.get("generator")
                        out.append(("setp", sp.v(a0, st) if a0 is not None else ("?",), sp.v(a1, st) if a1 is not None else ("?",)))
                    else:
                        out.append(("setp", ("?", norm(v)), ("?",)))
                elif isinstance(t, ast.Attribute) and t.attr == "blocking" and sp.v(t.value, st) == CMD:
                    out.append(("setb", norm(node.value)))
        return out

    def atom(expr, st, sp):
        p = truthiness_atom(expr, "self._paused")
        if p is not None:
            return ("P", p)
        q = truthiness_atom(expr, QUEUE)
        if q is not None:
            return ("Q", q)
        io = isinstance_of(expr)
        if io and isinstance(io[0], ast.Name) and io[0].id == event_param and io[1] == ["CommandCompleted"]:
            return ("I", True)
        cp = compare_pair(expr, (ast.Is, ast.IsNot, ast.Eq, ast.NotEq))
        if cp:
            vals = {sp.v(cp[0], st), sp.v(cp[1], st)}
            if vals == {("attr", event_param, "command"), R("self._paused.command")}:
                if sp.scenario.get("I") is False:
                    sp.problems.append(f"`{norm(expr)}` is evaluated for an event that is not a CommandCompleted (no .command attribute)")
                ident = isinstance(cp[2], (ast.Is, ast.IsNot))
                return ("S" if ident else "Seq", isinstance(cp[2], (ast.Is, ast.Eq)))
        return _blocking_atom(expr, st, sp)

    def raises(stmt, st, sp):
        for n in ast.walk(stmt):
            if isinstance(n, ast.Call) and _advance(n, st, sp):
                return ["StopIteration"]
        return []

    return ASpec(label=label, atom=atom, scenario=scenario, val=val, raises=raises, unroll=unroll)


PUMP = ("adv", "yield", "setb", "setp", "reset", "caught", "process", "handle", "queue", "deq", "continue")


def _canon(tokens):
    """Replace concrete generator values by 'G' (sibling comparison modulo where the generator came from)."""

    def c(x):
        if _is_gen(x):
            return "G"
        return x

    return tuple(tuple(c(x) for x in t) for t in tokens)


def _pump_ok(tokens, bval, gen, send0):
    """Is the projected token sequence a word of the command-pump language for blocking value ``bval``?  -> reason | None"""
    stop = ("caught", "StopIteration")
    toks = list(tokens)
    if toks == [("process", gen, send0)]:
        return None  # delegates to __process (checked on its own)
    i = 0
    first = True
    while True:
        if i < len(toks) and toks[i] == stop:
            if i != len(toks) - 1:
                return "events after the generator was exhausted"
            return None
        if i >= len(toks):
            return "returns although the generator is neither exhausted nor blocked"
        want = ("adv", gen, send0 if first else C(None))
        if toks[i] != want:
            return f"expected generator advance {want}, saw {toks[i]}"
        first = False
        i += 1
        if bval == "True":
            rest = toks[i:]
            if ("yield", "cmd") not in rest:
                return "blocking command is never yielded"
            y = rest.index(("yield", "cmd"))
            before, after = rest[:y], rest[y + 1 :]
            if sorted(before) != sorted([("setb", "self"), ("setp", CMD, gen)]):
                return f"before yielding a blocking command the layer must set command.blocking = self and _paused = Paused(command, generator) (saw {before})"
            if after:
                return f"the layer goes on after yielding a blocking command: {after}"
            return None
        if i >= len(toks) or toks[i] != ("yield", "cmd"):
            return f"non-blocking command (blocking={bval}) is not yielded exactly once right after it was obtained (saw {toks[i] if i < len(toks) else 'end'})"
        i += 1


def _check_pump(ctx, rule, where, name, stmts, bindings, gen, send0, strip_handle=None):
    """Run the pump language check for the three blocking values. Returns {bval: set(canonical traces)}."""
    sets = {}
    for bval, sc in BLOCKING_VALUES.items():
        scenario = dict(sc)
        scenario["P"] = False
        sp = _layer_spec(strip_handle or "event", scenario)
        traces, eng = run_block(stmts, sp, bindings)
        ctx.paths += len(traces)
        ctx.require(traces, f"{name}: no terminating path for blocking={bval}")
        got = set()
        bad = None
        for tr, how, _ in traces:
            toks = proj(tr, PUMP)
            if strip_handle is not None:
                hs = [t for t in toks if t[0] == "handle"]
                other = [t for t in toks if t[0] in ("queue", "deq", "continue", "reset")]
                if hs != [("handle", ("param", strip_handle))] or toks[0] != hs[0] or other:
                    ctx.fail("R04.1", where, "paused=False", f"an event arriving while not paused must be passed to _handle_event exactly once and nothing else; trace: {show(toks)}")
                    continue
                toks = toks[1:]
            if how != "return":
                bad = f"path ends with {how}"
            else:
                bad = _pump_ok(toks, bval, gen, send0)
            got.add(_canon(toks))
            if bad:
                ctx.fail(rule, where, f"{name} blocking={bval}", f"{bad}; trace: {show(toks)}")
                break
        if not bad:
            ctx.ok(rule, f"{name} blocking={bval}: {len(traces)} paths in the pump language")
        sets[bval] = got
    return sets


def _layer_core(ctx):
    he = ctx.func(F, "Layer.handle_event")
    pr = ctx.func(F, "Layer.__process")
    co = ctx.func(F, "Layer.__continue")
    ev = params_of(he)
    ctx.require(len(ev) == 1, "Layer.handle_event no longer takes exactly one event parameter")
    ev = ev[0]
    where = (F, "Layer.handle_event", he)

    # ---- R04.1 paused rows
    rows = 0
    for I in (True, False):
        for S in (True, False):
            scenario = {"P": True, "I": I, "S": S}
            if S:
                scenario["Seq"] = True
            sp = _layer_spec(ev, scenario)
            traces, _ = run_block(he.body, sp, {ev: ("param", ev)})
            ctx.paths += len(traces)
            ctx.cells += 1
            ctx.require(traces, "Layer.handle_event: no terminating path in a paused scenario")
            resume = I and S
            want = (("continue", ("param", ev)),) if resume else (("queue", "append", (("param", ev),)),)
            cons = f"paused=True completion={I} own_command={S}"
            ok = True
            if not (I is False and S is True):  # own_command is meaningless for non-completions; the table row is still evaluated
                for p in sp.problems:
                    ok = False
                    ctx.fail("R04.1", where, "completion test order", p)
            for tr, how, _ in traces:
                toks = proj(tr, PUMP)
                if how != "return" or toks != want:
                    ok = False
                    if resume:
                        why = "the awaited completion does not (only) resume the paused generator"
                    elif any(t[0] in ("continue", "handle", "adv", "process") for t in toks):
                        why = "an event other than the awaited completion is handled / resumes the generator while the layer is blocked"
                    else:
                        why = "an event arriving while blocked is not appended (once, at the back) to the paused-event queue"
                    ctx.fail("R04.1", where, cons, f"{why}; trace: {show(toks)} ({how})")
                    break
            if ok:
                ctx.ok("R04.1", f"{cons}: {show(want)} on {len(traces)} paths")
                rows += 1

    # ---- R04.1 not-paused row + R04.3 pump language of the inlined copy
    inl = _check_pump(ctx, "R04.3", where, "handle_event(not paused)", he.body, {ev: ("param", ev)}, ("gen", ("param", ev)), C(None), strip_handle=ev)
    if not any(f.rule == "R04.1" and f.construct == "paused=False" for f in ctx.findings):
        ctx.ok("R04.1", "paused=False: exactly one _handle_event(event), generator driven, no queue operation")
    ctx.cells += 1

    # ---- R04.3 __process
    pp = params_of(pr)
    ctx.require(len(pp) == 2, "Layer.__process no longer has the (command_generator, send) signature")
    wherep = (F, "Layer.__process", pr)
    prs = _check_pump(ctx, "R04.3", wherep, "__process", pr.body, {pp[0]: ("gen", ("arg",)), pp[1]: ("send0",)}, ("gen", ("arg",)), ("send0",))
    dflt = pr.args.defaults
    ctx.check(len(dflt) == 1 and isinstance(dflt[0], ast.Constant) and dflt[0].value is None, "R04.3", wherep, "send default",
              "__process' send parameter must default to None (a fresh generator can only be sent None)", desc="__process(send=None) default")

    # ---- R04.4 sibling agreement (trace sets, generator origin abstracted, send=None)
    delegated = all(s == {(("process", "G", C(None)),)} for s in inl.values())
    if delegated:
        for bval in BLOCKING_VALUES:
            ctx.ok("R04.4", f"handle_event delegates to __process (no inlined copy), blocking={bval}")
    else:
        for bval, sc in BLOCKING_VALUES.items():
            scenario = dict(sc)
            sp = _layer_spec("event", scenario)
            traces, _ = run_block(pr.body, sp, {pp[0]: ("gen", ("arg",)), pp[1]: C(None)})
            ref = {_canon(proj(tr, PUMP)) for tr, how, _ in traces}
            a, b = inl[bval], ref
            ctx.check(a == b, "R04.4", where, f"inlined copy of __process, blocking={bval}",
                      f"the inlined copy and __process differ: only inlined {sorted(map(show, a - b))[:2]}, only __process {sorted(map(show, b - a))[:2]}",
                      desc=f"inlined copy == __process(gen, None) for blocking={bval}: {len(a)} projected traces")

    # ---- R04.2 __continue
    cp = params_of(co)
    ctx.require(len(cp) == 1, "Layer.__continue no longer takes exactly one event parameter")
    cev = cp[0]
    wherec = (F, "Layer.__continue", co)
    sp = _layer_spec(cev, {})
    traces, _ = run_block(co.body, sp, {cev: ("param", cev)})
    ctx.paths += len(traces)
    ctx.require(traces, "Layer.__continue: no terminating path")
    KIND = PUMP + ("cond", "readgen")
    n_deq = 0
    problems = {}
    for tr, how, _ in traces:
        toks = [t for t in proj(tr, KIND) if t[0] != "cond" or t[1] in ("P", "Q")]
        why = _continue_ok(toks, cev) if how == "return" else f"path ends with {how}"
        n_deq = max(n_deq, sum(1 for t in toks if t[0] == "deq"))
        if why:
            problems.setdefault(why[0], (why[1], toks))
    for cons, (why, toks) in problems.items():
        ctx.fail("R04.2", wherec, cons, f"{why}; trace: {show(toks)}")
    if not problems:
        ctx.ok("R04.2", f"__continue: {len(traces)} paths: read generator, reset, resume with event.reply, guarded FIFO drain (up to {n_deq} dequeues per path)")
    deqs = [n for n in walk_in_order(co) if isinstance(n, ast.Call) and method_call_on(n, QUEUE) in ("popleft", "pop")]
    for d in deqs:
        p = d
        while p is not None and not isinstance(p, (ast.While, ast.For, ast.FunctionDef)):
            p = getattr(p, "_parent", None)
        ctx.check(isinstance(p, ast.While), "R04.2", wherec, "drain loop", "queued events are not drained by a `while` loop that re-evaluates its guard after every event "
                  "(remaining events would stay queued although the layer is not blocked)", desc="dequeue sits in a while loop")
    ctx.require(n_deq >= 2 or any(f.rule == "R04.2" for f in ctx.findings), "Layer.__continue: the drain loop was not explored for two iterations")
    ctx.expect_instances("R04.1", 5)
    ctx.expect_instances("R04.2", 2)
    ctx.expect_instances("R04.3", 7)
    ctx.expect_instances("R04.4", 3)


def _continue_ok(toks, ev):
    """-> (construct, reason) | None"""
    kinds = [t[0] for t in toks]
    if "process" not in kinds:
        return ("resume", "the paused generator is never resumed")
    fp = kinds.index("process")
    pre = toks[:fp]
    prek = [t[0] for t in pre]
    if any(k in ("handle", "deq", "adv", "continue", "queue", "setp") for k in prek):
        return ("resume", "something is handled before the paused generator is resumed")
    if prek.count("reset") != 1:
        return ("reset before resume", "self._paused is not reset to None (exactly once) before the generator is resumed - a pause set while resuming would be lost / the layer stays blocked")
    if "readgen" not in prek or prek.index("readgen") > prek.index("reset"):
        return ("reset before resume", "the paused generator is not read from self._paused before self._paused is reset")
    if toks[fp] != ("process", ("gen", ("paused",)), ("attr", ev, "reply")):
        return ("resume value", f"the paused generator must be resumed with exactly event.reply (saw {toks[fp]})")
    i = fp + 1
    seenP = seenQ = None
    while i < len(toks):
        t = toks[i]
        if t[0] == "cond":
            if t[1] == "P":
                seenP = t[2]
            else:
                seenQ = t[2]
            i += 1
            continue
        if t[0] == "deq":
            if t[1] != "front":
                return ("dequeue", "queued events are taken from the back of the queue (LIFO) - arrival order is lost")
            if seenP is not False or seenQ is not True:
                return ("drain guard", "an event is dequeued without re-checking `not self._paused and queue` after the previous generator ran "
                        "(a new event would be handled while the layer is blocked again)")
            nxt = [x for x in toks[i + 1 :] if x[0] != "cond"][:2]
            if nxt != [("handle", ("deq",)), ("process", ("gen", ("deq",)), C(None))]:
                return ("dequeued event", f"a dequeued event is not passed to _handle_event exactly once and driven (saw {nxt})")
            j = i + 1
            seen = 0
            while seen < 2:
                if toks[j][0] != "cond":
                    seen += 1
                j += 1
            i = j
            seenP = seenQ = None
            continue
        if t[0] == "readgen":
            i += 1
            continue
        return ("drain", f"unexpected effect in the drain phase: {t}")
    return None


# ---------------------------------------------------------------------------------------------------
# routers


def _class_info(ctx, mod_rel, expr):
    """(name, ancestor names) of a class expression used in ``mod_rel``; ancestors None when unresolved."""
    m = ctx.model.module(mod_rel)
    r = ctx.model.resolve_name(m, expr)
    if r is None and isinstance(expr, ast.Attribute):
        ev = ctx.model.module(EVENTS)
        d = ev.get(expr.attr)
        if isinstance(d, ast.ClassDef) and attr_chain(expr.value) in ("events", "mevents"):
            r = (ev, d)
    if r is None or not isinstance(r[1], ast.ClassDef):
        return last_attr(expr), None
    anc = set()
    for mm, cc in ctx.model.mro(r[0].rel, getattr(r[1], "_qual", r[1].name)):
        anc.add(cc.name)
    return r[1].name, anc


def _router(ctx, rel, cls):
    m = ctx.model
    etc = ctx.func(rel, f"{cls}.event_to_child")
    he = ctx.func(rel, f"{cls}._handle_event")
    ps = params_of(etc)
    ctx.require(len(ps) == 2, f"{cls}.event_to_child no longer takes (child, event)")
    child_p, event_p = ps

    def is_pump(it):
        return isinstance(it, ast.Call) and isinstance(it.func, ast.Attribute) and it.func.attr == "handle_event" and isinstance(it.func.value, ast.Name) and it.func.value.id == child_p

    loops = loops_over(etc, is_pump)
    ctx.require(len(loops) == 1 and isinstance(loops[0].target, ast.Name), f"{cls}.event_to_child: expected exactly one `for command in {child_p}.handle_event(...)` loop")
    loop = loops[0]
    cmdvar = loop.target.id
    # methods of the class that pop their first parameter from command_sources (they need the record to exist)
    consumers = set()
    for st in m.cls(rel, cls).body:
        if isinstance(st, ast.FunctionDef) and params_of(st):
            p0 = params_of(st)[0]
            for n in ast.walk(st):
                if isinstance(n, ast.Call) and method_call_on(n, "self.command_sources") == "pop" and n.args and isinstance(n.args[0], ast.Name) and n.args[0].id == p0:
                    consumers.add(st.name)

    def val(expr, st, sp):
        return None

    def label(node, st, sp):
        out = []
        for n in eval_order(node):
            if isinstance(n, ast.Yield) and isinstance(n.value, ast.Name) and sp.v(n.value, st) == CMD:
                out.append(("yield", "cmd"))
            elif isinstance(n, ast.YieldFrom) and isinstance(n.value, ast.Call):
                c = n.value
                f = c.func
                if isinstance(f, ast.Attribute) and isinstance(f.value, ast.Name) and f.value.id == "self" and f.attr in consumers and c.args and sp.v(c.args[0], st) == CMD:
                    out.append(("consume", f.attr))
        if isinstance(node, ast.Assign):
            for t in node.targets:
                if isinstance(t, ast.Subscript) and attr_chain(t.value) == "self.command_sources":
                    out.append(("record", sp.v(t.slice, st), sp.v(node.value, st)))
        return out

    def atom(expr, st, sp):
        io = isinstance_of(expr)
        if io and sp.v(io[0], st) == CMD and io[1] == ["RequestWakeup"]:
            return ("W", True)
        return _blocking_atom(expr, st, sp)

    where = (rel, f"{cls}.event_to_child", loop)
    n_need = 0
    for bval, sc in BLOCKING_VALUES.items():
        for W in (False, True):
            scenario = dict(sc)
            scenario["W"] = W
            sp = ASpec(label=label, atom=atom, scenario=scenario, val=val, unroll=1)
            traces, _ = run_block(loop.body, sp, {cmdvar: CMD, child_p: ("param", child_p)})
            ctx.paths += len(traces)
            ctx.cells += 1
            if bval == "False" and not W:
                continue
            bad = None
            uses = 0
            for tr, how, _ in traces:
                if how != "return":
                    continue
                seen = False
                for t in tr:
                    if t == ("record", CMD, ("param", child_p)):
                        seen = True
                    elif t[0] in ("yield", "consume"):
                        uses += 1
                        if not seen:
                            bad = (t, tr)
            n_need += uses
            cons = f"command_sources record, blocking={bval} wakeup={W}"
            if bad:
                ctx.fail("R04.3", where, cons, f"a command whose completion must come back ({'RequestWakeup' if W else 'blocking'}) reaches {bad[0]} without "
                         f"`self.command_sources[{cmdvar}] = {child_p}` - its CommandCompleted cannot be routed to the layer that waits for it")
            else:
                ctx.ok("R04.3", f"{cls}.event_to_child {cons}: recorded before {uses} yield/consume uses on {len(traces)} paths")
    ctx.require(n_need > 0, f"{cls}.event_to_child: no path yields the child's command upward (router shape changed)")

    # completion routing
    hp = params_of(he)
    ctx.require(len(hp) == 1, f"{cls}._handle_event no longer takes exactly one event parameter")
    ep = hp[0]

    def val2(expr, st, sp):
        if isinstance(expr, ast.Call) and method_call_on(expr, "self.command_sources") == "pop" and len(expr.args) == 1:
            return ("src", sp.v(expr.args[0], st))
        if isinstance(expr, ast.Subscript) and attr_chain(expr.value) == "self.command_sources":
            return ("src", sp.v(expr.slice, st))
        if isinstance(expr, ast.Attribute) and isinstance(expr.value, ast.Name):
            base = st.get("0:" + expr.value.id)
            if isinstance(base, tuple) and base and base[0] == "param":
                return ("attr", base[1], expr.attr)
        return None

    def label2(node, st, sp):
        out = []
        for n in eval_order(node):
            if isinstance(n, ast.Call) and is_self_call(n, "event_to_child"):
                out.append(("route", sp.v(n.args[0], st) if n.args else ("?",), sp.v(n.args[1], st) if len(n.args) > 1 else ("?",)))
            elif isinstance(n, (ast.Yield, ast.YieldFrom)) and not (isinstance(n.value, ast.Call) and is_self_call(n.value, "event_to_child")):
                out.append(("other", norm(n)))
        return out

    class CC(ASpec):
        def decide_leaf(self, cond, st, depth):
            io = isinstance_of(cond)
            if io and isinstance(io[0], ast.Name) and io[0].id == ep:
                t = cond.args[1]
                exprs = list(t.elts) if isinstance(t, ast.Tuple) else [t]
                res = False
                for e in exprs:
                    name, anc = _class_info(ctx, rel, e)
                    if name in ("CommandCompleted", "Event"):
                        return True
                    if anc is None or "CommandCompleted" in anc:
                        res = None  # unresolved or a subclass of CommandCompleted: may or may not match
                return res
            return ASpec.decide_leaf(self, cond, st, depth)

    sp = CC(label=label2, val=val2, unroll=1)
    traces, _ = run_block(he.body, sp, {ep: ("param", ep)})
    ctx.paths += len(traces)
    whereh = (rel, f"{cls}._handle_event", he)
    want = (("route", ("src", ("attr", ep, "command")), ("param", ep)),)
    bad = [(tr, how) for tr, how, _ in traces if how != "return" or proj(tr, ("route", "other")) != want]
    ctx.require(traces, f"{cls}._handle_event: no path for a CommandCompleted event")
    ctx.check(not bad, "R04.3", whereh, "CommandCompleted routing",
              f"a CommandCompleted is not routed exactly once to command_sources[event.command] with the same event: {show(proj(bad[0][0], ('route', 'other'))) if bad else ''}",
              desc=f"{cls}._handle_event routes CommandCompleted via command_sources.pop(event.command) on {len(traces)} paths")


# ---------------------------------------------------------------------------------------------------
# replay buffers


def _iter_kind(it, chain):
    """'fwd' if ``it`` iterates ``chain`` front to back, 'rev' if back to front, None if it is something else."""
    if attr_chain(it) == chain:
        return "fwd"
    if isinstance(it, ast.Call):
        f = it.func
        if isinstance(f, ast.Name) and f.id in ("list", "tuple", "iter") and len(it.args) == 1 and attr_chain(it.args[0]) == chain:
            return "fwd"
        if isinstance(f, ast.Attribute) and f.attr == "copy" and attr_chain(f.value) == chain:
            return "fwd"
        if isinstance(f, ast.Name) and f.id == "reversed" and len(it.args) == 1 and attr_chain(it.args[0]) == chain:
            return "rev"
    if isinstance(it, ast.Subscript) and attr_chain(it.value) == chain and isinstance(it.slice, ast.Slice):
        s = it.slice
        if s.lower is None and s.upper is None:
            if s.step is None:
                return "fwd"
            if isinstance(s.step, ast.UnaryOp) and isinstance(s.step.op, ast.USub) and isinstance(s.step.operand, ast.Constant) and s.step.operand.value == 1:
                return "rev"
    if chain in ast.unparse(it):
        raise AnalysisError(f"unmodelled iteration over {chain}: {norm(it)}")
    return None


def _replay_spec(chain, is_replay_call, extra_label=None, atom=None, scenario=None):
    """Alphabet: ('loop', 'fwd'|'rev', entered) ('replay', 'loopvar'|text) ('mut', how) + extra."""

    def label(node, st, sp):
        out = []
        for n in eval_order(node):
            if isinstance(n, ast.Call):
                m = method_call_on(n, chain)
                if m in ("clear", "pop", "remove", "reverse", "sort", "insert", "popleft"):
                    out.append(("mut", m))
                elif m == "append":
                    out.append(("append", sp.v(n.args[0], st) if len(n.args) == 1 else ("?",)))
                if is_replay_call(n):
                    a = n.args[0] if len(n.args) == 1 else None
                    tag = norm(a) if a is not None else "?"
                    p = n
                    while p is not None and not isinstance(p, (ast.For, ast.FunctionDef)):
                        p = getattr(p, "_parent", None)
                    if isinstance(p, ast.For) and isinstance(a, ast.Name) and isinstance(p.target, ast.Name) and p.target.id == a.id and _iter_kind(p.iter, chain):
                        tag = "loopvar"
                    out.append(("replay", tag))
        if isinstance(node, (ast.Assign, ast.AugAssign, ast.AnnAssign)):
            for t in node.targets if isinstance(node, ast.Assign) else [node.target]:
                if attr_chain(t) == chain:
                    out.append(("mut", "rebind"))
        if isinstance(node, ast.Delete):
            for t in node.targets:
                if chain in ast.unparse(t):
                    out.append(("mut", "del"))
        if extra_label:
            out.extend(extra_label(node, st, sp))
        return out

    class RS(ASpec):
        def loop_event(self, node, entered, st):
            k = _iter_kind(node.iter, chain)
            return ("loop", k, entered) if k else None

    return RS(label=label, atom=atom, scenario=scenario, unroll=2)


def _replay_ok(toks, need_loop=True):
    """Replay discipline on one projected trace -> (construct, reason) | None."""
    loops = [i for i, t in enumerate(toks) if t[0] == "loop"]
    if not loops:
        return ("replay loop", "buffered events are not replayed") if need_loop else None
    if any(toks[i][1] == "rev" for i in loops):
        return ("replay order", "buffered events are replayed back to front")
    last = loops[-1]
    if any(t[0] == "mut" for t in toks[:last]):
        return ("buffer mutation", "the buffer is cleared / mutated before or while it is being replayed (events are lost)")
    for a, b in zip(loops, loops[1:] + [len(toks)]):
        seg = [t for t in toks[a + 1 : b] if t[0] == "replay"]
        if toks[a][2]:
            if seg != [("replay", "loopvar")]:
                return ("replay exactly once", f"a buffered event is not handed to the next handler exactly once per iteration (saw {seg})")
        elif seg and b != len(toks):
            return ("replay exactly once", f"replay outside the loop body: {seg}")
    if [t for t in toks[: loops[0]] if t[0] == "replay" and t[1] == "loopvar"]:
        return ("replay exactly once", "replay before the loop")
    return None


def _nextlayer(ctx):
    he = ctx.func(F, "NextLayer._handle_event")
    ask = ctx.func(F, "NextLayer._ask")
    ep = params_of(he)
    ctx.require(len(ep) == 1, "NextLayer._handle_event no longer takes exactly one event parameter")
    ep = ep[0]

    def label(node, st, sp):
        out = []
        for n in eval_order(node):
            if isinstance(n, ast.Call) and method_call_on(n, "self.events") == "append":
                out.append(("buffer", sp.v(n.args[0], st) if len(n.args) == 1 else ("?",)))
            elif isinstance(n, (ast.Yield, ast.YieldFrom)):
                out.append(("emit",))
        return out

    traces, _ = run_block(he.body, ASpec(label=label, unroll=1), {ep: ("param", ep)})
    ctx.paths += len(traces)
    ctx.require(traces, "NextLayer._handle_event: no path")
    bad = [tr for tr, how, _ in traces if not tr or tr[0] != ("buffer", ("param", ep)) or sum(1 for t in tr if t[0] == "buffer") != 1]
    ctx.check(not bad, "R04.5", (F, "NextLayer._handle_event", he), "self.events.append(event) first",
              f"an event received before the layer decision is not buffered exactly once before anything is emitted: {show(bad[0]) if bad else ''}",
              desc=f"NextLayer._handle_event buffers first on {len(traces)} paths")

    def is_replay(n):
        return isinstance(n.func, ast.Attribute) and n.func.attr == "handle_event" and attr_chain(n.func.value) == "self.layer"

    def extra(node, st, sp):
        out = []
        if isinstance(node, ast.Assign):
            for t in node.targets:
                if attr_chain(t) in ("self._handle_event", "self.handle_event", "self._handle"):
                    out.append(("rebind", attr_chain(t), attr_chain(node.value)))
        return out

    def atom(expr, st, sp):
        p = truthiness_atom(expr, "self.layer")
        return ("L", p) if p is not None else None

    wa = (F, "NextLayer._ask", ask)
    for L in (True, False):
        sp = _replay_spec("self.events", is_replay, extra, atom, {"L": L})
        traces, _ = run_block(ask.body, sp)
        ctx.paths += len(traces)
        ctx.require(traces, "NextLayer._ask: no path")
        prob = {}
        for tr, how, _ in traces:
            toks = proj(tr, ("loop", "replay", "mut", "rebind", "append"))
            if L:
                why = _replay_ok(toks)
                if not why and ("rebind", "self._handle_event", "self.layer.handle_event") not in toks:
                    why = ("rebind _handle_event", "after the decision self._handle_event is not rebound to self.layer.handle_event - events queued while the "
                           "next_layer hook was pending would be buffered again instead of reaching the chosen layer")
            else:
                why = None
                if any(t[0] in ("replay", "mut", "rebind") for t in toks):
                    why = ("undecided", "without a decision the buffer must stay untouched and nothing may be replayed or rebound")
            if why:
                prob.setdefault(why[0], (why[1], toks))
        for cons, (why, toks) in prob.items():
            ctx.fail("R04.5", wa, f"_ask layer_decided={L}: {cons}", f"{why}; trace: {show(toks)}")
        if not prob:
            ctx.ok("R04.5", f"NextLayer._ask layer_decided={L}: {len(traces)} paths")


def _tunnel(ctx):
    etc = ctx.func(TUN, "TunnelLayer.event_to_child")
    hf = ctx.func(TUN, "TunnelLayer._handshake_finished")
    ep = params_of(etc)
    ctx.require(len(ep) == 1, "TunnelLayer.event_to_child no longer takes exactly one event parameter")
    ep = ep[0]

    def atom(expr, st, sp):
        cp = compare_pair(expr, (ast.Is, ast.IsNot, ast.Eq, ast.NotEq))
        if cp and attr_chain(cp[0]) == "self.tunnel_state" and attr_chain(cp[1]).startswith("TunnelState."):
            pos = isinstance(cp[2], (ast.Is, ast.Eq))
            if attr_chain(cp[1]) == "TunnelState.ESTABLISHING":
                return ("E", pos)
            if sp.scenario.get("E") is True:
                return ("notE", not pos)  # any other state constant is false while ESTABLISHING
            return None
        p = truthiness_atom(expr, "self.command_to_reply_to")
        return ("R", p) if p is not None else None

    def label(node, st, sp):
        out = []
        for n in eval_order(node):
            if isinstance(n, ast.Call):
                if method_call_on(n, "self._event_queue"):
                    out.append(("enqueue", method_call_on(n, "self._event_queue"), sp.v(n.args[0], st) if len(n.args) == 1 else ("?",)))
                elif isinstance(n.func, ast.Attribute) and n.func.attr == "handle_event" and attr_chain(n.func.value) == "self.child_layer":
                    out.append(("forward", sp.v(n.args[0], st) if len(n.args) == 1 else ("?",)))
        return out

    w = (TUN, "TunnelLayer.event_to_child", etc)
    for E in (True, False):
        for Rr in (True, False):
            sc = {"E": E, "R": Rr}
            if E:
                sc["notE"] = True
            traces, _ = run_block(etc.body, ASpec(label=label, atom=atom, scenario=sc, unroll=1), {ep: ("param", ep)})
            ctx.paths += len(traces)
            ctx.cells += 1
            ctx.require(traces, "TunnelLayer.event_to_child: no path")
            want = (("enqueue", "append", ("param", ep)),) if (E and not Rr) else (("forward", ("param", ep)),)
            bad = [tr for tr, how, _ in traces if proj(tr, ("enqueue", "forward")) != want]
            ctx.check(not bad, "R04.5", w, f"establishing={E} open_connection_pending={Rr}",
                      f"the event must be {'queued' if E and not Rr else 'forwarded to the child'} exactly once; trace: {show(proj(bad[0], ('enqueue', 'forward'))) if bad else ''}",
                      desc=f"TunnelLayer.event_to_child establishing={E} pending={Rr}: {show(want)}")

    def is_replay(n):
        return is_self_call(n, "event_to_child")

    def extra(node, st, sp):
        out = []
        if isinstance(node, ast.Assign):
            for t in node.targets:
                if attr_chain(t) == "self.tunnel_state":
                    out.append(("state", attr_chain(node.value)))
        return out

    sp = _replay_spec("self._event_queue", is_replay, extra, atom, {"R": False})
    traces, _ = run_block(hf.body, sp)
    ctx.paths += len(traces)
    ctx.require(traces, "TunnelLayer._handshake_finished: no path")
    wh = (TUN, "TunnelLayer._handshake_finished", hf)
    prob = {}
    for tr, how, _ in traces:
        toks = proj(tr, ("loop", "replay", "mut", "state"))
        why = _replay_ok(toks)
        if not why:
            first_loop = next(i for i, t in enumerate(toks) if t[0] == "loop")
            st_before = [t for t in toks[:first_loop] if t[0] == "state"]
            if not st_before or st_before[-1][1] not in ("TunnelState.OPEN", "TunnelState.CLOSED"):
                why = ("leave ESTABLISHING first", "tunnel_state is not set to OPEN/CLOSED before the queued events are replayed - event_to_child would queue them "
                       "again (into the list being iterated) instead of forwarding them")
        if why:
            prob.setdefault(why[0], (why[1], toks))
    for cons, (why, toks) in prob.items():
        ctx.fail("R04.5", wh, cons, f"{why}; trace: {show(toks)}")
    if not prob:
        ctx.ok("R04.5", f"TunnelLayer._handshake_finished (no pending OpenConnection): {len(traces)} paths replay _event_queue in order after leaving ESTABLISHING")


def check(ctx):
    ctx.rule("R04.1", "Layer.handle_event effect table: blocked -> queue only; own completion (isinstance and identity) -> resume; not blocked -> handle once")
    ctx.rule("R04.2", "Layer.__continue: reset before resume, resume with event.reply, guarded FIFO drain, each queued event handled exactly once")
    ctx.rule("R04.3", "command pump: every command yielded once, only `blocking is True` pauses (blocking:=self, Paused stored before the yield); "
             "routers record blocking/wakeup commands and route CommandCompleted by command")
    ctx.rule("R04.4", "the inlined copy of __process in handle_event equals __process(gen, None) (projected trace sets)")
    ctx.rule("R04.5", "NextLayer / TunnelLayer buffer first and replay buffered events in order exactly once")
    ctx.trust("generator protocol (send/next/StopIteration), collections.deque / list / dict semantics")
    ctx.assume("loops unrolled twice; conditions that are not named atoms fork both ways")
    _layer_core(ctx)
    _router(ctx, HTTP, "HttpLayer")
    _router(ctx, QUIC, "RawQuicLayer")
    _nextlayer(ctx)
    _tunnel(ctx)
    ctx.expect_instances("R04.3", 7 + 2 * 6)
    ctx.expect_instances("R04.5", 1 + 2 + 4 + 1)


MUTANTS = [
    # R04.1
    Mutant("completion-test-drops-identity", F, "                isinstance(event, events.CommandCompleted)\n                and event.command is self._paused.command\n",
           "                isinstance(event, events.CommandCompleted)\n", "R04.1"),
    Mutant("completion-test-equality", F, "and event.command is self._paused.command", "and event.command == self._paused.command", "R04.1"),
    Mutant("completion-test-order-swapped", F, "                isinstance(event, events.CommandCompleted)\n                and event.command is self._paused.command\n",
           "                event.command is self._paused.command\n                and isinstance(event, events.CommandCompleted)\n", "R04.1"),
    Mutant("queue-appendleft", F, "self._paused_event_queue.append(event)", "self._paused_event_queue.appendleft(event)", "R04.1"),
    Mutant("handle-while-paused", F, "                self._paused_event_queue.append(event)\n",
           "                self._paused_event_queue.append(event)\n                yield from self._handle_event(event)\n", "R04.1"),
    # R04.2
    Mutant("continue-lifo", F, "ev = self._paused_event_queue.popleft()", "ev = self._paused_event_queue.pop()", "R04.2"),
    Mutant("continue-no-reset", F, "        command_generator = self._paused.generator\n        self._paused = None\n", "        command_generator = self._paused.generator\n", "R04.2"),
    Mutant("continue-reset-after-resume", F, "        self._paused = None\n        yield from self.__process(command_generator, event.reply)\n",
           "        yield from self.__process(command_generator, event.reply)\n        self._paused = None\n", "R04.2"),
    Mutant("continue-ignores-new-pause", F, "while not self._paused and self._paused_event_queue:", "while self._paused_event_queue:", "R04.2"),
    Mutant("continue-drains-one", F, "while not self._paused and self._paused_event_queue:", "if not self._paused and self._paused_event_queue:", "R04.2"),
    Mutant("continue-resume-with-event", F, "yield from self.__process(command_generator, event.reply)", "yield from self.__process(command_generator, event)", "R04.2"),
    # R04.3
    Mutant("process-blocks-on-truthy", F, "            if command.blocking is True:\n                # We only want this layer to block, the outer layers should not block.\n"
           "                # For example, take an HTTP/2 connection: If we intercept one particular request,\n                # we don't want all other requests in the connection to be blocked a well.\n"
           "                # We signal to outer layers that this command is already handled by assigning our layer to\n                # `.blocking` here (upper layers explicitly check for `is True`).\n"
           "                command.blocking = self\n                self._paused = Paused(\n                    command,\n                    command_generator,\n                )\n                yield command\n                return\n            else:\n                yield command\n                try:\n                    command = next(command_generator)\n                except StopIteration:\n                    return\n\n    def __continue",
           "            if command.blocking:\n                command.blocking = self\n                self._paused = Paused(\n                    command,\n                    command_generator,\n                )\n                yield command\n                return\n            else:\n                yield command\n                try:\n                    command = next(command_generator)\n                except StopIteration:\n                    return\n\n    def __continue", "R04.3"),
    Mutant("process-pause-after-yield", F, "                self._paused = Paused(\n                    command,\n                    command_generator,\n                )\n                yield command\n                return\n            else:\n                yield command\n                try:\n                    command = next(command_generator)\n                except StopIteration:\n                    return\n\n    def __continue",
           "                yield command\n                self._paused = Paused(\n                    command,\n                    command_generator,\n                )\n                return\n            else:\n                yield command\n                try:\n                    command = next(command_generator)\n                except StopIteration:\n                    return\n\n    def __continue", "R04.3"),
    Mutant("http-router-records-only-true", HTTP, "if command.blocking or isinstance(command, commands.RequestWakeup):", "if command.blocking is True or isinstance(command, commands.RequestWakeup):", "R04.3"),
    Mutant("http-router-forgets-wakeup", HTTP, "if command.blocking or isinstance(command, commands.RequestWakeup):", "if command.blocking:", "R04.3"),
    Mutant("quic-router-records-wrong-layer", QUIC, "self.command_sources[command] = child_layer", "self.command_sources[command] = self.datagram_layer", "R04.3"),
    Mutant("http-router-routes-by-event", HTTP, "stream = self.command_sources.pop(event.command)\n            yield from self.event_to_child(stream, event)",
           "stream = self.command_sources.pop(event)\n            yield from self.event_to_child(stream, event)", "R04.3"),
    # R04.4
    Mutant("inlined-copy-no-blocking-handoff", F, "                    command.blocking = self\n                    self._paused = Paused(", "                    self._paused = Paused(", "R04.4"),
    Mutant("inlined-copy-skips-first-command", F, "                command = command_generator.send(send)\n            except StopIteration:\n                return\n\n            while True:\n                if self.debug is not None:\n                    if not isinstance(command, commands.Log):\n                        yield self.__debug(f\"<< {command}\")\n                if command.blocking is True:\n                    # We only want this layer to block, the outer layers should not block.\n                    # For example, take an HTTP/2 connection: If we intercept one particular request,\n                    # we don't want all other requests in the connection to be blocked a well.\n                    # We signal to outer layers that this command is already handled by assigning our layer to\n                    # `.blocking` here (upper layers explicitly check for `is True`).\n                    command.blocking = self",
           "                command = command_generator.send(send)\n                command = command_generator.send(send)\n            except StopIteration:\n                return\n\n            while True:\n                if command.blocking is True:\n                    command.blocking = self", "R04.4"),
    # R04.5
    Mutant("nextlayer-buffer-after-ask", F, "        self.events.append(event)\n\n        # We receive new data. Let's find out if we can determine the next layer now?\n        if self._ask_on_start and isinstance(event, events.Start):\n            yield from self._ask()\n",
           "        if self._ask_on_start and isinstance(event, events.Start):\n            yield from self._ask()\n            self.events.append(event)\n", "R04.5"),
    Mutant("nextlayer-replay-reversed", F, "            for e in self.events:\n                yield from self.layer.handle_event(e)", "            for e in reversed(self.events):\n                yield from self.layer.handle_event(e)", "R04.5"),
    Mutant("nextlayer-clear-before-replay", F, "            for e in self.events:\n                yield from self.layer.handle_event(e)\n            self.events.clear()\n",
           "            self.events.clear()\n            for e in self.events:\n                yield from self.layer.handle_event(e)\n", "R04.5"),
    Mutant("nextlayer-no-handle-event-rebind", F, "            self._handle_event = self.layer.handle_event  # type: ignore\n", "", "R04.5"),
    Mutant("tunnel-forwards-while-establishing", TUN, "            self._event_queue.append(event)\n            return\n", "            self._event_queue.append(event)\n", "R04.5"),
    Mutant("tunnel-replay-before-state-change", TUN, "        if err:\n            self.tunnel_state = TunnelState.CLOSED\n        else:\n            self.tunnel_state = TunnelState.OPEN\n        if self.command_to_reply_to:",
           "        if self.command_to_reply_to:", "R04.5"),
]
