"""C35 - header collections behave as a case-insensitive ordered multimap.

All three rules are decided by INTERPRETING the repository's functions from their AST (mitmlint/pyint.py; no repository code is
imported or run) and comparing what they compute with the specification - never by matching the shape of their source.

Decided:
  R35.1 key normalisation: over the realistic multi-character names ``Content-Type`` / ``content-type`` / ``CONTENT-TYPE`` (three
        spellings of ONE name), ``Content_Type`` and ``Content-Typ`` (two OTHER names that a sloppy canonicalisation would merge)
        and an absent name, given as bytes and as str, every key-taking operation of ``Headers`` (``k in h``, ``h[k]``, get_all,
        ``del h[k]``, set_all, ``h[k] = v``) on every one-field list treats stored name and key as the same name exactly when they
        are equal after ASCII lower-casing - the same relation in every operation -, and on every two-field list iteration, len
        (thorough tier: also keys and items) de-duplicate by that relation (first spelling wins) while delete / set_all keep exactly the other fields.
        This is the decision table "(stored name, key, operation) -> hit / miss" extracted by interpretation; a raw comparison, a
        one-sided ``_kconv``, a ``_kconv`` that is not a case-folding or that merges more than case, or a de-duplication by raw
        name changes a cell.  How the code is written (comprehension / loop / helper method / ``filter``) does not.
  R35.2 HTTP/1 serialise/parse round trip: for sample lists of valid header fields (empty list, empty value, values containing
        ``:``, ``: ``, inner blanks / tabs, obs-text, repeated names in different case) ``Headers.__bytes__`` is interpreted; the block
        must be ``bytes``, empty or CRLF-terminated, and split at CRLF (the HTTP/1 grammar ``*( header-field CRLF )``) into the lines
        that the interpreted http1 ``_read_headers`` turns back into a ``Headers`` with exactly the same ``fields``.
  R35.3 bounded model equivalence: the methods of ``Headers`` (with everything they inherit from MultiDict / _MultiDict /
        Serializable) are INTERPRETED from their AST (pyint; no repository code is imported or run) on every field list of
        a bounded universe (names b"A" / b"a" / b"B" - two spellings of one name and a second name -, position-tagged
        values, optionally one empty value; length <= 2 quick, <= 3 thorough) and every operation of the property:
        lookup, get_all, delete, iteration, len, items/keys/values (multi or not), add, insert, set_all, assignment,
        equality, copy.  Return value, raised KeyError and the resulting ``fields`` tuple must satisfy the post-condition
        of a case-insensitive ordered multimap computed from the field list BEFORE the call:
          lookup/get_all   values of the fields whose lower-cased name matches, in field order (lookup folds with ", ",
                           KeyError when there is none); fields untouched
          iteration        one name per distinct lower-cased name, in order of first occurrence, in the spelling of that
                           FIRST field; len = number of distinct lower-cased names; items() = (name, folded lookup)
          delete           KeyError + fields untouched when absent, else exactly the non-matching fields, unchanged
          add / insert     the new field, as given, at the end / at the index; everything else unchanged
          set_all / h[k]=v the non-matching fields survive unchanged and in order (spelling and relative order of
                           untouched fields), and the values now stored under the name are exactly the given ones, in order,
                           INCLUDING empty ones (WHERE the new fields sit is not prescribed: "removes the old values and
                           adds new ones")
          equality / copy  equal to a collection with the same fields, unequal to one with an extra / different field or
                           to a non-multidict; copy() is a distinct Headers with the same fields
        Because every post-condition is stated against the implementation's own pre-state and the only state is the
        ``fields`` tuple (checked: no operation may leave another attribute behind), holding on every field list of the
        universe means holding along every operation history that stays inside it.
        (R35.1 uses the same post-conditions on its own universe of names.)
NOT decided: field lists / histories outside the bounded universes of R35.1 / R35.3, field lists outside the samples of R35.2,
MultiDictView and plain MultiDict (other ``_kconv``; state behind getter/setter callables), the MutableMapping mix-ins (get, pop,
update ...: trusted stdlib code over the primitives above), obs-fold handling, validity of field names/values, h11's line splitting.
"""

from __future__ import annotations

import ast

from ..selftest import Mutant

PROP = "C35"
REG = {
    "strength": "partial",
    "technique": "abstract interpretation of the Headers / _MultiDict methods from their AST (pyint) on every field list of two bounded universes against "
    "the post-conditions of a case-insensitive ordered multimap; interpreted serialise -> CRLF split -> parse round trip of Headers.__bytes__ and http1 _read_headers",
    "claim": "every Headers operation of the property (lookup, get_all, delete, iteration, len, items/keys/values, add, insert, set_all, assignment, "
    "equality, copy) meets the ordered-multimap post-condition on every field list over two spellings of one name plus a second name, with position-tagged "
    "and empty values, up to length 2 (quick) / 3 (thorough); every key-taking operation identifies stored name and key exactly when they are equal after "
    "ASCII lower-casing, over realistic multi-character names given as bytes and str (lists up to length 2); sample lists of valid header fields survive "
    "Headers.__bytes__ -> split at CRLF -> _read_headers unchanged.",
    "note": "R35.1 / R35.3 are bounded enumerations and R35.2 a sample-based round trip (stated in the evidence); the MutableMapping mix-ins of the stdlib and "
    "str/bytes methods are trusted; h11's ReceiveBuffer is modelled as a split at CRLF.",
}

MD = "mitmproxy/coretypes/multidict.py"
HTTP = "mitmproxy/http.py"
READ = "mitmproxy/net/http/http1/read.py"


# ---------------------------------------------------------------------------------------------------
# R35.3: Headers interpreted from its AST against ordered-multimap post-conditions


class _Memo:
    """read-only view of the Model with memoised class-hierarchy queries (the tree does not change during one run; Model re-stats files per query)"""

    def __init__(self, model):
        self._m = model
        self._c: dict = {}

    def __getattr__(self, name):
        return getattr(self._m, name)

    def _memo(self, key, fn):
        if key not in self._c:
            self._c[key] = fn()
        return self._c[key]

    def mro(self, rel, qual):
        return self._memo(("mro", rel, qual), lambda: self._m.mro(rel, qual))

    def method(self, rel, cls, name):
        return self._memo(("method", rel, cls, name), lambda: self._m.method(rel, cls, name))

    def resolve_name(self, module, expr):
        return self._memo(("resolve", module.rel, ast.dump(expr)), lambda: self._m.resolve_name(module, expr))

    def module_by_dotted(self, dotted):
        return self._memo(("dotted", dotted), lambda: self._m.module_by_dotted(dotted))


def _make_interp(model):
    cached = getattr(model, "_c35_interp", None)  # one interpreter (and its memoised class-hierarchy queries) for the three rules of a run
    if cached is not None:
        cached[0].steps = 0  # the step bound is per rule
        return cached
    real_model = model
    model = _Memo(model)
    from ..core import AnalysisError
    from ..pyint import ClassRef
    from ..pyint import DictRec
    from ..pyint import Func
    from ..pyint import Interp
    from ..pyint import Raised
    from ..pyint import Rec
    from ..pyint import _Return

    class MapInterp(Interp):
        _kinds: dict = {}

        """pyint + the part of the object protocol a mapping class uses on itself (``k in self``, ``self[k]``, ``len(self)``,
        ``for k in self``, classmethods, ``map``/``filter``) + the collections.abc mix-ins a class inherits from MutableMapping
        (trusted stdlib code, expressed over the interpreted primitives)."""

        def bound(self, v):
            return isinstance(v, Rec) and not isinstance(v, DictRec) and v._impl is not None

        def call_method(self, rec, name, *args):
            return self.apply(self.getattr(rec, name, None, 0), list(args), {}, 0)

        # -- collections.abc.Mapping / MutableMapping mix-ins over the primitives
        def mixin(self, rec, attr):
            if attr == "__contains__":
                def contains(key):
                    try:
                        self.call_method(rec, "__getitem__", key)
                    except Raised as r:
                        if r.name == "KeyError":
                            return False
                        raise
                    return True
                return contains
            if attr == "get":
                def get(key, default=None):
                    try:
                        return self.call_method(rec, "__getitem__", key)
                    except Raised as r:
                        if r.name == "KeyError":
                            return default
                        raise
                return get
            if attr == "items":
                return lambda: [(k, self.call_method(rec, "__getitem__", k)) for k in self.iterate(rec, None)]
            if attr == "keys":
                return lambda: list(self.iterate(rec, None))
            if attr == "values":
                return lambda: [self.call_method(rec, "__getitem__", k) for k in self.iterate(rec, None)]
            if attr == "update":
                def update(other=(), **kw):
                    pairs = list(other.items()) if isinstance(other, dict) else [tuple(x) for x in self.iterate(other, None)]
                    for k, v in pairs + list(kw.items()):
                        self.call_method(rec, "__setitem__", k, v)
                return update
            if attr == "__init__":
                return lambda *a, **k: None
            return None

        def getattr(self, base, attr, node, depth):
            if self.bound(base) and attr not in base.__dict__:
                r = self.model.method(base._impl[0], base._impl[1], attr)
                if r is not None and any(norm_(d) == "classmethod" for d in r[1].decorator_list):
                    return Func(r[0], r[1], bound=ClassRef(self.model.module(base._impl[0]), self.model.cls(*base._impl)))
                if r is None and self.find_property(base, attr) is None:
                    m = self.mixin(base, attr)
                    if m is not None:
                        return m
            if isinstance(base, tuple) and base and base[0] == "$super" and isinstance(base[1], Rec):
                try:
                    return super().getattr(base, attr, node, depth)
                except AnalysisError:
                    m = self.mixin(base[1], attr)
                    if m is None:
                        raise
                    return m
            if isinstance(base, ClassRef):
                r = self.model.method(base.mod.rel, getattr(base.node, "_qual", base.node.name), attr)
                if r is not None and any(norm_(d) == "classmethod" for d in r[1].decorator_list):
                    return Func(r[0], r[1], bound=base)
            return super().getattr(base, attr, node, depth)

        def cmp(self, op, a, b, node):
            if isinstance(op, (ast.In, ast.NotIn)) and self.bound(b):
                r = self.truthy(self.apply(self.getattr(b, "__contains__", node, 0), [a], {}, 0))
                return r if isinstance(op, ast.In) else not r
            if isinstance(op, (ast.Eq, ast.NotEq)) and (self.bound(a) or self.bound(b)):
                x, y = (a, b) if self.bound(a) else (b, a)
                r = x is y or self.truthy(self.apply(self.getattr(x, "__eq__", node, 0), [y], {}, 0))
                return r if isinstance(op, ast.Eq) else not r
            return super().cmp(op, a, b, node)

        def iterate(self, v, node):
            if self.bound(v):
                return self.iterate(self.apply(self.getattr(v, "__iter__", node, 0), [], {}, 0), node)
            return super().iterate(v, node)

        def truthy(self, v):
            if self.bound(v) and self.model.method(v._impl[0], v._impl[1], "__len__") is not None:
                return self.call_method(v, "__len__") != 0
            return super().truthy(v)

        def native_call(self, f, args, kwargs, where):
            if args and self.bound(args[0]) and not kwargs:
                if f is len and len(args) == 1:
                    return self.call_method(args[0], "__len__")
                if f in (list, tuple, set, frozenset, sorted, reversed) and len(args) == 1:
                    return f(list(self.iterate(args[0], None)))
            return super().native_call(f, args, kwargs, where)

        def name(self, ident, env, mod, depth, node):
            if ident in ("map", "filter") and ident not in env and mod.get(ident) is None and ident not in mod.imports and not mod.assigns(ident):
                return ("$builtin", ident)
            if ident == "object" and ident not in env and mod.get(ident) is None and ident not in mod.imports and not mod.assigns(ident):
                return object  # sentinel idiom: ``missing = object()``
            return super().name(ident, env, mod, depth, node)

        def builtin(self, name, args, kwargs, e, env, mod, depth):
            if name == "map" and len(args) >= 2:
                cols = [list(self.iterate(a, e)) for a in args[1:]]
                return iter([self.apply(args[0], list(xs), {}, depth, e) for xs in zip(*cols)])
            if name == "filter" and len(args) == 2:
                xs = list(self.iterate(args[1], e))
                return iter([x for x in xs if self.truthy(x if args[0] is None else self.apply(args[0], [x], {}, depth, e))])
            if name == "iter" and len(args) == 1 and self.bound(args[0]):
                return iter(list(self.iterate(args[0], e)))
            return super().builtin(name, args, kwargs, e, env, mod, depth)

        # -- speed: pyint renders every call to text (externals lookup, error position) and re-walks every callee for yield/await;
        #    thousands of short runs make that the dominant cost.  Same semantics, computed lazily / once per function.
        def ev_call(self, e, env, mod, depth):
            if self.externals:
                return super().ev_call(e, env, mod, depth)
            f = self.ev(e.func, env, mod, depth)
            args = self.elts(e.args, env, mod, depth)
            kwargs = {}
            for k in e.keywords:
                if k.arg is None:
                    kwargs.update(self.ev(k.value, env, mod, depth))
                else:
                    kwargs[k.arg] = self.ev(k.value, env, mod, depth)
            if isinstance(f, tuple) and f and f[0] in ("$builtin", "$dictmethod", "$typing", "$exc"):
                if f[0] == "$builtin":
                    return self.builtin(f[1], args, kwargs, e, env, mod, depth)
                if f[0] == "$exc":
                    return f"<exc:{f[1]}>"
                return super().ev_call(e, env, mod, depth)  # rare: let pyint handle it (arguments are pure here)
            return self.apply(f, args, kwargs, depth, e)

        def apply(self, f, args, kwargs, depth, node=None):
            if isinstance(f, Func) and depth + 1 <= self.max_depth:
                self.calls += 1
                return self.call_func(f, args, kwargs, depth + 1)
            return super().apply(f, args, kwargs, depth, node)

        def call_func(self, f, args, kwargs, depth):
            node = f.node
            kind = self._kinds.get(id(node))
            if kind is None:
                kind = "other" if isinstance(node, ast.Lambda) else "plain"
                if not isinstance(node, ast.Lambda):
                    for n in ast.walk(node):
                        if isinstance(n, (ast.Await, ast.Yield, ast.YieldFrom)) and self._owner(n, node):
                            kind = "other"
                            break
                    a = node.args
                    if a.vararg or a.kwarg or a.kwonlyargs or a.posonlyargs or kwargs:
                        kind = "other" if kind == "other" else "plain-general"
                self._kinds[id(node)] = kind
            if kind != "plain" or kwargs:
                return super().call_func(f, args, kwargs, depth)
            # plain function, positional parameters only, no yield/await: bind and run (what pyint.call_func does on this shape)
            a = node.args
            env = {"$closure": f.closure} if f.closure else {}
            params = [p.arg for p in a.args]
            args = list(args)
            if f.bound is not None and params and params[0] in ("self", "cls"):
                args = [f.bound] + args
                env["$self"] = f.bound
                env["$fn"] = node
            if len(args) > len(params):
                raise Raised("TypeError", "too many positional arguments")
            for p_, v in zip(params, args):
                env[p_] = v
            for p_, d in zip(params[len(params) - len(a.defaults):], a.defaults):
                if p_ not in env:
                    env[p_] = self.ev(d, {}, f.mod, depth)
            for p_ in params:
                if p_ not in env:
                    raise Raised("TypeError", f"missing argument {p_}")
            try:
                self.block(node.body, env, f.mod, depth)
            except _Return as r:
                return r.value
            return None

        def ev(self, e, env, mod, depth):
            if isinstance(e, ast.Subscript) and isinstance(e.ctx, ast.Load):
                base = self.ev(e.value, env, mod, depth)
                if self.bound(base):
                    return self.apply(self.getattr(base, "__getitem__", e, depth), [self.ev(e.slice, env, mod, depth)], {}, depth, e)
                env2 = dict(env)
                env2["$subscripted"] = base
                return super().ev(ast.Subscript(value=ast.Name(id="$subscripted", ctx=ast.Load()), slice=e.slice, ctx=e.ctx), env2, mod, depth)
            return super().ev(e, env, mod, depth)

    import re as _re

    from ..pyint import NullLog

    # `logging` is a no-op (added log lines are transparent); `re` is trusted stdlib (a parser may be written with it)
    it = MapInterp(model, trusted_modules={"logging": NullLog(), "re": _re}, max_steps=6_000_000)
    it._kinds = {}
    try:
        real_model._c35_interp = (it, Rec, Raised)
    except AttributeError:
        pass
    return it, Rec, Raised


def norm_(node):
    return ast.unparse(node)


def _b(x):
    return x.encode("utf-8", "surrogateescape") if isinstance(x, str) else bytes(x)


def _s(x):
    return x.decode("utf-8", "surrogateescape") if isinstance(x, bytes) else x


def _universe(max_len, all_empties=True):
    """field lists: every name sequence over (A, a, B) up to max_len, values tagged with their position; plus the variants with one empty value
    (quick tier: the empty value in the first position only)"""
    import itertools

    out = []
    for n in range(max_len + 1):
        for names in itertools.product((b"A", b"a", b"B"), repeat=n):
            base = tuple((k, b"v%d" % i) for i, k in enumerate(names))
            out.append(base)
            for j in range(n if all_empties else min(n, 1)):
                out.append(tuple((k, b"" if i == j else v) for i, (k, v) in enumerate(base)))
    return out


def _ops(fields, full):
    """(operation class, method, args) for one pre-state; ``full`` (thorough tier) adds more spellings / value lists of the same classes"""
    n = len(fields)
    ops = []
    for k in (b"a", b"A", "B", b"c") if full else (b"a", "B", b"c"):
        ops.append(("get_all", "get_all", (k,)))
        ops.append(("lookup", "__getitem__", (k,)))
    for k in (b"a", "B", b"c") if full else (b"A", b"c"):
        ops.append(("delete", "__delitem__", (k,)))
    ops += [("iteration", "__iter__", ()), ("len", "__len__", ()), ("items", "items", ()), ("items(multi)", "items", (True,)), ("keys", "keys", ())]
    if full:
        ops += [("keys(multi)", "keys", (True,)), ("values", "values", ()), ("values(multi)", "values", (True,))]
    for k, v in ((b"a", b""), (b"a", "x"), ("C", b""), ("C", "x")) if full else ((b"a", b""), ("C", "x")):
        ops.append(("add", "add", (k, v)))
    for i in range(n + 1):
        ops.append(("insert", "insert", (i, b"a" if i % 2 else "b", b"x")))
    for k in (b"a", b"A", "b", b"c") if full else (b"a", "b", b"c"):
        for vals in ([], [b""], [b"x"], [b"x", b""], [b"", "y"], ["x", b"y", b"z"]) if full else ([], [b""], [b"x", b""], ["x", b"y", b"z"]):
            ops.append(("set_all", "set_all", (k, vals)))
    for k, v in ((b"a", b""), (b"a", "x"), ("B", b""), ("B", "x"), (b"c", b""), (b"c", "x")) if full else ((b"A", b""), ("b", "x"), (b"c", b"")):
        ops.append(("assignment", "__setitem__", (k, v)))
    ops += [("equality", "__eq__", ("same",)), ("equality", "__eq__", ("extra",)), ("equality", "__eq__", ("foreign",)), ("copy", "copy", ())]
    if n:
        ops.append(("equality", "__eq__", ("changed",)))
    return ops


def _post(cls, meth, args, pre, how, ret, post):
    """None if the ordered-multimap post-condition holds, else a short description of the deviation."""
    def canon(k):
        return _b(k).lower()

    def same_fields():
        return None if post == pre else f"the fields change to {list(post)}"

    def matching(k, fs=pre):
        return [_s(v) for n_, v in fs if n_.lower() == canon(k)]

    def names(fs=pre):
        seen, out = set(), []
        for n_, _ in fs:
            if n_.lower() not in seen:
                seen.add(n_.lower())
                out.append(_s(n_))
        return out

    def folded(k):
        return ", ".join(matching(k))

    def expect_ret(want):
        if how != "return":
            return f"raises {how}, expected {want!r}"
        got = list(ret) if isinstance(want, list) and isinstance(ret, (list, tuple)) else ret
        if isinstance(want, list):
            got = [tuple(x) if isinstance(x, list) else x for x in got] if isinstance(got, list) else got
        return None if got == want and type(got) is type(want) else f"returns {ret!r}, expected {want!r}"

    if how not in ("return", "KeyError"):
        return f"raises {how}"
    if cls == "contains":
        return expect_ret(bool(matching(args[0]))) or same_fields()
    if cls == "get_all":
        return expect_ret(matching(args[0])) or same_fields()
    if cls == "lookup":
        if not matching(args[0]):
            return (None if how == "KeyError" else f"returns {ret!r} for an absent name, expected KeyError") or same_fields()
        return expect_ret(folded(args[0])) or same_fields()
    if how == "KeyError" and cls != "delete":
        return "raises KeyError"
    if cls == "delete":
        if not matching(args[0]):
            return (None if how == "KeyError" else "deleting an absent name does not raise KeyError") or same_fields()
        want = tuple(f for f in pre if f[0].lower() != canon(args[0]))
        return ("raises KeyError although the name is present" if how == "KeyError" else None) or (None if post == want else f"the fields become {list(post)}, expected {list(want)}")
    if cls == "iteration":
        return expect_ret(names()) or same_fields()
    if cls == "len":
        return expect_ret(len(names())) or same_fields()
    if cls == "items":
        return expect_ret([(k, folded(k)) for k in names()]) or same_fields()
    if cls == "keys":
        return expect_ret(names()) or same_fields()
    if cls == "values":
        return expect_ret([folded(k) for k in names()]) or same_fields()
    if cls == "items(multi)":
        return expect_ret([(_s(k), _s(v)) for k, v in pre]) or same_fields()
    if cls == "keys(multi)":
        return expect_ret([_s(k) for k, _ in pre]) or same_fields()
    if cls == "values(multi)":
        return expect_ret([_s(v) for _, v in pre]) or same_fields()
    if cls == "add":
        want = pre + ((_b(args[0]), _b(args[1])),)
        return None if post == want else f"the fields become {list(post)}, expected {list(want)}"
    if cls == "insert":
        i = args[0]
        want = pre[:i] + ((_b(args[1]), _b(args[2])),) + pre[i:]
        return None if post == want else f"the fields become {list(post)}, expected {list(want)}"
    if cls in ("set_all", "assignment"):
        k = args[0]
        vals = [args[1]] if cls == "assignment" else list(args[1])
        if not (isinstance(post, tuple) and all(isinstance(f, tuple) and len(f) == 2 and isinstance(f[0], bytes) and isinstance(f[1], bytes) for f in post)):
            return f"the fields become {post!r}: not a tuple of (bytes, bytes) pairs"
        keep_pre = [f for f in pre if f[0].lower() != canon(k)]
        keep_post = [f for f in post if f[0].lower() != canon(k)]
        if keep_pre != keep_post:
            return f"the untouched fields {keep_pre} become {keep_post}"
        if matching(k, post) != [_s(v) for v in vals]:
            return f"the values stored under the name become {matching(k, post)}, expected {[_s(v) for v in vals]} (fields {list(post)})"
        return None
    raise AssertionError(cls)


def _show_call(meth, args):
    m = {"__contains__": "{0!r} in h", "__getitem__": "h[{0!r}]", "__delitem__": "del h[{0!r}]", "__setitem__": "h[{0!r}] = {1!r}", "__iter__": "list(h)", "__len__": "len(h)", "__eq__": "h == <{0}>", "copy": "h.copy()"}
    if meth in m:
        return m[meth].format(*args)
    return f"h.{meth}({', '.join(repr(a) for a in args)})"


def _run_model(ctx, rule, interp, anc, universe, ops_of):
    """Interpret every (field list, operation) case and compare with the ordered-multimap post-condition.
    Returns (cases per operation class, first - i.e. shortest - deviating case per class)."""
    import copy as _copy

    m = ctx.model
    it, Rec, Raised = interp

    def fresh(fields):
        return Rec("Headers", _bases=tuple(anc[1:]), _impl=(HTTP, "Headers"), fields=tuple(fields))

    counts: dict = {}
    bad: dict = {}
    n = 0
    for pre in universe:
        for cls, meth, args in ops_of(pre):
            h = fresh(pre)
            call_args = [_copy.deepcopy(a) for a in args]
            others = {}
            if meth == "__eq__":
                kind = args[0]
                others = {"same": fresh(pre), "extra": fresh(pre + ((b"B", b"z"),)), "foreign": list(pre),
                          "changed": fresh(tuple((k, v + b"!") if i == len(pre) - 1 else (k, v) for i, (k, v) in enumerate(pre)))}
                call_args = [others[kind]]
            how, ret = "return", None
            try:
                ret = it.method(h, meth, *call_args)
                if cls in ("iteration", "items", "items(multi)", "keys", "keys(multi)", "values", "values(multi)"):
                    ret = [tuple(x) if isinstance(x, list) else x for x in it.iterate(ret, None)]
            except Raised as r:
                how = r.name
            n += 1
            extra = set(h.__dict__) - {"fields", "_cls", "_bases", "_impl", "_name", "_items"}
            ctx.require(not extra, f"Headers.{meth} leaves attribute(s) {sorted(extra)} behind: state other than `fields` is not modelled by {rule}")
            post = h.fields
            if cls == "equality":
                want = args[0] == "same"
                problem = None if (how == "return" and ret is want) else f"{'raises ' + how if how != 'return' else 'returns ' + repr(ret)}, expected {want}"
                problem = problem or (None if post == pre else f"the fields change to {list(post)}")
            elif cls == "copy":
                if how != "return":
                    problem = f"raises {how}"
                elif not (isinstance(ret, Rec) and ret is not h and ret.isa("Headers")):
                    problem = f"returns {ret!r}, expected a new Headers"
                else:
                    problem = None if (ret.fields == pre and post == pre) else f"the copy has fields {list(ret.fields)}, the original {list(post)}"
            else:
                problem = _post(cls, meth, args, pre, how, ret, post)
            counts[cls] = counts.get(cls, 0) + 1
            if problem and cls not in bad:
                bad[cls] = (meth, pre, args, problem)  # the universes are enumerated shortest-first: a minimal witness
    ctx.cells += n
    return counts, bad


def _where_of(m, meth):
    r = m.method(HTTP, "Headers", meth)
    if r is None:
        return (HTTP, "Headers", m.cls(HTTP, "Headers")), f"Headers.{meth}"
    qual = getattr(r[1], "_qual", meth)
    return (r[0].rel, qual, r[1]), qual


def _headers(ctx):
    m = ctx.model
    ctx.require(m.has(HTTP, "Headers"), "http.Headers vanished")
    anc = [c.name for _, c in m.mro(HTTP, "Headers")]
    ctx.require("_MultiDict" in anc, f"Headers no longer derives from _MultiDict: {anc}")
    return anc


def r35_3(ctx):
    m = ctx.model
    anc = _headers(ctx)
    max_len = 3 if ctx.tier == "thorough" else 2
    universe = _universe(max_len, all_empties=ctx.tier == "thorough")
    counts, bad = _run_model(ctx, "R35.3", _make_interp(m), anc, universe, lambda pre: _ops(pre, ctx.tier == "thorough"))
    for cls in counts:
        if cls in bad:
            meth, pre, args, problem = bad[cls]
            where, qual = _where_of(m, meth)
            ctx.fail("R35.3", where, f"{cls}: fields {list(pre)} ; {_show_call(meth, args)} : {problem}"[:300],
                     f"Headers does not behave as a case-insensitive ordered multimap for {cls} ({qual})")
        else:
            ctx.ok("R35.3", f"{cls}: {counts[cls]} (field list, call) cases meet the post-condition")
    ctx.bounds.append(f"R35.3: all {len(universe)} field lists over names A/a/B with position-tagged values (at most one empty{'' if ctx.tier == 'thorough' else ', in the first position'}) up to length {max_len}; "
                      "call arguments over the spellings a/A/B/b, an absent name, bytes and str forms, empty and non-empty new values, 0-3 values for set_all")
    ctx.trust("collections.abc Mapping/MutableMapping mix-ins (__contains__, get, items, update) behave as documented over __getitem__/__setitem__/__iter__; bytes/str methods")
    ctx.functions.update({f"{HTTP}::Headers.{x}" for x in ("__iter__", "get_all", "set_all", "insert", "items", "__delitem__")})
    if not bad:
        ctx.expect_instances("R35.3", 17 if ctx.tier == "thorough" else 14)


# ---------------------------------------------------------------------------------------------------
# R35.1: the key-equivalence table of every key-taking operation, extracted by interpretation

# three spellings of one name; two names that differ from it by more than case (a canonicalisation that folds `_`/`-` or truncates
# would merge them); ABSENT1 never occurs in a field list
NAMES1 = (b"Content-Type", b"content-type", b"CONTENT-TYPE", b"Content_Type", b"Content-Typ")
ABSENT1 = b"Accept"


def _universe1():
    one = [((a, b"v0"),) for a in NAMES1]
    two = [((a, b"v0"), (b, b"v1")) for a in NAMES1 for b in NAMES1]
    return one + two


def _ops1(fields, full):
    ops = []
    if len(fields) == 1 or full:
        for j, k in enumerate(NAMES1 + (ABSENT1,)):
            for kk in ((k, k.decode()) if full else ((k.decode(),) if j % 2 else (k,))):
                ops += [("contains", "__contains__", (kk,)), ("get_all", "get_all", (kk,)), ("lookup", "__getitem__", (kk,)), ("delete", "__delitem__", (kk,)),
                        ("set_all", "set_all", (kk, [b"x"])), ("assignment", "__setitem__", (kk, "z"))]
    else:
        for kk in (NAMES1[1].decode(), ABSENT1):
            ops += [("get_all", "get_all", (kk,)), ("delete", "__delitem__", (kk,)), ("set_all", "set_all", (kk, ["x", b"y"]))]
    ops += [("iteration", "__iter__", ()), ("len", "__len__", ())]
    if full:  # derived from the two above through the Mapping mix-ins (R35.3 checks them on its universe in both tiers)
        ops += [("keys", "keys", ()), ("items", "items", ())]
    return ops


def _r35_1(ctx):
    m = ctx.model
    anc = _headers(ctx)
    universe = _universe1()
    full = ctx.tier == "thorough"
    counts, bad = _run_model(ctx, "R35.1", _make_interp(m), anc, universe, lambda pre: _ops1(pre, full))
    for cls in counts:
        if cls in bad:
            meth, pre, args, problem = bad[cls]
            where, qual = _where_of(m, meth)
            ctx.fail("R35.1", where, f"{cls}: fields {list(pre)} ; {_show_call(meth, args)} : {problem}"[:300],
                     f"{cls} ({qual}) does not identify a stored field name and a key exactly when they are equal after lower-casing: "
                     "the key is not normalised on both sides, or the normalisation is not a case-folding")
        else:
            ctx.ok("R35.1", f"{cls}: {counts[cls]} (stored names, key) cells agree with equality after lower-casing")
    ctx.bounds.append(f"R35.1: all {len(universe)} field lists of length 1 and 2 over the names {[x.decode() for x in NAMES1]}; keys over these names and the absent "
                      f"{ABSENT1.decode()!r}, {'as bytes and as str' if full else 'alternately as bytes and as str; on two-field lists one matching spelling and the absent name'}")
    ctx.functions.update({f"{MD}::_MultiDict.{x}" for x in ("__delitem__", "__iter__", "__len__", "get_all", "set_all", "__getitem__", "__setitem__")})
    ctx.functions.add(f"{HTTP}::Headers._kconv")
    if not bad:
        ctx.expect_instances("R35.1", 10 if full else 8)


# ---------------------------------------------------------------------------------------------------
# R35.2: serialise -> split at CRLF -> parse, interpreted

CRLF = b"\r\n"
SAMPLES2 = (
    (),
    ((b"Host", b"example.com"),),
    ((b"Host", b"example.com:8080"), (b"accept", b"text/html, application/xml;q=0.9"), (b"Accept", b"*/*")),
    ((b"X-Empty", b""), (b"Set-Cookie", b"a=b; Path=/; Expires=Wed, 21 Oct 2015 07:28:00 GMT"), (b"set-cookie", b"c=d")),
    ((b"x", b"a: b"), (b"X", b"::"), (b"Date", b"Tue, 15 Nov 1994 08:12:31 GMT")),
    ((b"X-Blanks", b"a\tb  c"), (b"X-Obs-Text", b"caf\xc3\xa9 \xff")),
)


def _parser(ctx):
    """the http1 header parser: ``_read_headers``, or - after a rename - the module function whose result read_request_head passes on as ``headers=``"""
    m = ctx.model
    if m.has(READ, "_read_headers"):
        return "_read_headers"
    rr = ctx.func(READ, "read_request_head")
    kws = [k.value for n in ast.walk(rr) if isinstance(n, ast.Call) for k in n.keywords if k.arg == "headers"]
    ctx.require(len(kws) == 1, "http1/read.py: _read_headers vanished and read_request_head does not pass `headers=` exactly once")
    e = kws[0]
    if isinstance(e, ast.Name):
        vals = [n.value for n in ast.walk(rr) if isinstance(n, ast.Assign) and any(isinstance(t, ast.Name) and t.id == e.id for t in n.targets)]
        ctx.require(len(vals) == 1, f"http1/read.py: _read_headers vanished and `{e.id}` of read_request_head is not assigned exactly once")
        e = vals[0]
    ctx.require(isinstance(e, ast.Call) and isinstance(e.func, ast.Name) and m.has(READ, e.func.id), "http1/read.py: _read_headers vanished and the header parser of read_request_head is not a module function")
    return e.func.id


def _r35_2(ctx):
    m = ctx.model
    anc = _headers(ctx)
    it, Rec, Raised = _make_interp(m)
    ser = m.method(HTTP, "Headers", "__bytes__")
    ctx.require(ser is not None, "Headers.__bytes__ vanished")
    ser_where = (ser[0].rel, getattr(ser[1], "_qual", "__bytes__"), ser[1])
    parser = _parser(ctx)
    pfn = ctx.func(READ, parser)
    ctx.functions.add(f"{ser[0].rel}::{ser_where[1]}")
    seen = set()
    for fields in SAMPLES2:
        ctx.cells += 1
        h = Rec("Headers", _bases=tuple(anc[1:]), _impl=(HTTP, "Headers"), fields=tuple(fields))

        def fail(where, problem):
            if problem not in seen:  # one finding per kind of deviation (the samples are ordered shortest-first)
                seen.add(problem)
                ctx.fail("R35.2", where, f"fields {list(fields)}: {problem}"[:300], "serialising header fields as HTTP/1 and parsing them back does not yield the same fields")

        try:
            block = it.method(h, "__bytes__")
        except Raised as r:
            fail(ser_where, f"bytes(headers) raises {r.name}")
            continue
        if not isinstance(block, bytes):
            fail(ser_where, f"bytes(headers) returns a {type(block).__name__}")
            continue
        if h.fields != tuple(fields):
            fail(ser_where, "bytes(headers) changes the fields")
            continue
        if block and not block.endswith(CRLF):
            fail(ser_where, "the header block does not end with CRLF")
            continue
        lines = block.split(CRLF)[:-1] if block else []
        if len(lines) != len(fields):
            fail(ser_where, f"{len(fields)} field(s) are written as {len(lines)} CRLF-terminated line(s)")
            continue
        try:
            back = it.call(READ, parser, list(lines))
        except Raised as r:
            fail((READ, parser, pfn), f"parsing the serialised line(s) raises {r.name}")
            continue
        got = getattr(back, "fields", None) if isinstance(back, Rec) and back.isa("Headers") else None
        if got is None:
            fail((READ, parser, pfn), f"the parser returns {back!r}, not a Headers")
        elif tuple(tuple(f) for f in got) != tuple(fields):
            i = next((i for i, (a, b) in enumerate(zip(got, fields)) if tuple(a) != b), min(len(got), len(fields)))
            fail((READ, parser, pfn), f"field {i} comes back as {got[i] if i < len(got) else None!r}")
        else:
            ctx.ok("R35.2", f"{len(fields)} field(s) {[f[0].decode() for f in fields]} -> {len(block)} bytes -> {len(lines)} line(s) -> the same fields")
    ctx.bounds.append(f"R35.2: {len(SAMPLES2)} sample field lists (empty list, empty value, values containing ':' / ': ' / blanks / tab / obs-text, repeated names in different case)")
    ctx.trust("h11 ReceiveBuffer.maybe_extract_lines hands the header block to _read_headers split at CRLF, without the terminators")
    if not any(f.rule == "R35.2" for f in ctx.findings):
        ctx.expect_instances("R35.2", len(SAMPLES2))


def check(ctx):
    ctx.rule("R35.1", "every key-taking Headers operation (in, [], get_all, del, set_all, []=) and every de-duplicating one (iter, len; thorough: keys, items), interpreted over realistic "
             "names given as bytes and str, identifies stored name and key exactly when they are equal after lower-casing (key-normalisation table)")
    ctx.rule("R35.2", "Headers.__bytes__ and http1 _read_headers, interpreted on sample lists of valid fields: the block is CRLF-framed, one line per field, and parses back to the same fields")
    ctx.rule("R35.3", "Headers, interpreted from its AST on every field list of a bounded universe, meets the post-conditions of a case-insensitive ordered multimap for every operation of the property")
    # each rule is guarded: a shape one rule does not model must not hide a violation found by another
    ctx.guard(r35_3, ctx)
    ctx.guard(_r35_1, ctx)
    ctx.guard(_r35_2, ctx)


MUTANTS = [
    Mutant("get-all-raw-key", MD, "        key = self._kconv(key)\n        return [value for k, value in self.fields if self._kconv(k) == key]", "        return [value for k, value in self.fields if self._kconv(k) == key]", "R35.1"),
    Mutant("get-all-raw-field-name", MD, "if self._kconv(k) == key]", "if k == key]", "R35.1"),
    Mutant("delitem-raw-field-name", MD, "field for field in self.fields if key != self._kconv(field[0])", "field for field in self.fields if key != field[0]", "R35.1"),
    Mutant("delitem-keeps-the-deleted", MD, "field for field in self.fields if key != self._kconv(field[0])", "field for field in self.fields if key == self._kconv(field[0])", "R35.1"),
    Mutant("len-counts-raw-names", MD, "return len({self._kconv(key) for key, _ in self.fields})", "return len({key for key, _ in self.fields})", "R35.1"),
    Mutant("iter-remembers-raw-name", MD, "                seen.add(key_kconv)\n", "                seen.add(key)\n", "R35.1"),
    Mutant("iter-tests-raw-name", MD, "            if key_kconv not in seen:\n", "            if key not in seen:\n", "R35.1"),
    Mutant("set-all-raw-compare", MD, "            if self._kconv(field[0]) == key_kconv:\n", "            if field[0] == key:\n", "R35.1"),
    Mutant("set-all-drops-other-fields", MD, "            else:\n                new_fields.append(field)\n", "", "R35.1"),
    Mutant("set-all-moves-other-fields-to-front", MD, "            else:\n                new_fields.append(field)\n", "            else:\n                new_fields.insert(0, field)\n", "R35.1"),
    Mutant("headers-kconv-identity", HTTP, "        # Headers are case-insensitive\n        return key.lower()\n", "        # Headers are case-insensitive\n        return key\n", "R35.1"),
    Mutant("headers-kconv-merges-underscore-and-dash", HTTP, "        # Headers are case-insensitive\n        return key.lower()\n", "        # Headers are case-insensitive\n        return key.lower().replace(b\"_\", b\"-\")\n", "R35.1"),
    Mutant("headers-kconv-folds-first-letter-only", HTTP, "        # Headers are case-insensitive\n        return key.lower()\n", "        # Headers are case-insensitive\n        return key[:1].lower() + key[1:]\n", "R35.1"),
    Mutant("headers-delitem-forgets-bytes-conversion", HTTP, "        key = _always_bytes(key)\n        super().__delitem__(key)\n", "        super().__delitem__(key)\n", "R35.1"),
    # R35.3 (model equivalence by interpretation)
    Mutant("set-all-drops-empty-replacement-value", MD, "                if values:\n                    new_fields.append((field[0], values.pop(0)))\n",
           "                if values:\n                    value = values.pop(0)\n                    if value:\n                        new_fields.append((field[0], value))\n", "R35.3"),
    Mutant("headers-iter-last-spelling-via-dict", HTTP, "        for x in super().__iter__():\n            yield _native(x)\n",
           "        names = {self._kconv(name): name for name, _ in self.fields}\n        return iter([_native(x) for x in names.values()])\n", "R35.3"),
    Mutant("get-all-skips-empty-values", MD, "return [value for k, value in self.fields if self._kconv(k) == key]", "return [value for k, value in self.fields if value and self._kconv(k) == key]", "R35.3"),
    Mutant("set-all-appends-surplus-values-reversed", MD, "        while values:\n            new_fields.append((key, values.pop(0)))\n", "        while values:\n            new_fields.append((key, values.pop()))\n", "R35.3"),
    Mutant("add-prepends", MD, "self.insert(len(self.fields), key, value)", "self.insert(0, key, value)", "R35.3"),
    Mutant("insert-replaces-the-field-at-index", MD, "self.fields = self.fields[:index] + (item,) + self.fields[index:]", "self.fields = self.fields[:index] + (item,) + self.fields[index + 1:]", "R35.3"),
    Mutant("delete-removes-first-match-only", MD, "        self.fields = tuple(\n            field for field in self.fields if key != self._kconv(field[0])\n        )\n",
           "        i = [self._kconv(field[0]) for field in self.fields].index(key)\n        self.fields = self.fields[:i] + self.fields[i + 1:]\n", "R35.3"),
    Mutant("equality-ignores-values", MD, "            return self.fields == other.fields\n", "            return [k for k, _ in self.fields] == [k for k, _ in other.fields]\n", "R35.3"),
    Mutant("lookup-returns-first-value-only", HTTP, "        # Headers can be folded\n        return \", \".join(values)\n", "        # Headers can be folded\n        return values[0]\n", "R35.3"),
    Mutant("items-multi-loses-repeated-names", HTTP, "            return ((_native(k), _native(v)) for k, v in self.fields)\n", "            return {_native(k): _native(v) for k, v in self.fields}.items()\n", "R35.3"),
    Mutant("parser-splits-every-colon", READ, "name, value = line.split(b\":\", 1)", "name, value = line.split(b\":\")", "R35.2"),
    Mutant("parser-keeps-leading-space", READ, "                value = value.strip()\n", "", "R35.2"),
    Mutant("serialiser-pads-name", HTTP, "b\": \".join(field) for field in self.fields", "b\" : \".join(field) for field in self.fields", "R35.2"),
    Mutant("parser-swaps-name-value", READ, "ret.append((name, value))", "ret.append((value, name))", "R35.2"),
    Mutant("serialiser-lf-only", HTTP, "            return b\"\\r\\n\".join(b\": \".join(field) for field in self.fields) + b\"\\r\\n\"", "            return b\"\\n\".join(b\": \".join(field) for field in self.fields) + b\"\\n\"", "R35.2"),
    Mutant("parser-lowercases-name", READ, "ret.append((name, value))", "ret.append((name.lower(), value))", "R35.2"),
    Mutant("parser-splits-at-last-colon", READ, "name, value = line.split(b\":\", 1)", "name, value = line.rsplit(b\":\", 1)", "R35.2"),
    Mutant("serialiser-skips-empty-values", HTTP, "b\": \".join(field) for field in self.fields", "b\": \".join(field) for field in self.fields if field[1]", "R35.2"),
    Mutant("serialiser-omits-final-crlf", HTTP, "for field in self.fields) + b\"\\r\\n\"", "for field in self.fields)", "R35.2"),
]
