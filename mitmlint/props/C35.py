"""C35 - header collections behave as a case-insensitive ordered multimap.

Decided:
  R35.1 key-normalisation discipline in coretypes/multidict.py::_MultiDict: wherever a key argument or a stored field
        name takes part in a comparison (==, !=, in, not in), is put into a set, or is added to a "seen" set, BOTH sides
        are canonicalised with ``self._kconv`` (flow-sensitive: ``key = self._kconv(key)`` turns the name into a
        canonical one from that statement on); ``__delitem__`` keeps exactly the fields whose canonical name differs;
        ``set_all`` appends every non-matching field unchanged, exactly once and in order, and stores the rebuilt list;
        ``Headers._kconv`` lower-cases its argument.
  R35.2 HTTP/1 serialise/parse agreement: ``Headers.__bytes__`` writes ``name SEP value`` per field and ``_read_headers``
        splits each line ONCE at a delimiter that SEP starts with, keeps the name untouched, strips the rest of SEP from
        the value and appends (name, value) in the order ``__bytes__`` joins them.
  R35.3 bounded model equivalence: the methods of ``Headers`` (with everything they inherit from MultiDict / _MultiDict /
        Serializable) are INTERPRETED from their AST (pyint; no repository code is imported or run) on every field list of
        a bounded universe (names b"A" / b"a" / b"B" - two spellings of one name and a second name -, position-tagged
        values, optionally one empty value; length <= 2 quick, <= 3 thorough) and every operation of the property:
        lookup, get_all, delete, iteration, len, items/keys/values (multi or not), add, insert, set_all, assignment,
        equality, copy.  Return value, raised KeyError and the resulting ``fields`` tuple must satisfy the post-condition
        of a case-insensitive ordered multimap computed from the field list BEFORE the call:
          lookup/get_all   values of the fields whose lower-cased name matches, in field order (lookup folds with ", ",
                           KeyError when there is none); fields untouched
          iteration        one name per distinct lower-cased name, in order of first occurrence, in the spelling of that
                           FIRST field; len = number of distinct lower-cased names; items() = (name, folded lookup)
          delete           KeyError + fields untouched when absent, else exactly the non-matching fields, unchanged
          add / insert     the new field, as given, at the end / at the index; everything else unchanged
          set_all / h[k]=v the non-matching fields survive unchanged and in order (spelling and relative order of
                           untouched fields), and the values now stored under the name are exactly the given ones, in order,
                           INCLUDING empty ones (WHERE the new fields sit is not prescribed: "removes the old values and
                           adds new ones")
          equality / copy  equal to a collection with the same fields, unequal to one with an extra / different field or
                           to a non-multidict; copy() is a distinct Headers with the same fields
        Because every post-condition is stated against the implementation's own pre-state and the only state is the
        ``fields`` tuple (checked: no operation may leave another attribute behind), holding on every field list of the
        universe means holding along every operation history that stays inside it.
NOT decided: field lists / histories outside the bounded universe of R35.3, MultiDictView (state behind getter/setter
callables), the MutableMapping mix-ins (get, pop, update ...: trusted stdlib code over the primitives above), obs-fold
handling, validity of field names/values.
"""

from __future__ import annotations

import ast

from ..model import attr_chain
from ..model import last_attr
from ..selftest import Mutant
from ._helpers_E import expect
from ._helpers_E import methods
from ._helpers_E import params
from ._helpers_E import paths
from ._helpers_E import show

PROP = "C35"
REG = {
    "strength": "partial",
    "technique": "abstract interpretation of the Headers / _MultiDict methods from their AST (pyint) on every field list of a bounded universe against "
    "the post-conditions of a case-insensitive ordered multimap; flow-sensitive key-normalisation dataflow over _MultiDict; serialiser/parser separator agreement",
    "claim": "every Headers operation of the property (lookup, get_all, delete, iteration, len, items/keys/values, add, insert, set_all, assignment, "
    "equality, copy) meets the ordered-multimap post-condition on every field list over two spellings of one name plus a second name, with position-tagged "
    "and empty values, up to length 2 (quick) / 3 (thorough); no _MultiDict operation compares or de-duplicates a raw key or stored field name; "
    "Headers.__bytes__ and http1 _read_headers agree on the field syntax.",
    "note": "R35.3 is a bounded enumeration (stated in the evidence); the MutableMapping mix-ins of the stdlib and str/bytes methods are trusted.",
}

MD = "mitmproxy/coretypes/multidict.py"
HTTP = "mitmproxy/http.py"
READ = "mitmproxy/net/http/http1/read.py"
RAW, CONV, FIELD, OTHER = "raw", "conv", "field", "other"


def _is_kconv(call):
    return isinstance(call, ast.Call) and attr_chain(call.func) in ("self._kconv", "cls._kconv") and len(call.args) == 1


def _is_fields(e):
    ch = attr_chain(e)
    return ch == "self.fields" or ch.endswith(".fields")


class _Scan:
    def __init__(self, ctx, qual, fn):
        self.ctx, self.qual, self.fn = ctx, qual, fn
        self.good = 0

    def cls(self, e, env):
        if _is_kconv(e):
            return CONV
        if isinstance(e, ast.Name):
            return env.get(e.id, OTHER)
        if isinstance(e, ast.Subscript) and isinstance(e.value, ast.Name) and env.get(e.value.id) == FIELD and isinstance(e.slice, ast.Constant):
            return RAW if e.slice.value == 0 else OTHER
        return OTHER

    def bind(self, target, it, env):
        from_fields = _is_fields(it) or (isinstance(it, ast.Call) and it.args and _is_fields(it.args[0]) and last_attr(it.func) in ("list", "tuple", "reversed", "iter"))
        if isinstance(target, ast.Name):
            env[target.id] = FIELD if from_fields else OTHER
        elif isinstance(target, (ast.Tuple, ast.List)):
            for i, t in enumerate(target.elts):
                if isinstance(t, ast.Name):
                    env[t.id] = RAW if (from_fields and i == 0) else OTHER

    def bad(self, node, what):
        self.ctx.fail("R35.1", (MD, self.qual, node), f"{self.qual.split('.')[-1]}: {ast.unparse(node)}", what)

    def visit(self, node, env):
        if isinstance(node, (ast.ListComp, ast.SetComp, ast.GeneratorExp, ast.DictComp)):
            env2 = dict(env)
            for g in node.generators:
                self.visit(g.iter, env2)
                self.bind(g.target, g.iter, env2)
                for c in g.ifs:
                    self.visit(c, env2)
            elts = [node.key, node.value] if isinstance(node, ast.DictComp) else [node.elt]
            if isinstance(node, (ast.SetComp, ast.DictComp)):
                k = elts[0]
                c = self.cls(k, env2)
                if c == RAW:
                    self.bad(node, "stored field names are de-duplicated without _kconv: names differing only in case count as different keys")
                elif c == CONV:
                    self.good += 1
                    self.ctx.ok("R35.1", f"{self.qual}: set of _kconv'd names {ast.unparse(node)[:60]}")
            for e in elts:
                self.visit(e, env2)
            return
        if isinstance(node, ast.Compare) and all(isinstance(o, (ast.Eq, ast.NotEq, ast.In, ast.NotIn)) for o in node.ops):
            ops = [node.left] + node.comparators
            classes = [self.cls(o, env) for o in ops]
            delegating = len(ops) == 2 and isinstance(ops[1], ast.Name) and ops[1].id == "self"
            if not delegating and (RAW in classes or CONV in classes):
                if RAW in classes:
                    self.bad(node, "a key / stored field name is compared without applying _kconv to both sides: lookups become case-sensitive for Headers")
                else:
                    self.good += 1
                    self.ctx.ok("R35.1", f"{self.qual}: {ast.unparse(node)} (all key operands canonical)")
        if isinstance(node, ast.Call) and isinstance(node.func, ast.Attribute) and node.func.attr == "add" and isinstance(node.func.value, ast.Name) and len(node.args) == 1 \
                and env.get(node.func.value.id) == "set":
            c = self.cls(node.args[0], env)
            if c == RAW:
                self.bad(node, "a raw name is remembered as seen: iteration yields case variants of one key separately")
            elif c == CONV:
                self.good += 1
                self.ctx.ok("R35.1", f"{self.qual}: {ast.unparse(node)}")
        for ch in ast.iter_child_nodes(node):
            self.visit(ch, env)

    def block(self, stmts, env):
        for s in stmts:
            if isinstance(s, ast.Assign):
                self.visit(s.value, env)
                c = self.cls(s.value, env)
                if isinstance(s.value, ast.Call) and isinstance(s.value.func, ast.Name) and s.value.func.id == "set" and not s.value.args:
                    c = "set"
                for t in s.targets:
                    if isinstance(t, ast.Name):
                        env[t.id] = c
            elif isinstance(s, ast.AnnAssign):
                if s.value is not None:
                    self.visit(s.value, env)
                if isinstance(s.target, ast.Name):
                    env[s.target.id] = self.cls(s.value, env) if s.value is not None else OTHER
            elif isinstance(s, (ast.For, ast.AsyncFor)):
                self.visit(s.iter, env)
                self.bind(s.target, s.iter, env)
                self.block(s.body, env)
                self.block(s.orelse, env)
            elif isinstance(s, (ast.If, ast.While)):
                self.visit(s.test, env)
                self.block(s.body, env)
                self.block(s.orelse, env)
            elif isinstance(s, ast.Try):
                self.block(s.body, env)
                for h in s.handlers:
                    self.block(h.body, env)
                self.block(s.orelse, env)
                self.block(s.finalbody, env)
            elif isinstance(s, ast.With):
                self.block(s.body, env)
            elif isinstance(s, (ast.FunctionDef, ast.AsyncFunctionDef, ast.ClassDef)):
                self.ctx.require(False, f"{self.qual}: nested definition not modelled")
            else:
                self.visit(s, env)

    def run(self):
        env = {}
        for a in self.fn.args.posonlyargs + self.fn.args.args + self.fn.args.kwonlyargs:
            if a.annotation is not None and ast.unparse(a.annotation) == "KT":
                env[a.arg] = RAW
        self.block(self.fn.body, env)
        return self.good


# ---------------------------------------------------------------------------------------------------
# R35.3: Headers interpreted from its AST against ordered-multimap post-conditions


class _Memo:
    """read-only view of the Model with memoised class-hierarchy queries (the tree does not change during one run; Model re-stats files per query)"""

    def __init__(self, model):
        self._m = model
        self._c: dict = {}

    def __getattr__(self, name):
        return getattr(self._m, name)

    def _memo(self, key, fn):
        if key not in self._c:
            self._c[key] = fn()
        return self._c[key]

    def mro(self, rel, qual):
        return self._memo(("mro", rel, qual), lambda: self._m.mro(rel, qual))

    def method(self, rel, cls, name):
        return self._memo(("method", rel, cls, name), lambda: self._m.method(rel, cls, name))

    def resolve_name(self, module, expr):
        return self._memo(("resolve", module.rel, ast.dump(expr)), lambda: self._m.resolve_name(module, expr))

    def module_by_dotted(self, dotted):
        return self._memo(("dotted", dotted), lambda: self._m.module_by_dotted(dotted))


def _make_interp(model):
    model = _Memo(model)
    from ..core import AnalysisError
    from ..pyint import ClassRef
    from ..pyint import DictRec
    from ..pyint import Func
    from ..pyint import Interp
    from ..pyint import Raised
    from ..pyint import Rec
    from ..pyint import _Return

    class MapInterp(Interp):
        _kinds: dict = {}

        """pyint + the part of the object protocol a mapping class uses on itself (``k in self``, ``self[k]``, ``len(self)``,
        ``for k in self``, classmethods, ``map``/``filter``) + the collections.abc mix-ins a class inherits from MutableMapping
        (trusted stdlib code, expressed over the interpreted primitives)."""

        def bound(self, v):
            return isinstance(v, Rec) and not isinstance(v, DictRec) and v._impl is not None

        def call_method(self, rec, name, *args):
            return self.apply(self.getattr(rec, name, None, 0), list(args), {}, 0)

        # -- collections.abc.Mapping / MutableMapping mix-ins over the primitives
        def mixin(self, rec, attr):
            if attr == "__contains__":
                def contains(key):
                    try:
                        self.call_method(rec, "__getitem__", key)
                    except Raised as r:
                        if r.name == "KeyError":
                            return False
                        raise
                    return True
                return contains
            if attr == "get":
                def get(key, default=None):
                    try:
                        return self.call_method(rec, "__getitem__", key)
                    except Raised as r:
                        if r.name == "KeyError":
                            return default
                        raise
                return get
            if attr == "items":
                return lambda: [(k, self.call_method(rec, "__getitem__", k)) for k in self.iterate(rec, None)]
            if attr == "keys":
                return lambda: list(self.iterate(rec, None))
            if attr == "values":
                return lambda: [self.call_method(rec, "__getitem__", k) for k in self.iterate(rec, None)]
            if attr == "update":
                def update(other=(), **kw):
                    pairs = list(other.items()) if isinstance(other, dict) else [tuple(x) for x in self.iterate(other, None)]
                    for k, v in pairs + list(kw.items()):
                        self.call_method(rec, "__setitem__", k, v)
                return update
            if attr == "__init__":
                return lambda *a, **k: None
            return None

        def getattr(self, base, attr, node, depth):
            if self.bound(base) and attr not in base.__dict__:
                r = self.model.method(base._impl[0], base._impl[1], attr)
                if r is not None and any(norm_(d) == "classmethod" for d in r[1].decorator_list):
                    return Func(r[0], r[1], bound=ClassRef(self.model.module(base._impl[0]), self.model.cls(*base._impl)))
                if r is None and self.find_property(base, attr) is None:
                    m = self.mixin(base, attr)
                    if m is not None:
                        return m
            if isinstance(base, tuple) and base and base[0] == "$super" and isinstance(base[1], Rec):
                try:
                    return super().getattr(base, attr, node, depth)
                except AnalysisError:
                    m = self.mixin(base[1], attr)
                    if m is None:
                        raise
                    return m
            if isinstance(base, ClassRef):
                r = self.model.method(base.mod.rel, getattr(base.node, "_qual", base.node.name), attr)
                if r is not None and any(norm_(d) == "classmethod" for d in r[1].decorator_list):
                    return Func(r[0], r[1], bound=base)
            return super().getattr(base, attr, node, depth)

        def cmp(self, op, a, b, node):
            if isinstance(op, (ast.In, ast.NotIn)) and self.bound(b):
                r = self.truthy(self.apply(self.getattr(b, "__contains__", node, 0), [a], {}, 0))
                return r if isinstance(op, ast.In) else not r
            if isinstance(op, (ast.Eq, ast.NotEq)) and (self.bound(a) or self.bound(b)):
                x, y = (a, b) if self.bound(a) else (b, a)
                r = x is y or self.truthy(self.apply(self.getattr(x, "__eq__", node, 0), [y], {}, 0))
                return r if isinstance(op, ast.Eq) else not r
            return super().cmp(op, a, b, node)

        def iterate(self, v, node):
            if self.bound(v):
                return self.iterate(self.apply(self.getattr(v, "__iter__", node, 0), [], {}, 0), node)
            return super().iterate(v, node)

        def truthy(self, v):
            if self.bound(v) and self.model.method(v._impl[0], v._impl[1], "__len__") is not None:
                return self.call_method(v, "__len__") != 0
            return super().truthy(v)

        def native_call(self, f, args, kwargs, where):
            if args and self.bound(args[0]) and not kwargs:
                if f is len and len(args) == 1:
                    return self.call_method(args[0], "__len__")
                if f in (list, tuple, set, frozenset, sorted, reversed) and len(args) == 1:
                    return f(list(self.iterate(args[0], None)))
            return super().native_call(f, args, kwargs, where)

        def name(self, ident, env, mod, depth, node):
            if ident in ("map", "filter") and ident not in env and mod.get(ident) is None and ident not in mod.imports and not mod.assigns(ident):
                return ("$builtin", ident)
            if ident == "object" and ident not in env and mod.get(ident) is None and ident not in mod.imports and not mod.assigns(ident):
                return object  # sentinel idiom: ``missing = object()``
            return super().name(ident, env, mod, depth, node)

        def builtin(self, name, args, kwargs, e, env, mod, depth):
            if name == "map" and len(args) >= 2:
                cols = [list(self.iterate(a, e)) for a in args[1:]]
                return iter([self.apply(args[0], list(xs), {}, depth, e) for xs in zip(*cols)])
            if name == "filter" and len(args) == 2:
                xs = list(self.iterate(args[1], e))
                return iter([x for x in xs if self.truthy(x if args[0] is None else self.apply(args[0], [x], {}, depth, e))])
            if name == "iter" and len(args) == 1 and self.bound(args[0]):
                return iter(list(self.iterate(args[0], e)))
            return super().builtin(name, args, kwargs, e, env, mod, depth)

        # -- speed: pyint renders every call to text (externals lookup, error position) and re-walks every callee for yield/await;
        #    thousands of short runs make that the dominant cost.  Same semantics, computed lazily / once per function.
        def ev_call(self, e, env, mod, depth):
            if self.externals:
                return super().ev_call(e, env, mod, depth)
            f = self.ev(e.func, env, mod, depth)
            args = self.elts(e.args, env, mod, depth)
            kwargs = {}
            for k in e.keywords:
                if k.arg is None:
                    kwargs.update(self.ev(k.value, env, mod, depth))
                else:
                    kwargs[k.arg] = self.ev(k.value, env, mod, depth)
            if isinstance(f, tuple) and f and f[0] in ("$builtin", "$dictmethod", "$typing", "$exc"):
                if f[0] == "$builtin":
                    return self.builtin(f[1], args, kwargs, e, env, mod, depth)
                if f[0] == "$exc":
                    return f"<exc:{f[1]}>"
                return super().ev_call(e, env, mod, depth)  # rare: let pyint handle it (arguments are pure here)
            return self.apply(f, args, kwargs, depth, e)

        def apply(self, f, args, kwargs, depth, node=None):
            if isinstance(f, Func) and depth + 1 <= self.max_depth:
                self.calls += 1
                return self.call_func(f, args, kwargs, depth + 1)
            return super().apply(f, args, kwargs, depth, node)

        def call_func(self, f, args, kwargs, depth):
            node = f.node
            kind = self._kinds.get(id(node))
            if kind is None:
                kind = "other" if isinstance(node, ast.Lambda) else "plain"
                if not isinstance(node, ast.Lambda):
                    for n in ast.walk(node):
                        if isinstance(n, (ast.Await, ast.Yield, ast.YieldFrom)) and self._owner(n, node):
                            kind = "other"
                            break
                    a = node.args
                    if a.vararg or a.kwarg or a.kwonlyargs or a.posonlyargs or kwargs:
                        kind = "other" if kind == "other" else "plain-general"
                self._kinds[id(node)] = kind
            if kind != "plain" or kwargs:
                return super().call_func(f, args, kwargs, depth)
            # plain function, positional parameters only, no yield/await: bind and run (what pyint.call_func does on this shape)
            a = node.args
            env = {"$closure": f.closure} if f.closure else {}
            params = [p.arg for p in a.args]
            args = list(args)
            if f.bound is not None and params and params[0] in ("self", "cls"):
                args = [f.bound] + args
                env["$self"] = f.bound
                env["$fn"] = node
            if len(args) > len(params):
                raise Raised("TypeError", "too many positional arguments")
            for p_, v in zip(params, args):
                env[p_] = v
            for p_, d in zip(params[len(params) - len(a.defaults):], a.defaults):
                if p_ not in env:
                    env[p_] = self.ev(d, {}, f.mod, depth)
            for p_ in params:
                if p_ not in env:
                    raise Raised("TypeError", f"missing argument {p_}")
            try:
                self.block(node.body, env, f.mod, depth)
            except _Return as r:
                return r.value
            return None

        def ev(self, e, env, mod, depth):
            if isinstance(e, ast.Subscript) and isinstance(e.ctx, ast.Load):
                base = self.ev(e.value, env, mod, depth)
                if self.bound(base):
                    return self.apply(self.getattr(base, "__getitem__", e, depth), [self.ev(e.slice, env, mod, depth)], {}, depth, e)
                env2 = dict(env)
                env2["$subscripted"] = base
                return super().ev(ast.Subscript(value=ast.Name(id="$subscripted", ctx=ast.Load()), slice=e.slice, ctx=e.ctx), env2, mod, depth)
            return super().ev(e, env, mod, depth)

    it = MapInterp(model, max_steps=4_000_000)
    it._kinds = {}
    return it, Rec, Raised


def norm_(node):
    return ast.unparse(node)


def _b(x):
    return x.encode("utf-8", "surrogateescape") if isinstance(x, str) else bytes(x)


def _s(x):
    return x.decode("utf-8", "surrogateescape") if isinstance(x, bytes) else x


def _universe(max_len, all_empties=True):
    """field lists: every name sequence over (A, a, B) up to max_len, values tagged with their position; plus the variants with one empty value
    (quick tier: the empty value in the first position only)"""
    import itertools

    out = []
    for n in range(max_len + 1):
        for names in itertools.product((b"A", b"a", b"B"), repeat=n):
            base = tuple((k, b"v%d" % i) for i, k in enumerate(names))
            out.append(base)
            for j in range(n if all_empties else min(n, 1)):
                out.append(tuple((k, b"" if i == j else v) for i, (k, v) in enumerate(base)))
    return out


def _ops(fields, full):
    """(operation class, method, args) for one pre-state; ``full`` (thorough tier) adds more spellings / value lists of the same classes"""
    n = len(fields)
    ops = []
    for k in (b"a", b"A", "B", b"c") if full else (b"a", "B", b"c"):
        ops.append(("get_all", "get_all", (k,)))
        ops.append(("lookup", "__getitem__", (k,)))
    for k in (b"a", "B", b"c") if full else (b"A", b"c"):
        ops.append(("delete", "__delitem__", (k,)))
    ops += [("iteration", "__iter__", ()), ("len", "__len__", ()), ("items", "items", ()), ("items(multi)", "items", (True,)), ("keys", "keys", ())]
    if full:
        ops += [("keys(multi)", "keys", (True,)), ("values", "values", ()), ("values(multi)", "values", (True,))]
    for k, v in ((b"a", b""), (b"a", "x"), ("C", b""), ("C", "x")) if full else ((b"a", b""), ("C", "x")):
        ops.append(("add", "add", (k, v)))
    for i in range(n + 1):
        ops.append(("insert", "insert", (i, b"a" if i % 2 else "b", b"x")))
    for k in (b"a", b"A", "b", b"c") if full else (b"a", "b", b"c"):
        for vals in ([], [b""], [b"x"], [b"x", b""], [b"", "y"], ["x", b"y", b"z"]) if full else ([], [b""], [b"x", b""], ["x", b"y", b"z"]):
            ops.append(("set_all", "set_all", (k, vals)))
    for k, v in ((b"a", b""), (b"a", "x"), ("B", b""), ("B", "x"), (b"c", b""), (b"c", "x")) if full else ((b"A", b""), ("b", "x"), (b"c", b"")):
        ops.append(("assignment", "__setitem__", (k, v)))
    ops += [("equality", "__eq__", ("same",)), ("equality", "__eq__", ("extra",)), ("equality", "__eq__", ("foreign",)), ("copy", "copy", ())]
    if n:
        ops.append(("equality", "__eq__", ("changed",)))
    return ops


def _post(cls, meth, args, pre, how, ret, post):
    """None if the ordered-multimap post-condition holds, else a short description of the deviation."""
    def canon(k):
        return _b(k).lower()

    def same_fields():
        return None if post == pre else f"the fields change to {list(post)}"

    def matching(k, fs=pre):
        return [_s(v) for n_, v in fs if n_.lower() == canon(k)]

    def names(fs=pre):
        seen, out = set(), []
        for n_, _ in fs:
            if n_.lower() not in seen:
                seen.add(n_.lower())
                out.append(_s(n_))
        return out

    def folded(k):
        return ", ".join(matching(k))

    def expect_ret(want):
        if how != "return":
            return f"raises {how}, expected {want!r}"
        got = list(ret) if isinstance(want, list) and isinstance(ret, (list, tuple)) else ret
        if isinstance(want, list):
            got = [tuple(x) if isinstance(x, list) else x for x in got] if isinstance(got, list) else got
        return None if got == want and type(got) is type(want) else f"returns {ret!r}, expected {want!r}"

    if how not in ("return", "KeyError"):
        return f"raises {how}"
    if cls == "get_all":
        return expect_ret(matching(args[0])) or same_fields()
    if cls == "lookup":
        if not matching(args[0]):
            return (None if how == "KeyError" else f"returns {ret!r} for an absent name, expected KeyError") or same_fields()
        return expect_ret(folded(args[0])) or same_fields()
    if how == "KeyError" and cls != "delete":
        return "raises KeyError"
    if cls == "delete":
        if not matching(args[0]):
            return (None if how == "KeyError" else "deleting an absent name does not raise KeyError") or same_fields()
        want = tuple(f for f in pre if f[0].lower() != canon(args[0]))
        return ("raises KeyError although the name is present" if how == "KeyError" else None) or (None if post == want else f"the fields become {list(post)}, expected {list(want)}")
    if cls == "iteration":
        return expect_ret(names()) or same_fields()
    if cls == "len":
        return expect_ret(len(names())) or same_fields()
    if cls == "items":
        return expect_ret([(k, folded(k)) for k in names()]) or same_fields()
    if cls == "keys":
        return expect_ret(names()) or same_fields()
    if cls == "values":
        return expect_ret([folded(k) for k in names()]) or same_fields()
    if cls == "items(multi)":
        return expect_ret([(_s(k), _s(v)) for k, v in pre]) or same_fields()
    if cls == "keys(multi)":
        return expect_ret([_s(k) for k, _ in pre]) or same_fields()
    if cls == "values(multi)":
        return expect_ret([_s(v) for _, v in pre]) or same_fields()
    if cls == "add":
        want = pre + ((_b(args[0]), _b(args[1])),)
        return None if post == want else f"the fields become {list(post)}, expected {list(want)}"
    if cls == "insert":
        i = args[0]
        want = pre[:i] + ((_b(args[1]), _b(args[2])),) + pre[i:]
        return None if post == want else f"the fields become {list(post)}, expected {list(want)}"
    if cls in ("set_all", "assignment"):
        k = args[0]
        vals = [args[1]] if cls == "assignment" else list(args[1])
        if not (isinstance(post, tuple) and all(isinstance(f, tuple) and len(f) == 2 and isinstance(f[0], bytes) and isinstance(f[1], bytes) for f in post)):
            return f"the fields become {post!r}: not a tuple of (bytes, bytes) pairs"
        keep_pre = [f for f in pre if f[0].lower() != canon(k)]
        keep_post = [f for f in post if f[0].lower() != canon(k)]
        if keep_pre != keep_post:
            return f"the untouched fields {keep_pre} become {keep_post}"
        if matching(k, post) != [_s(v) for v in vals]:
            return f"the values stored under the name become {matching(k, post)}, expected {[_s(v) for v in vals]} (fields {list(post)})"
        return None
    raise AssertionError(cls)


def _show_call(meth, args):
    m = {"__getitem__": "h[{0!r}]", "__delitem__": "del h[{0!r}]", "__setitem__": "h[{0!r}] = {1!r}", "__iter__": "list(h)", "__len__": "len(h)", "__eq__": "h == <{0}>", "copy": "h.copy()"}
    if meth in m:
        return m[meth].format(*args)
    return f"h.{meth}({', '.join(repr(a) for a in args)})"


def r35_3(ctx):
    import copy as _copy

    m = ctx.model
    it, Rec, Raised = _make_interp(m)
    ctx.require(m.has(HTTP, "Headers"), "http.Headers vanished")
    anc = [c.name for _, c in m.mro(HTTP, "Headers")]
    ctx.require("_MultiDict" in anc, f"Headers no longer derives from _MultiDict: {anc}")
    max_len = 3 if ctx.tier == "thorough" else 2
    universe = _universe(max_len, all_empties=ctx.tier == "thorough")

    def fresh(fields):
        return Rec("Headers", _bases=tuple(anc[1:]), _impl=(HTTP, "Headers"), fields=tuple(fields))

    def where_of(meth):
        r = m.method(HTTP, "Headers", meth)
        if r is None:
            return (HTTP, "Headers", m.cls(HTTP, "Headers")), f"Headers.{meth}"
        qual = getattr(r[1], "_qual", meth)
        return (r[0].rel, qual, r[1]), qual

    counts: dict = {}
    bad: dict = {}
    n = 0
    for pre in universe:
        for cls, meth, args in _ops(pre, ctx.tier == "thorough"):
            h = fresh(pre)
            call_args = [_copy.deepcopy(a) for a in args]
            others = {}
            if meth == "__eq__":
                kind = args[0]
                others = {"same": fresh(pre), "extra": fresh(pre + ((b"B", b"z"),)), "foreign": list(pre),
                          "changed": fresh(tuple((k, v + b"!") if i == len(pre) - 1 else (k, v) for i, (k, v) in enumerate(pre)))}
                call_args = [others[kind]]
            how, ret = "return", None
            try:
                ret = it.method(h, meth, *call_args)
                if cls in ("iteration", "items", "items(multi)", "keys", "keys(multi)", "values", "values(multi)"):
                    ret = [tuple(x) if isinstance(x, list) else x for x in it.iterate(ret, None)]
            except Raised as r:
                how = r.name
            n += 1
            extra = set(h.__dict__) - {"fields", "_cls", "_bases", "_impl", "_name", "_items"}
            ctx.require(not extra, f"Headers.{meth} leaves attribute(s) {sorted(extra)} behind: state other than `fields` is not modelled by R35.3")
            post = h.fields
            if cls == "equality":
                want = args[0] == "same"
                problem = None if (how == "return" and ret is want) else f"{'raises ' + how if how != 'return' else 'returns ' + repr(ret)}, expected {want}"
                problem = problem or (None if post == pre else f"the fields change to {list(post)}")
            elif cls == "copy":
                if how != "return":
                    problem = f"raises {how}"
                elif not (isinstance(ret, Rec) and ret is not h and ret.isa("Headers")):
                    problem = f"returns {ret!r}, expected a new Headers"
                else:
                    problem = None if (ret.fields == pre and post == pre) else f"the copy has fields {list(ret.fields)}, the original {list(post)}"
            else:
                problem = _post(cls, meth, args, pre, how, ret, post)
            counts[cls] = counts.get(cls, 0) + 1
            if problem and cls not in bad:
                bad[cls] = (meth, pre, args, problem)  # the universe is enumerated shortest-first: a minimal witness
    ctx.cells += n
    for cls in counts:
        if cls in bad:
            meth, pre, args, problem = bad[cls]
            where, qual = where_of(meth)
            ctx.fail("R35.3", where, f"{cls}: fields {list(pre)} ; {_show_call(meth, args)} : {problem}"[:300],
                     f"Headers does not behave as a case-insensitive ordered multimap for {cls} ({qual})")
        else:
            ctx.ok("R35.3", f"{cls}: {counts[cls]} (field list, call) cases meet the post-condition")
    ctx.bounds.append(f"R35.3: all {len(universe)} field lists over names A/a/B with position-tagged values (at most one empty{'' if ctx.tier == 'thorough' else ', in the first position'}) up to length {max_len}; "
                      "call arguments over the spellings a/A/B/b, an absent name, bytes and str forms, empty and non-empty new values, 0-3 values for set_all")
    ctx.trust("collections.abc Mapping/MutableMapping mix-ins (__contains__, get, items, update) behave as documented over __getitem__/__setitem__/__iter__; bytes/str methods")
    ctx.functions.update({f"{HTTP}::Headers.{x}" for x in ("__iter__", "get_all", "set_all", "insert", "items", "__delitem__")})
    if not bad:
        ctx.expect_instances("R35.3", 17 if ctx.tier == "thorough" else 14)


def _r35_1(ctx):
    m = ctx.model
    md = m.cls(MD, "_MultiDict")
    meths = methods(md)
    for need in ("__delitem__", "__iter__", "__len__", "get_all", "set_all", "__getitem__", "__setitem__", "insert"):
        ctx.require(need in meths, f"_MultiDict.{need} vanished")
    total = 0
    for name, fn in meths.items():
        ctx.functions.add(f"{MD}::_MultiDict.{name}")
        total += _Scan(ctx, f"_MultiDict.{name}", fn).run()
    # key parameters must be recognisable (annotation KT), otherwise the scan above is vacuous
    for name in ("__delitem__", "get_all", "set_all"):
        fn = meths[name]
        ctx.require(any(a.annotation is not None and ast.unparse(a.annotation) == "KT" for a in fn.args.args), f"_MultiDict.{name}: key parameter no longer annotated KT (raw-key source not recognised)")

    # __delitem__ keeps exactly the non-matching fields
    de = ctx.func(MD, "_MultiDict.__delitem__")
    asg = [n for n in ast.walk(de) if isinstance(n, ast.Assign) and attr_chain(n.targets[0]) == "self.fields"]
    ctx.require(len(asg) == 1, "_MultiDict.__delitem__: assignment to self.fields not found")
    comp = [n for n in ast.walk(asg[0].value) if isinstance(n, (ast.GeneratorExp, ast.ListComp))]
    ctx.require(len(comp) == 1 and len(comp[0].generators) == 1 and len(comp[0].generators[0].ifs) == 1 and _is_fields(comp[0].generators[0].iter), "_MultiDict.__delitem__: filter over self.fields not modelled")
    g = comp[0].generators[0]
    cond = g.ifs[0]
    neg = False
    if isinstance(cond, ast.UnaryOp) and isinstance(cond.op, ast.Not):
        cond, neg = cond.operand, True
    ctx.require(isinstance(cond, ast.Compare) and len(cond.ops) == 1 and isinstance(cond.ops[0], (ast.Eq, ast.NotEq)), f"_MultiDict.__delitem__: filter condition not modelled: {ast.unparse(g.ifs[0])}")
    keeps_other = isinstance(cond.ops[0], ast.NotEq) != neg
    same_elt = isinstance(comp[0].elt, ast.Name) and isinstance(g.target, ast.Name) and comp[0].elt.id == g.target.id
    ctx.check(keeps_other and same_elt, "R35.1", (MD, "_MultiDict.__delitem__", asg[0]), f"__delitem__: {ast.unparse(asg[0].value)}",
              "deletion must keep exactly the fields whose canonical name differs from the key, unchanged", desc="__delitem__ keeps non-matching fields unchanged")

    # set_all: non-matching fields are appended unchanged, once, in order
    sa = ctx.func(MD, "_MultiDict.set_all")
    loops = [n for n in sa.body if isinstance(n, ast.For) and _is_fields(n.iter) and isinstance(n.target, ast.Name)]
    ctx.require(len(loops) == 1, "_MultiDict.set_all: loop over self.fields not found")
    var = loops[0].target.id
    fin = [n for n in sa.body if isinstance(n, ast.Assign) and attr_chain(n.targets[0]) == "self.fields"]
    ctx.require(len(fin) == 1 and fin[0].lineno > loops[0].lineno, "_MultiDict.set_all: final assignment to self.fields not found")
    acc = [n.id for n in ast.walk(fin[0].value) if isinstance(n, ast.Name) and n.id not in ("tuple", "list")]
    ctx.require(len(acc) == 1, f"_MultiDict.set_all: self.fields = {ast.unparse(fin[0].value)} not modelled")
    acc = acc[0]
    body_fn = ast.parse("def _body():\n    pass").body[0]
    body_fn.body = loops[0].body
    trs, eng = paths(body_fn, keep=lambda e: e[0] == "call" and e[1] in (f"{acc}.append", f"{acc}.insert", f"{acc}.extend"))
    ctx.paths += len(trs)
    bad = False
    n_keep = n_match = 0
    for t, how in trs:
        conds = [e for e in t if e[0] == "cond" and var in {n.id for n in ast.walk(ast.parse(e[1], mode="eval")) if isinstance(n, ast.Name)} and (" == " in e[1] or " != " in e[1])]
        ctx.require(conds, f"_MultiDict.set_all: a loop path does not decide whether the field matches: [{show(t)}]")
        matches = conds[0][2] if " == " in conds[0][1] else not conds[0][2]
        apps = [e for e in t if e[0] == "call"]
        if not matches:
            n_keep += 1
            if len(apps) != 1 or apps[0][1] != f"{acc}.append" or apps[0][2] != (var,):
                bad = True
                ctx.fail("R35.1", (MD, "_MultiDict.set_all", loops[0]), f"set_all: non-matching field path [{show(t)}]",
                         "a field whose name does not match must be carried over unchanged, once and in place (spelling and relative order of untouched fields)")
        else:
            n_match += 1
            if len(apps) > 1:
                bad = True
                ctx.fail("R35.1", (MD, "_MultiDict.set_all", loops[0]), f"set_all: matching field path [{show(t)}]", "a matching slot is filled more than once")
    ctx.require(bad or (n_keep >= 1 and n_match >= 1), "_MultiDict.set_all: matching / non-matching paths not recognised")
    if not bad:
        ctx.ok("R35.1", f"set_all: {len(trs)} loop-body paths; non-matching fields appended unchanged once; self.fields = tuple({acc})")

    # Headers._kconv lower-cases
    hk = ctx.func(HTTP, "Headers._kconv")
    p = params(hk, drop_self=False)
    rets = [n for n in ast.walk(hk) if isinstance(n, ast.Return) and n.value is not None]
    okk = len(p) == 1 and len(rets) == 1 and isinstance(rets[0].value, ast.Call) and isinstance(rets[0].value.func, ast.Attribute) and rets[0].value.func.attr in ("lower", "casefold") \
        and attr_chain(rets[0].value.func.value) == p[0]
    ctx.check(okk, "R35.1", (HTTP, "Headers._kconv", hk), f"Headers._kconv returns {ast.unparse(rets[0].value) if rets else '?'}",
              "header names are not canonicalised by lower-casing: lookups are case-sensitive", desc="Headers._kconv = key.lower()")
    ctx.require(total >= 5 or any(f.rule == "R35.1" for f in ctx.findings), f"_MultiDict: only {total} canonical comparisons recognised (expected >= 5)")
    expect(ctx, "R35.1", 9)


def _r35_2(ctx):
    # ---- R35.2
    hb = ctx.func(HTTP, "Headers.__bytes__")
    joins = [n for n in ast.walk(hb) if isinstance(n, ast.Call) and isinstance(n.func, ast.Attribute) and n.func.attr == "join" and isinstance(n.func.value, ast.Constant) and isinstance(n.func.value.value, bytes)]
    inner = [j for j in joins if j.args and isinstance(j.args[0], ast.Name)]
    outer = [j for j in joins if j.args and isinstance(j.args[0], (ast.GeneratorExp, ast.ListComp))]
    ctx.require(len(inner) == 1 and len(outer) == 1 and _is_fields(outer[0].args[0].generators[0].iter), f"Headers.__bytes__: join structure not modelled: {ast.unparse(hb.body[-1])[:100]}")
    sep = inner[0].func.value.value
    lsep = outer[0].func.value.value
    ctx.require(isinstance(outer[0].args[0].generators[0].target, ast.Name) and outer[0].args[0].generators[0].target.id == inner[0].args[0].id, "Headers.__bytes__: inner join does not join the field tuple")
    rh = ctx.func(READ, "_read_headers")
    splits = [n for n in ast.walk(rh) if isinstance(n, ast.Call) and isinstance(n.func, ast.Attribute) and n.func.attr in ("split", "partition") and n.args and isinstance(n.args[0], ast.Constant) and isinstance(n.args[0].value, bytes)]
    ctx.require(len(splits) == 1, f"_read_headers: {len(splits)} split calls on a bytes delimiter")
    sp = splits[0]
    delim = sp.args[0].value
    once = sp.func.attr == "partition" or (len(sp.args) == 2 and isinstance(sp.args[1], ast.Constant) and sp.args[1].value == 1) or any(k.arg == "maxsplit" and isinstance(k.value, ast.Constant) and k.value.value == 1 for k in sp.keywords)
    asg = sp._parent
    ctx.require(isinstance(asg, ast.Assign) and isinstance(asg.targets[0], ast.Tuple) and all(isinstance(e, ast.Name) for e in asg.targets[0].elts), "_read_headers: split result is not unpacked into names")
    names = [e.id for e in asg.targets[0].elts]
    nvar, vvar = names[0], names[-1]
    stripped = any(isinstance(n, ast.Assign) and attr_chain(n.targets[0]) == vvar and isinstance(n.value, ast.Call) and isinstance(n.value.func, ast.Attribute) and n.value.func.attr in ("strip", "lstrip")
                   and attr_chain(n.value.func.value) == vvar and not n.value.args for n in ast.walk(rh))
    name_touched = any(isinstance(n, ast.Assign) and attr_chain(n.targets[0]) == nvar and n is not asg for n in ast.walk(rh))
    apps = [n for n in ast.walk(rh) if isinstance(n, ast.Call) and attr_chain(n.func).endswith(".append") and n.args and isinstance(n.args[0], ast.Tuple)]
    ctx.require(len(apps) == 1, "_read_headers: ret.append((name, value)) not found")
    order_ok = [attr_chain(e) for e in apps[0].args[0].elts] == [nvar, vvar]
    rest = sep[len(delim):] if sep.startswith(delim) else None
    ctx.cells += 5
    probs = []
    if not once:
        probs.append("the line is split at every delimiter, so a value containing the delimiter is rejected or truncated")
    if rest is None:
        probs.append(f"the serialiser's separator {sep!r} does not start with the parser's delimiter {delim!r}: the name comes back changed")
    elif rest and not (stripped and rest.strip() == b""):
        probs.append(f"the remainder {rest!r} of the separator is not stripped from the value")
    if name_touched:
        probs.append("the parser rewrites the field name")
    if not order_ok:
        probs.append("the parser appends the field in a different order than the serialiser joins it")
    if lsep != b"\r\n":
        probs.append(f"fields are terminated by {lsep!r}, not CRLF")
    for p_ in probs:
        ctx.fail("R35.2", (READ, "_read_headers", sp), f"__bytes__ joins with {sep!r}; _read_headers: {ast.unparse(asg)}", p_)
    if not probs:
        ctx.ok("R35.2", f"name{sep.decode()!r}value: split once at {delim!r}, value stripped, (name, value) order, CRLF between fields")
    expect(ctx, "R35.2", 1)


def check(ctx):
    ctx.rule("R35.1", "_MultiDict: every comparison / de-duplication involving a key argument or a stored field name uses _kconv on both sides; __delitem__ and set_all keep non-matching fields; Headers._kconv lower-cases")
    ctx.rule("R35.2", "Headers.__bytes__ and http1 _read_headers agree on 'name SEP value': one split at the delimiter SEP starts with, value stripped, (name, value) order")
    ctx.rule("R35.3", "Headers, interpreted from its AST on every field list of a bounded universe, meets the post-conditions of a case-insensitive ordered multimap for every operation of the property")
    # each rule is guarded: a shape one rule does not model must not hide a violation found by another
    ctx.guard(r35_3, ctx)
    ctx.guard(_r35_1, ctx)
    ctx.guard(_r35_2, ctx)


MUTANTS = [
    Mutant("get-all-raw-key", MD, "        key = self._kconv(key)\n        return [value for k, value in self.fields if self._kconv(k) == key]", "        return [value for k, value in self.fields if self._kconv(k) == key]", "R35.1"),
    Mutant("get-all-raw-field-name", MD, "if self._kconv(k) == key]", "if k == key]", "R35.1"),
    Mutant("delitem-raw-field-name", MD, "field for field in self.fields if key != self._kconv(field[0])", "field for field in self.fields if key != field[0]", "R35.1"),
    Mutant("delitem-keeps-the-deleted", MD, "field for field in self.fields if key != self._kconv(field[0])", "field for field in self.fields if key == self._kconv(field[0])", "R35.1"),
    Mutant("len-counts-raw-names", MD, "return len({self._kconv(key) for key, _ in self.fields})", "return len({key for key, _ in self.fields})", "R35.1"),
    Mutant("iter-remembers-raw-name", MD, "                seen.add(key_kconv)\n", "                seen.add(key)\n", "R35.1"),
    Mutant("iter-tests-raw-name", MD, "            if key_kconv not in seen:\n", "            if key not in seen:\n", "R35.1"),
    Mutant("set-all-raw-compare", MD, "            if self._kconv(field[0]) == key_kconv:\n", "            if field[0] == key:\n", "R35.1"),
    Mutant("set-all-drops-other-fields", MD, "            else:\n                new_fields.append(field)\n", "", "R35.1"),
    Mutant("set-all-moves-other-fields-to-front", MD, "            else:\n                new_fields.append(field)\n", "            else:\n                new_fields.insert(0, field)\n", "R35.1"),
    Mutant("headers-kconv-identity", HTTP, "        # Headers are case-insensitive\n        return key.lower()\n", "        # Headers are case-insensitive\n        return key\n", "R35.1"),
    # R35.3 (model equivalence by interpretation)
    Mutant("set-all-drops-empty-replacement-value", MD, "                if values:\n                    new_fields.append((field[0], values.pop(0)))\n",
           "                if values:\n                    value = values.pop(0)\n                    if value:\n                        new_fields.append((field[0], value))\n", "R35.3"),
    Mutant("headers-iter-last-spelling-via-dict", HTTP, "        for x in super().__iter__():\n            yield _native(x)\n",
           "        names = {self._kconv(name): name for name, _ in self.fields}\n        return iter([_native(x) for x in names.values()])\n", "R35.3"),
    Mutant("get-all-skips-empty-values", MD, "return [value for k, value in self.fields if self._kconv(k) == key]", "return [value for k, value in self.fields if value and self._kconv(k) == key]", "R35.3"),
    Mutant("set-all-appends-surplus-values-reversed", MD, "        while values:\n            new_fields.append((key, values.pop(0)))\n", "        while values:\n            new_fields.append((key, values.pop()))\n", "R35.3"),
    Mutant("add-prepends", MD, "self.insert(len(self.fields), key, value)", "self.insert(0, key, value)", "R35.3"),
    Mutant("insert-replaces-the-field-at-index", MD, "self.fields = self.fields[:index] + (item,) + self.fields[index:]", "self.fields = self.fields[:index] + (item,) + self.fields[index + 1:]", "R35.3"),
    Mutant("delete-removes-first-match-only", MD, "        self.fields = tuple(\n            field for field in self.fields if key != self._kconv(field[0])\n        )\n",
           "        i = [self._kconv(field[0]) for field in self.fields].index(key)\n        self.fields = self.fields[:i] + self.fields[i + 1:]\n", "R35.3"),
    Mutant("equality-ignores-values", MD, "            return self.fields == other.fields\n", "            return [k for k, _ in self.fields] == [k for k, _ in other.fields]\n", "R35.3"),
    Mutant("lookup-returns-first-value-only", HTTP, "        # Headers can be folded\n        return \", \".join(values)\n", "        # Headers can be folded\n        return values[0]\n", "R35.3"),
    Mutant("items-multi-loses-repeated-names", HTTP, "            return ((_native(k), _native(v)) for k, v in self.fields)\n", "            return {_native(k): _native(v) for k, v in self.fields}.items()\n", "R35.3"),
    Mutant("parser-splits-every-colon", READ, "name, value = line.split(b\":\", 1)", "name, value = line.split(b\":\")", "R35.2"),
    Mutant("parser-keeps-leading-space", READ, "                value = value.strip()\n", "", "R35.2"),
    Mutant("serialiser-pads-name", HTTP, "b\": \".join(field) for field in self.fields", "b\" : \".join(field) for field in self.fields", "R35.2"),
    Mutant("parser-swaps-name-value", READ, "ret.append((name, value))", "ret.append((value, name))", "R35.2"),
    Mutant("serialiser-lf-only", HTTP, "            return b\"\\r\\n\".join(b\": \".join(field) for field in self.fields) + b\"\\r\\n\"", "            return b\"\\n\".join(b\": \".join(field) for field in self.fields) + b\"\\n\"", "R35.2"),
]
