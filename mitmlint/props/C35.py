"""C35 - header collections behave as a case-insensitive ordered multimap.

Decided:
  R35.1 key-normalisation discipline in coretypes/multidict.py::_MultiDict: wherever a key argument or a stored field
        name takes part in a comparison (==, !=, in, not in), is put into a set, or is added to a "seen" set, BOTH sides
        are canonicalised with ``self._kconv`` (flow-sensitive: ``key = self._kconv(key)`` turns the name into a
        canonical one from that statement on); ``__delitem__`` keeps exactly the fields whose canonical name differs;
        ``set_all`` appends every non-matching field unchanged, exactly once and in order, and stores the rebuilt list;
        ``Headers._kconv`` lower-cases its argument.
  R35.2 HTTP/1 serialise/parse agreement: ``Headers.__bytes__`` writes ``name SEP value`` per field and ``_read_headers``
        splits each line ONCE at a delimiter that SEP starts with, keeps the name untouched, strips the rest of SEP from
        the value and appends (name, value) in the order ``__bytes__`` joins them.
NOT decided: equivalence with an ordered-multimap model over operation histories, equality/copy semantics, obs-fold
handling, validity of field names/values.
"""

from __future__ import annotations

import ast

from ..model import attr_chain
from ..model import last_attr
from ..selftest import Mutant
from ._helpers_E import expect
from ._helpers_E import methods
from ._helpers_E import params
from ._helpers_E import paths
from ._helpers_E import show

PROP = "C35"
REG = {
    "strength": "narrow",
    "technique": "flow-sensitive key-normalisation dataflow over _MultiDict (raw vs. canonical key classes at every comparison / set insertion) + serialiser/parser separator agreement",
    "claim": "no _MultiDict operation compares or de-duplicates a raw (non-canonicalised) key or stored field name; deletion and set_all keep "
    "non-matching fields in place; Headers canonicalises by lower-casing; Headers.__bytes__ and http1 _read_headers agree on the field syntax.",
    "note": "A necessary discipline, not model equivalence.",
}

MD = "mitmproxy/coretypes/multidict.py"
HTTP = "mitmproxy/http.py"
READ = "mitmproxy/net/http/http1/read.py"
RAW, CONV, FIELD, OTHER = "raw", "conv", "field", "other"


def _is_kconv(call):
    return isinstance(call, ast.Call) and attr_chain(call.func) in ("self._kconv", "cls._kconv") and len(call.args) == 1


def _is_fields(e):
    ch = attr_chain(e)
    return ch == "self.fields" or ch.endswith(".fields")


class _Scan:
    def __init__(self, ctx, qual, fn):
        self.ctx, self.qual, self.fn = ctx, qual, fn
        self.good = 0

    def cls(self, e, env):
        if _is_kconv(e):
            return CONV
        if isinstance(e, ast.Name):
            return env.get(e.id, OTHER)
        if isinstance(e, ast.Subscript) and isinstance(e.value, ast.Name) and env.get(e.value.id) == FIELD and isinstance(e.slice, ast.Constant):
            return RAW if e.slice.value == 0 else OTHER
        return OTHER

    def bind(self, target, it, env):
        from_fields = _is_fields(it) or (isinstance(it, ast.Call) and it.args and _is_fields(it.args[0]) and last_attr(it.func) in ("list", "tuple", "reversed", "iter"))
        if isinstance(target, ast.Name):
            env[target.id] = FIELD if from_fields else OTHER
        elif isinstance(target, (ast.Tuple, ast.List)):
            for i, t in enumerate(target.elts):
                if isinstance(t, ast.Name):
                    env[t.id] = RAW if (from_fields and i == 0) else OTHER

    def bad(self, node, what):
        self.ctx.fail("R35.1", (MD, self.qual, node), f"{self.qual.split('.')[-1]}: {ast.unparse(node)}", what)

    def visit(self, node, env):
        if isinstance(node, (ast.ListComp, ast.SetComp, ast.GeneratorExp, ast.DictComp)):
            env2 = dict(env)
            for g in node.generators:
                self.visit(g.iter, env2)
                self.bind(g.target, g.iter, env2)
                for c in g.ifs:
                    self.visit(c, env2)
            elts = [node.key, node.value] if isinstance(node, ast.DictComp) else [node.elt]
            if isinstance(node, (ast.SetComp, ast.DictComp)):
                k = elts[0]
                c = self.cls(k, env2)
                if c == RAW:
                    self.bad(node, "stored field names are de-duplicated without _kconv: names differing only in case count as different keys")
                elif c == CONV:
                    self.good += 1
                    self.ctx.ok("R35.1", f"{self.qual}: set of _kconv'd names {ast.unparse(node)[:60]}")
            for e in elts:
                self.visit(e, env2)
            return
        if isinstance(node, ast.Compare) and all(isinstance(o, (ast.Eq, ast.NotEq, ast.In, ast.NotIn)) for o in node.ops):
            ops = [node.left] + node.comparators
            classes = [self.cls(o, env) for o in ops]
            delegating = len(ops) == 2 and isinstance(ops[1], ast.Name) and ops[1].id == "self"
            if not delegating and (RAW in classes or CONV in classes):
                if RAW in classes:
                    self.bad(node, "a key / stored field name is compared without applying _kconv to both sides: lookups become case-sensitive for Headers")
                else:
                    self.good += 1
                    self.ctx.ok("R35.1", f"{self.qual}: {ast.unparse(node)} (all key operands canonical)")
        if isinstance(node, ast.Call) and isinstance(node.func, ast.Attribute) and node.func.attr == "add" and isinstance(node.func.value, ast.Name) and len(node.args) == 1 \
                and env.get(node.func.value.id) == "set":
            c = self.cls(node.args[0], env)
            if c == RAW:
                self.bad(node, "a raw name is remembered as seen: iteration yields case variants of one key separately")
            elif c == CONV:
                self.good += 1
                self.ctx.ok("R35.1", f"{self.qual}: {ast.unparse(node)}")
        for ch in ast.iter_child_nodes(node):
            self.visit(ch, env)

    def block(self, stmts, env):
        for s in stmts:
            if isinstance(s, ast.Assign):
                self.visit(s.value, env)
                c = self.cls(s.value, env)
                if isinstance(s.value, ast.Call) and isinstance(s.value.func, ast.Name) and s.value.func.id == "set" and not s.value.args:
                    c = "set"
                for t in s.targets:
                    if isinstance(t, ast.Name):
                        env[t.id] = c
            elif isinstance(s, ast.AnnAssign):
                if s.value is not None:
                    self.visit(s.value, env)
                if isinstance(s.target, ast.Name):
                    env[s.target.id] = self.cls(s.value, env) if s.value is not None else OTHER
            elif isinstance(s, (ast.For, ast.AsyncFor)):
                self.visit(s.iter, env)
                self.bind(s.target, s.iter, env)
                self.block(s.body, env)
                self.block(s.orelse, env)
            elif isinstance(s, (ast.If, ast.While)):
                self.visit(s.test, env)
                self.block(s.body, env)
                self.block(s.orelse, env)
            elif isinstance(s, ast.Try):
                self.block(s.body, env)
                for h in s.handlers:
                    self.block(h.body, env)
                self.block(s.orelse, env)
                self.block(s.finalbody, env)
            elif isinstance(s, ast.With):
                self.block(s.body, env)
            elif isinstance(s, (ast.FunctionDef, ast.AsyncFunctionDef, ast.ClassDef)):
                self.ctx.require(False, f"{self.qual}: nested definition not modelled")
            else:
                self.visit(s, env)

    def run(self):
        env = {}
        for a in self.fn.args.posonlyargs + self.fn.args.args + self.fn.args.kwonlyargs:
            if a.annotation is not None and ast.unparse(a.annotation) == "KT":
                env[a.arg] = RAW
        self.block(self.fn.body, env)
        return self.good


def check(ctx):
    ctx.rule("R35.1", "_MultiDict: every comparison / de-duplication involving a key argument or a stored field name uses _kconv on both sides; __delitem__ and set_all keep non-matching fields; Headers._kconv lower-cases")
    ctx.rule("R35.2", "Headers.__bytes__ and http1 _read_headers agree on 'name SEP value': one split at the delimiter SEP starts with, value stripped, (name, value) order")
    m = ctx.model
    md = m.cls(MD, "_MultiDict")
    meths = methods(md)
    for need in ("__delitem__", "__iter__", "__len__", "get_all", "set_all", "__getitem__", "__setitem__", "insert"):
        ctx.require(need in meths, f"_MultiDict.{need} vanished")
    total = 0
    for name, fn in meths.items():
        ctx.functions.add(f"{MD}::_MultiDict.{name}")
        total += _Scan(ctx, f"_MultiDict.{name}", fn).run()
    # key parameters must be recognisable (annotation KT), otherwise the scan above is vacuous
    for name in ("__delitem__", "get_all", "set_all"):
        fn = meths[name]
        ctx.require(any(a.annotation is not None and ast.unparse(a.annotation) == "KT" for a in fn.args.args), f"_MultiDict.{name}: key parameter no longer annotated KT (raw-key source not recognised)")

    # __delitem__ keeps exactly the non-matching fields
    de = ctx.func(MD, "_MultiDict.__delitem__")
    asg = [n for n in ast.walk(de) if isinstance(n, ast.Assign) and attr_chain(n.targets[0]) == "self.fields"]
    ctx.require(len(asg) == 1, "_MultiDict.__delitem__: assignment to self.fields not found")
    comp = [n for n in ast.walk(asg[0].value) if isinstance(n, (ast.GeneratorExp, ast.ListComp))]
    ctx.require(len(comp) == 1 and len(comp[0].generators) == 1 and len(comp[0].generators[0].ifs) == 1 and _is_fields(comp[0].generators[0].iter), "_MultiDict.__delitem__: filter over self.fields not modelled")
    g = comp[0].generators[0]
    cond = g.ifs[0]
    neg = False
    if isinstance(cond, ast.UnaryOp) and isinstance(cond.op, ast.Not):
        cond, neg = cond.operand, True
    ctx.require(isinstance(cond, ast.Compare) and len(cond.ops) == 1 and isinstance(cond.ops[0], (ast.Eq, ast.NotEq)), f"_MultiDict.__delitem__: filter condition not modelled: {ast.unparse(g.ifs[0])}")
    keeps_other = isinstance(cond.ops[0], ast.NotEq) != neg
    same_elt = isinstance(comp[0].elt, ast.Name) and isinstance(g.target, ast.Name) and comp[0].elt.id == g.target.id
    ctx.check(keeps_other and same_elt, "R35.1", (MD, "_MultiDict.__delitem__", asg[0]), f"__delitem__: {ast.unparse(asg[0].value)}",
              "deletion must keep exactly the fields whose canonical name differs from the key, unchanged", desc="__delitem__ keeps non-matching fields unchanged")

    # set_all: non-matching fields are appended unchanged, once, in order
    sa = ctx.func(MD, "_MultiDict.set_all")
    loops = [n for n in sa.body if isinstance(n, ast.For) and _is_fields(n.iter) and isinstance(n.target, ast.Name)]
    ctx.require(len(loops) == 1, "_MultiDict.set_all: loop over self.fields not found")
    var = loops[0].target.id
    fin = [n for n in sa.body if isinstance(n, ast.Assign) and attr_chain(n.targets[0]) == "self.fields"]
    ctx.require(len(fin) == 1 and fin[0].lineno > loops[0].lineno, "_MultiDict.set_all: final assignment to self.fields not found")
    acc = [n.id for n in ast.walk(fin[0].value) if isinstance(n, ast.Name) and n.id not in ("tuple", "list")]
    ctx.require(len(acc) == 1, f"_MultiDict.set_all: self.fields = {ast.unparse(fin[0].value)} not modelled")
    acc = acc[0]
    body_fn = ast.parse("def _body():\n    pass").body[0]
    body_fn.body = loops[0].body
    trs, eng = paths(body_fn, keep=lambda e: e[0] == "call" and e[1] in (f"{acc}.append", f"{acc}.insert", f"{acc}.extend"))
    ctx.paths += len(trs)
    bad = False
    n_keep = n_match = 0
    for t, how in trs:
        conds = [e for e in t if e[0] == "cond" and var in {n.id for n in ast.walk(ast.parse(e[1], mode="eval")) if isinstance(n, ast.Name)} and (" == " in e[1] or " != " in e[1])]
        ctx.require(conds, f"_MultiDict.set_all: a loop path does not decide whether the field matches: [{show(t)}]")
        matches = conds[0][2] if " == " in conds[0][1] else not conds[0][2]
        apps = [e for e in t if e[0] == "call"]
        if not matches:
            n_keep += 1
            if len(apps) != 1 or apps[0][1] != f"{acc}.append" or apps[0][2] != (var,):
                bad = True
                ctx.fail("R35.1", (MD, "_MultiDict.set_all", loops[0]), f"set_all: non-matching field path [{show(t)}]",
                         "a field whose name does not match must be carried over unchanged, once and in place (spelling and relative order of untouched fields)")
        else:
            n_match += 1
            if len(apps) > 1:
                bad = True
                ctx.fail("R35.1", (MD, "_MultiDict.set_all", loops[0]), f"set_all: matching field path [{show(t)}]", "a matching slot is filled more than once")
    ctx.require(bad or (n_keep >= 1 and n_match >= 1), "_MultiDict.set_all: matching / non-matching paths not recognised")
    if not bad:
        ctx.ok("R35.1", f"set_all: {len(trs)} loop-body paths; non-matching fields appended unchanged once; self.fields = tuple({acc})")

    # Headers._kconv lower-cases
    hk = ctx.func(HTTP, "Headers._kconv")
    p = params(hk, drop_self=False)
    rets = [n for n in ast.walk(hk) if isinstance(n, ast.Return) and n.value is not None]
    okk = len(p) == 1 and len(rets) == 1 and isinstance(rets[0].value, ast.Call) and isinstance(rets[0].value.func, ast.Attribute) and rets[0].value.func.attr in ("lower", "casefold") \
        and attr_chain(rets[0].value.func.value) == p[0]
    ctx.check(okk, "R35.1", (HTTP, "Headers._kconv", hk), f"Headers._kconv returns {ast.unparse(rets[0].value) if rets else '?'}",
              "header names are not canonicalised by lower-casing: lookups are case-sensitive", desc="Headers._kconv = key.lower()")
    ctx.require(total >= 5 or any(f.rule == "R35.1" for f in ctx.findings), f"_MultiDict: only {total} canonical comparisons recognised (expected >= 5)")

    # ---- R35.2
    hb = ctx.func(HTTP, "Headers.__bytes__")
    joins = [n for n in ast.walk(hb) if isinstance(n, ast.Call) and isinstance(n.func, ast.Attribute) and n.func.attr == "join" and isinstance(n.func.value, ast.Constant) and isinstance(n.func.value.value, bytes)]
    inner = [j for j in joins if j.args and isinstance(j.args[0], ast.Name)]
    outer = [j for j in joins if j.args and isinstance(j.args[0], (ast.GeneratorExp, ast.ListComp))]
    ctx.require(len(inner) == 1 and len(outer) == 1 and _is_fields(outer[0].args[0].generators[0].iter), f"Headers.__bytes__: join structure not modelled: {ast.unparse(hb.body[-1])[:100]}")
    sep = inner[0].func.value.value
    lsep = outer[0].func.value.value
    ctx.require(isinstance(outer[0].args[0].generators[0].target, ast.Name) and outer[0].args[0].generators[0].target.id == inner[0].args[0].id, "Headers.__bytes__: inner join does not join the field tuple")
    rh = ctx.func(READ, "_read_headers")
    splits = [n for n in ast.walk(rh) if isinstance(n, ast.Call) and isinstance(n.func, ast.Attribute) and n.func.attr in ("split", "partition") and n.args and isinstance(n.args[0], ast.Constant) and isinstance(n.args[0].value, bytes)]
    ctx.require(len(splits) == 1, f"_read_headers: {len(splits)} split calls on a bytes delimiter")
    sp = splits[0]
    delim = sp.args[0].value
    once = sp.func.attr == "partition" or (len(sp.args) == 2 and isinstance(sp.args[1], ast.Constant) and sp.args[1].value == 1) or any(k.arg == "maxsplit" and isinstance(k.value, ast.Constant) and k.value.value == 1 for k in sp.keywords)
    asg = sp._parent
    ctx.require(isinstance(asg, ast.Assign) and isinstance(asg.targets[0], ast.Tuple) and all(isinstance(e, ast.Name) for e in asg.targets[0].elts), "_read_headers: split result is not unpacked into names")
    names = [e.id for e in asg.targets[0].elts]
    nvar, vvar = names[0], names[-1]
    stripped = any(isinstance(n, ast.Assign) and attr_chain(n.targets[0]) == vvar and isinstance(n.value, ast.Call) and isinstance(n.value.func, ast.Attribute) and n.value.func.attr in ("strip", "lstrip")
                   and attr_chain(n.value.func.value) == vvar and not n.value.args for n in ast.walk(rh))
    name_touched = any(isinstance(n, ast.Assign) and attr_chain(n.targets[0]) == nvar and n is not asg for n in ast.walk(rh))
    apps = [n for n in ast.walk(rh) if isinstance(n, ast.Call) and attr_chain(n.func).endswith(".append") and n.args and isinstance(n.args[0], ast.Tuple)]
    ctx.require(len(apps) == 1, "_read_headers: ret.append((name, value)) not found")
    order_ok = [attr_chain(e) for e in apps[0].args[0].elts] == [nvar, vvar]
    rest = sep[len(delim):] if sep.startswith(delim) else None
    ctx.cells += 5
    probs = []
    if not once:
        probs.append("the line is split at every delimiter, so a value containing the delimiter is rejected or truncated")
    if rest is None:
        probs.append(f"the serialiser's separator {sep!r} does not start with the parser's delimiter {delim!r}: the name comes back changed")
    elif rest and not (stripped and rest.strip() == b""):
        probs.append(f"the remainder {rest!r} of the separator is not stripped from the value")
    if name_touched:
        probs.append("the parser rewrites the field name")
    if not order_ok:
        probs.append("the parser appends the field in a different order than the serialiser joins it")
    if lsep != b"\r\n":
        probs.append(f"fields are terminated by {lsep!r}, not CRLF")
    for p_ in probs:
        ctx.fail("R35.2", (READ, "_read_headers", sp), f"__bytes__ joins with {sep!r}; _read_headers: {ast.unparse(asg)}", p_)
    if not probs:
        ctx.ok("R35.2", f"name{sep.decode()!r}value: split once at {delim!r}, value stripped, (name, value) order, CRLF between fields")

    expect(ctx, "R35.1", 9)
    expect(ctx, "R35.2", 1)


MUTANTS = [
    Mutant("get-all-raw-key", MD, "        key = self._kconv(key)\n        return [value for k, value in self.fields if self._kconv(k) == key]", "        return [value for k, value in self.fields if self._kconv(k) == key]", "R35.1"),
    Mutant("get-all-raw-field-name", MD, "if self._kconv(k) == key]", "if k == key]", "R35.1"),
    Mutant("delitem-raw-field-name", MD, "field for field in self.fields if key != self._kconv(field[0])", "field for field in self.fields if key != field[0]", "R35.1"),
    Mutant("delitem-keeps-the-deleted", MD, "field for field in self.fields if key != self._kconv(field[0])", "field for field in self.fields if key == self._kconv(field[0])", "R35.1"),
    Mutant("len-counts-raw-names", MD, "return len({self._kconv(key) for key, _ in self.fields})", "return len({key for key, _ in self.fields})", "R35.1"),
    Mutant("iter-remembers-raw-name", MD, "                seen.add(key_kconv)\n", "                seen.add(key)\n", "R35.1"),
    Mutant("iter-tests-raw-name", MD, "            if key_kconv not in seen:\n", "            if key not in seen:\n", "R35.1"),
    Mutant("set-all-raw-compare", MD, "            if self._kconv(field[0]) == key_kconv:\n", "            if field[0] == key:\n", "R35.1"),
    Mutant("set-all-drops-other-fields", MD, "            else:\n                new_fields.append(field)\n", "", "R35.1"),
    Mutant("set-all-moves-other-fields-to-front", MD, "            else:\n                new_fields.append(field)\n", "            else:\n                new_fields.insert(0, field)\n", "R35.1"),
    Mutant("headers-kconv-identity", HTTP, "        # Headers are case-insensitive\n        return key.lower()\n", "        # Headers are case-insensitive\n        return key\n", "R35.1"),
    Mutant("parser-splits-every-colon", READ, "name, value = line.split(b\":\", 1)", "name, value = line.split(b\":\")", "R35.2"),
    Mutant("parser-keeps-leading-space", READ, "                value = value.strip()\n", "", "R35.2"),
    Mutant("serialiser-pads-name", HTTP, "b\": \".join(field) for field in self.fields", "b\" : \".join(field) for field in self.fields", "R35.2"),
    Mutant("parser-swaps-name-value", READ, "ret.append((name, value))", "ret.append((value, name))", "R35.2"),
    Mutant("serialiser-lf-only", HTTP, "            return b\"\\r\\n\".join(b\": \".join(field) for field in self.fields) + b\"\\r\\n\"", "            return b\"\\n\".join(b\": \".join(field) for field in self.fields) + b\"\\n\"", "R35.2"),
]
