"""C17 - the certificate store is bounded and never serves a certificate for other names.

Technique: ``CertStore.get_cert`` / ``add_cert`` (and whatever they call: ``expire``, ``asterisk_forms``, extracted helpers, properties,
module-level helpers) are *interpreted from their AST* by the general interpreter ``mitmlint/pyint.py`` on an abstract store: ``self`` is a
record bound to the repository class whose ``certs`` / ``expire_queue`` are ordinary containers (initial value: what ``__init__`` assigns,
evaluated), entries are records of ``CertStoreEntry`` compared by identity, ``cryptography.x509`` is a stand-in offering the general-name
classes only, ``logging`` / ``warnings`` are null objects, ``dummy_cert`` is a stub that records its arguments (bound by parameter name; the
CN the generated certificate carries is what the repository's ``Cert.cn`` reads back from the certificate the *interpreted* ``dummy_cert``
builds against a recording model of the x509 builder - ``cert_cn_of``), the SAN normaliser (today ``_fix_legacy_sans``) is interpreted
like everything else, whatever it is called - so the shape of the code (loops vs comprehensions vs ``next(filter(...))``, ``if`` vs ``match``, early returns,
extracted helpers, logging, assertions, annotations) does not matter, only what it computes.  The reachable state space over a small
universe of requests and custom registrations is explored exhaustively (all histories, any length, capacity 1..2 substituted for every read
of ``STORE_CAP`` and of module constants it is a plain alias of).  On every transition the observable result is compared with the property:
  R17.1 bound: after every call at most CAP generated entries are referenced by ``certs`` and by ``expire_queue``; custom entries are never
        dropped; ``STORE_CAP`` *evaluates* to a positive integer constant (literal, module constant, constant arithmetic) and is never
        reassigned; ``certs`` / ``expire_queue`` are written only by ``__init__`` and by methods the explored operations run (intra-class
        call graph from ``get_cert`` / ``add_cert``, so an extracted private helper is fine, a writer elsewhere - e.g. ``add_cert_file`` - is not).
  R17.2 names: the entry returned for (cn, sans) is a registered custom entry reachable from one of the requested names by the store's wildcard
        rules (and a matching custom entry always wins over generation), or a generated entry built by ``dummy_cert`` for exactly
        (cn, sans); asking again immediately returns the *same* entry and changes nothing (cache hit).
  R17.3 ``asterisk_forms``: "a.b.c" -> [a.b.c, *.b.c, *.c]; never the bare "*"; DNS names through ``.value``; other general names verbatim.
Narrowed w.r.t. DESIGN: which of several *matching custom* certificates wins (CN forms before SAN forms before "*") and FIFO (vs e.g.
LRU) eviction order are not required by the property statement and are therefore not enforced; the observed order is printed as a note.
Not decided: the X.509 content of generated certificates (C16), thread-safety.
``_StoreInterp`` carries three performance work-arounds for pyint (per-call ``ast.unparse`` of the callee, per-call generator scan of the
callee body, per-read module scan for builtin names); they transcribe the base behaviour and are candidates for pyint itself.
"""

from __future__ import annotations

import ast

from ..core import AnalysisError
from ..core import norm
from ..model import attr_chain
from ..model import call_name
from ..model import enclosing_func
from ..pyint import ClassRef
from ..pyint import Interp
from ..pyint import Raised
from ..pyint import Rec
from ..pyint import _Return
from ..selftest import Mutant

PROP = "C17"
REG = {
    "strength": "partial",
    "technique": "exhaustive exploration of the abstract certificate store obtained by interpreting CertStore's methods from their AST "
    "(stubs for certificate generation) against a reference model of the property; who-may-write scan; literal check",
    "claim": "over all histories of get_cert / add_cert on a small universe (5 requests, 5 custom registrations, capacity 1 and 2): generated "
    "entries never exceed the capacity, custom entries are never lost, every returned entry is a matching custom entry or a generated one for "
    "exactly the requested names, and an immediate repeat is a cache hit; asterisk_forms follows the wildcard rule and never yields '*'.",
    "note": "Finite universe; the capacity is substituted for self.STORE_CAP (the literal is checked separately). x509.GeneralNames is modelled as a "
    "hashable tuple of name records (trusted: cryptography's GeneralNames equality/hash by content).",
}
F = "mitmproxy/certs.py"


# ---- abstract values ------------------------------------------------------------------------------


class GN:
    """x509.GeneralName stand-in (subclasses per kind below: class patterns / isinstance decide on the Python class)"""

    kind = "?"

    def __init__(self, value, _kind=None):
        self.value = value
        if _kind is not None:
            self.kind = _kind

    def __eq__(self, o):
        return isinstance(o, GN) and (self.kind, self.value) == (o.kind, o.value)

    def __hash__(self):
        return hash((self.kind, self.value))

    def __repr__(self):
        return f"{self.kind}:{self.value}"


def _gn_class(name, kind):
    return type(name, (GN,), {"kind": kind, "__doc__": f"x509.{name} stand-in"})


_GN_CLASSES = {n: _gn_class(n, k) for n, k in (("DNSName", "DNS"), ("IPAddress", "IP"), ("UniformResourceIdentifier", "URI"), ("RFC822Name", "EMAIL"),
                                                 ("DirectoryName", "DIR"), ("RegisteredID", "RID"), ("OtherName", "OTHER"))}
DNS = _GN_CLASSES["DNSName"]
IP = _GN_CLASSES["IPAddress"]
URI = _GN_CLASSES["UniformResourceIdentifier"]


class Names(tuple):
    """x509.GeneralNames stand-in (hashable, iterable, equality by content; *not* equal to a plain tuple/list)"""

    def __new__(cls, items=()):
        return tuple.__new__(cls, tuple(items))

    def __eq__(self, o):
        return isinstance(o, Names) and tuple.__eq__(self, o)

    def __ne__(self, o):
        return not self.__eq__(o)

    def __hash__(self):
        return hash(("Names", tuple.__hash__(self)))

    def __repr__(self):
        return f"Names{list(self)}"


class _X509Stub:
    """stand-in for the trusted `cryptography.x509` module: only the general-name vocabulary (everything else is C16's business)"""

    GeneralName = GN
    GeneralNames = Names

    def __getattr__(self, name):
        if name in _GN_CLASSES:
            return _GN_CLASSES[name]
        raise AttributeError(name)


def _null(*a, **k):
    return None


_null._c17_transparent = True  # type: ignore[attr-defined]


class _NullLog:
    """stand-in for the `logging` module / a logger / `warnings`: nothing is enabled, every call is a no-op (whatever is passed)"""

    DEBUG, INFO, WARNING, ERROR, CRITICAL = 10, 20, 30, 40, 50

    def getLogger(self, *a, **k):
        return self

    def isEnabledFor(self, *a, **k):
        return False

    def getEffectiveLevel(self):
        return self.CRITICAL + 10

    def __getattr__(self, name):
        if name in ("debug", "info", "warning", "warn", "error", "exception", "log", "critical"):
            return _null
        raise AttributeError(name)


class CertRec:
    def __init__(self, cn, altnames, gen_args=None):
        self.cn, self.altnames, self.gen_args = cn, Names(altnames), gen_args


ENTRY = "CertStoreEntry"


def is_entry(v):
    return isinstance(v, Rec) and v.isa(ENTRY) and isinstance(v.__dict__.get("cert"), CertRec)


def label(e):
    return e._name


def custom_entry(cert, name):
    return Rec(ENTRY, _impl=(F, ENTRY), _name=name, cert=cert, privatekey=("opaque", "custom key"), chain_file=None, chain_certs=[])


class Store:
    def __init__(self, cap, certs=None, queue=None):
        self.certs, self.queue, self.cap = {} if certs is None else certs, [] if queue is None else queue, cap

    def copy(self):
        return Store(self.cap, type(self.certs)(self.certs), type(self.queue)(self.queue))

    def canon(self):
        order = {}
        for e in list(self.queue) + [v for _, v in sorted(self.certs.items(), key=lambda kv: repr(kv[0]))]:
            if e.cert.gen_args is not None and id(e) not in order:
                order[id(e)] = f"g{len(order)}:{e.cert.gen_args!r}"
        lab = lambda e: order.get(id(e), label(e))  # noqa: E731
        return (tuple(sorted((repr(k), lab(v)) for k, v in self.certs.items())), tuple(lab(e) for e in self.queue))


OPAQUE_KEY = ("opaque", "self.default_privatekey")
OPAQUE_CA = ("opaque", "self.default_ca._cert")


class _StoreInterp(Interp):
    """pyint with (a) the capacity under exploration substituted for every read of the class attribute ``CertStore.STORE_CAP``
    (``self.`` / ``cls.`` / ``CertStore.`` / ``type(self).``), (b) the lazy builtins ``filter`` / ``map`` and generator expressions as
    iterators (so ``next(filter(...), None)``, ``next((k for k in ... if ...), None)`` and a for/break loop are the same lookup),
    (c) calls of the null logger transparent whatever is passed (entries are abstract records)."""

    cap = None
    _plain: dict = {}  # id(function node) -> (node, True if neither generator nor coroutine): the scan of Interp.call_func, done once
    _builtin_names: dict = {}

    # -- performance work-arounds (semantics identical to the base class; see the report / module docstring) ------------------------
    def apply(self, f, args, kwargs, depth, node=None):
        # the base renders `node` to text on every call just for error messages: render only when there is a message
        try:
            return Interp.apply(self, f, args, kwargs, depth, None)
        except AnalysisError as ex:
            if node is not None and " at ?" in str(ex):
                raise AnalysisError(str(ex).replace(" at ?", " at " + norm(node)[:80]))
            raise

    def ev_call(self, e, env, mod, depth):
        # Interp.ev_call minus the textual `externals` lookup, which unparses the callee on every call (no externals are used here:
        # stubs are bound by name through `overrides`).  Special callables are handed back to the base class.
        if self.externals:
            return Interp.ev_call(self, e, env, mod, depth)
        f = self.ev(e.func, env, mod, depth)
        special = f[0] if isinstance(f, tuple) and f and isinstance(f[0], str) and f[0].startswith("$") else None
        if special not in (None, "$builtin", "$dictmethod"):
            return Interp.ev_call(self, e, env, mod, depth)  # $typing / $exc: the base class re-evaluates the (pure) callee expression and dispatches
        args = self.elts(e.args, env, mod, depth)
        kwargs = {}
        for k in e.keywords:
            if k.arg is None:
                kwargs.update(self.ev(k.value, env, mod, depth))
            else:
                kwargs[k.arg] = self.ev(k.value, env, mod, depth)
        if special == "$builtin":
            return self.builtin(f[1], args, kwargs, e, env, mod, depth)
        if special == "$dictmethod":
            return self.dictmethod(f[1], f[2], args, kwargs)
        return self.apply(f, args, kwargs, depth, e)

    def call_func(self, f, args, kwargs, depth):
        # the base scans the whole function for yield / await on *every* call; the verdict per function node is cached and plain
        # functions are bound and run by `_run_plain` (a transcription of the base binding rules)
        node = f.node
        if isinstance(node, ast.Lambda):
            return Interp.call_func(self, f, args, kwargs, depth)
        hit = self._plain.get(id(node))
        if hit is None or hit[0] is not node:
            plain = not any(isinstance(n, (ast.Await, ast.Yield, ast.YieldFrom)) for n in ast.walk(node))
            hit = self._plain[id(node)] = (node, plain)
        if not hit[1]:
            return Interp.call_func(self, f, args, kwargs, depth)
        return self._run_plain(f, args, kwargs, depth)

    def _run_plain(self, f, args, kwargs, depth):
        node = f.node
        a = node.args
        env = {"$closure": f.closure} if f.closure else {}
        params = [p.arg for p in a.posonlyargs + a.args]
        args = list(args)
        if f.bound is not None and params and params[0] in ("self", "cls"):
            args = [f.bound] + args
            env["$self"] = f.bound
            env["$fn"] = node
        for p, v in zip(params, args):
            env[p] = v
        extra = args[len(params):]
        if a.vararg:
            env[a.vararg.arg] = tuple(extra)
        elif extra:
            raise Raised("TypeError", "too many positional arguments")
        dnames = params[len(params) - len(a.defaults):] if a.defaults else []
        for p, d in zip(dnames, a.defaults):
            if p not in env and p not in kwargs:
                env[p] = self.ev(d, {}, f.mod, depth)
        for p, d in zip(a.kwonlyargs, a.kw_defaults):
            if p.arg not in kwargs and d is not None:
                env[p.arg] = self.ev(d, {}, f.mod, depth)
        known = set(params) | {p.arg for p in a.kwonlyargs}
        rest = {}
        for k, v in kwargs.items():
            if k in known:
                env[k] = v
            else:
                rest[k] = v
        if a.kwarg:
            env[a.kwarg.arg] = rest
        elif rest:
            raise Raised("TypeError", f"unexpected keyword {list(rest)}")
        for p in params + [p.arg for p in a.kwonlyargs]:
            if p not in env:
                raise Raised("TypeError", f"missing argument {p}")
        try:
            self.block(node.body, env, f.mod, depth)
        except _Return as r:
            return r.value
        return None

    def class_attr(self, cref, attr, depth):
        if self.cap is not None and attr == CAP_ATTR and cref.node.name == "CertStore" and cref.mod.rel == F:
            return self.cap
        return Interp.class_attr(self, cref, attr, depth)

    def name(self, ident, env, mod, depth, node):
        if ident in env:
            return env[ident]
        clo = env.get("$closure")
        while clo is not None and ident not in clo:
            clo = clo.get("$closure")
        if clo is None:
            # builtins: the base looks through the module's definitions / imports / assignments on every read; the verdict is cached
            key = (mod.rel, ident)
            hit = self._builtin_names.get(key)
            if hit is not None and hit[0] is mod:
                return hit[1]
            if (mod.rel, ident) not in self.overrides and mod.get(ident) is None and ident not in mod.imports and not mod.assigns(ident):
                if ident in ("filter", "map"):  # lazy builtins pyint does not know: handled in `builtin` below
                    v = ("$builtin", ident)
                else:
                    v = Interp.name(self, ident, env, mod, depth, node)
                self._builtin_names[key] = (mod, v)
                return v
        return Interp.name(self, ident, env, mod, depth, node)

    def builtin(self, name, args, kwargs, e, env, mod, depth):
        if name in ("filter", "map") and not kwargs and len(args) >= 2:
            f = args[0]
            seqs = [self.iterate(a, e) for a in args[1:]]
            if name == "filter":
                if len(seqs) != 1:
                    raise Raised("TypeError")
                keep = (lambda x: self.truthy(x)) if f is None else (lambda x: self.truthy(self.apply(f, [x], {}, depth, e)))
                return iter([x for x in seqs[0] if keep(x)])  # eager on a pure predicate: same elements, same order
            return iter([self.apply(f, list(xs), {}, depth, e) for xs in zip(*seqs)])
        return Interp.builtin(self, name, args, kwargs, e, env, mod, depth)

    def comp(self, e, env, mod, depth):
        out = Interp.comp(self, e, env, mod, depth)
        return iter(out) if isinstance(e, ast.GeneratorExp) else out

    def native_call(self, f, args, kwargs, where):
        if getattr(f, "_c17_transparent", False):
            return None
        if getattr(f, "__self__", None) is dict and getattr(f, "__name__", "") == "fromkeys":  # container constructor: entries pass through
            return dict.fromkeys(*args, **kwargs)
        return Interp.native_call(self, f, args, kwargs, where)


CAP_ATTR = "STORE_CAP"


def _trusted():
    import collections
    import ipaddress
    import types

    log = _NullLog()
    return {"cryptography.x509": _X509Stub(), "cryptography": types.SimpleNamespace(x509=_X509Stub()), "logging": log, "warnings": log,
            "collections": collections, "ipaddress": ipaddress, "itertools": __import__("itertools"), "threading": __import__("threading")}


def _bind_call(fn, args, kwargs, what):
    """argument values of a stubbed repository function by parameter name (positional or keyword call, defaults = absent)"""
    params = [a.arg for a in fn.args.posonlyargs + fn.args.args]
    if len(args) > len(params):
        raise AnalysisError(f"{what}: more positional arguments than parameters")
    out = dict(zip(params, args))
    for k, v in kwargs.items():
        if k in out or k not in params + [a.arg for a in fn.args.kwonlyargs]:
            raise AnalysisError(f"{what}: keyword {k} does not bind to a parameter")
        out[k] = v
    return out


class Machine:
    """Interprets CertStore methods (pyint) on a Store: ``self`` is a record bound to the repository class whose ``certs`` /
    ``expire_queue`` are the store's containers; certificate generation is stubbed."""

    _interps: dict = {}

    @classmethod
    def interp(cls, ctx, cap):
        """one interpreter per (program, capacity): the stubs and the substituted capacity do not depend on the store state"""
        key = (id(ctx.model), cap)
        hit = cls._interps.get(key)
        if hit is not None and hit[0] is ctx.model:
            return hit[1]
        it = _StoreInterp(ctx.model, trusted_modules=_trusted(), max_depth=16, max_steps=200000)
        it.cap = cap
        dc = ctx.func(F, "dummy_cert")

        def dummy_cert(*args, **kwargs):
            a = _bind_call(dc, args, kwargs, "dummy_cert call")
            missing = [p for p in ("privkey", "cacert", "commonname", "sans") if p not in a]
            if missing:
                raise AnalysisError(f"dummy_cert call: parameter(s) {missing} not bound (signature changed?)")
            if a["privkey"] != OPAQUE_KEY or a["cacert"] != OPAQUE_CA:
                raise AnalysisError("dummy_cert is not called with the store's CA key / certificate")
            sans = a["sans"]
            if not isinstance(sans, (Names, list, tuple)) or not all(isinstance(x, GN) for x in sans):
                raise AnalysisError(f"dummy_cert called with sans = {sans!r} (not general names)")
            return CertRec(cert_cn_of(ctx, a["commonname"]), tuple(sans), gen_args=(a["commonname"], Names(sans)))

        it.overrides[(F, "dummy_cert")] = dummy_cert
        for nm in _cap_aliases(ctx):
            it.overrides[(F, nm)] = cap
        if len(cls._interps) > 8:
            cls._interps.clear()
        cls._interps[key] = (ctx.model, it)
        return it

    _extras: dict = {}
    extra_written: dict = {}  # id(model) -> (model, names of extra attributes an explored operation changed)

    @classmethod
    def extra_attrs(cls, ctx, known):
        """Instance attributes ``CertStore.__init__`` sets besides the modelled ones from an expression that does not depend on its
        arguments (a lock, a counter, a constant ...): evaluated once per program.  What cannot be evaluated stays absent - reading it
        is then an AnalysisError of the interpretation, never a guess."""
        hit = cls._extras.get("model")
        if hit is not None and hit[0] is ctx.model:
            return hit[1]
        out = {}
        init = ctx.model.method(F, "CertStore", "__init__")
        if init is not None:
            mod, fn = init
            a = fn.args
            params = {p.arg for p in a.posonlyargs + a.args + a.kwonlyargs} | {x.arg for x in (a.vararg, a.kwarg) if x is not None}
            it = Interp(ctx.model, trusted_modules=_trusted())
            for n in ast.walk(fn):
                tv = [(t, n.value) for t in n.targets] if isinstance(n, ast.Assign) else [(n.target, n.value)] if isinstance(n, ast.AnnAssign) and n.value is not None else []
                for t, v in tv:
                    ch = attr_chain(t)
                    if not ch.startswith("self.") or ch.count(".") != 1 or ch[5:] in known or ch[5:] in out:
                        continue
                    if any(isinstance(x, ast.Name) and x.id in params for x in ast.walk(v)):
                        continue
                    try:
                        out[ch[5:]] = it.ev(v, {}, mod, 0)
                    except (AnalysisError, Raised):
                        pass
        cls._extras["model"] = (ctx.model, out)
        return out

    def __init__(self, ctx, store):
        import types

        self.ctx, self.m, self.store = ctx, ctx.model, store
        self.it = self.interp(ctx, store.cap)
        self.rec = Rec("CertStore", _impl=(F, "CertStore"), certs=store.certs, expire_queue=store.queue, default_privatekey=OPAQUE_KEY,
                       default_ca=types.SimpleNamespace(_cert=OPAQUE_CA), default_chain_file=None, default_chain_certs=[],
                       default_crl=b"", dhparams=b"")
        self.extras = self.extra_attrs(ctx, self.rec.__dict__)
        for k, v in self.extras.items():
            object.__setattr__(self.rec, k, type(v)(v) if type(v) in (list, dict, set, bytearray) else v)  # (every transition starts from the pristine value)

    def call(self, name, args):
        import collections

        self.it.steps = 0
        del self.it.writes[:]
        try:
            result = self.it.method(self.rec, name, *args)
        except Raised as r:
            raise AnalysisError(f"CertStore.{name} raises {r.name} on the abstract input {args!r} (not modelled)")
        except RecursionError:
            raise AnalysisError(f"CertStore.{name}: interpretation recursion too deep")
        certs, queue = self.rec.__dict__.get("certs"), self.rec.__dict__.get("expire_queue")
        if not isinstance(certs, dict):
            raise AnalysisError(f"self.certs rebound to a non-dict ({type(certs).__name__})")
        if not isinstance(queue, (list, collections.deque)):
            raise AnalysisError(f"self.expire_queue rebound to a {type(queue).__name__} (list / deque modelled)")
        bad = [v for v in list(certs.values()) + list(queue) if not is_entry(v)]
        if bad:
            raise AnalysisError(f"the store holds {bad[0]!r}, which is not a certificate entry")
        self.store.certs, self.store.queue = certs, queue
        # state outside the explored store that the operation changed (a hit counter, a "last request" memo): `check` makes sure nothing reads it
        for k, v in self.extras.items():
            now = self.rec.__dict__.get(k, v)
            if now is not v and not (type(now) is type(v) and type(v) in (list, dict, set, bytearray, int, str, bytes, bool, float, tuple, type(None)) and now == v):
                self.extra_written.setdefault(id(self.m), (self.m, set()))[1].add(k)
        return result


_CN_CACHE: dict = {}


class _Opq:
    """A value of a library outside the model (keys, hashes, serial numbers, extensions ...).  Attribute access, calls and arithmetic give
    opaque values again; using one in a decision, a comparison or an iteration is an AnalysisError - never a guess."""

    _pyint_accepts_abstract = True

    def __init__(self, path):
        object.__setattr__(self, "_path", path)

    def __getattr__(self, k):
        if k.startswith("_"):
            raise AttributeError(k)
        return _Opq(f"{self._path}.{k}")

    def __call__(self, *a, **k):
        return _Opq(f"{self._path}()")

    def _arith(self, *a):
        return _Opq(f"({self._path} op ..)")

    def __enter__(self):  # a context manager of a library outside the model has no effect on the modelled world
        if self._path.startswith("contextlib."):  # (contextlib's managers do have an effect on control flow: never "no effect")
            raise AnalysisError(f"C17 certificate model: `with {self._path}` not modelled")
        return _Opq(f"{self._path}.__enter__()")

    def __exit__(self, *a):
        return False

    def _refuse(self, *a, **k):
        raise AnalysisError(f"C17 certificate model: a decision depends on the value of `{self._path}` (library outside the model)")

    def __eq__(self, o):
        # the same attribute path from the same opaque root is the same value (attribute reads of the libraries are deterministic); the
        # results of two calls are not comparable, nor are different paths
        if isinstance(o, _Opq) and o._path == self._path and "(" not in self._path:
            return True
        return self._refuse()

    def __ne__(self, o):
        return not self.__eq__(o)

    def __hash__(self):
        return hash(self._path)

    __add__ = __radd__ = __sub__ = __rsub__ = __mul__ = __rmul__ = __neg__ = _arith
    __bool__ = __lt__ = __le__ = __gt__ = __ge__ = __iter__ = __len__ = __getitem__ = __contains__ = __int__ = __index__ = _refuse

    def __repr__(self):
        return f"<{self._path}>"


class _NameAttr:
    """x509.NameAttribute(oid, value)"""

    _pyint_accepts_abstract = True

    def __init__(self, oid, value, *a, **k):
        self.oid, self.value = oid, value


class _Name:
    """x509.Name(attributes): the relative distinguished names in order"""

    _pyint_accepts_abstract = True

    def __init__(self, attributes=()):
        attrs = list(attributes)
        if not all(isinstance(x, _NameAttr) for x in attrs):
            raise AnalysisError(f"C17 certificate model: x509.Name built from {attrs!r} (NameAttribute objects modelled)")
        self.attrs = attrs

    def get_attributes_for_oid(self, oid):
        return [x for x in self.attrs if x.oid == oid]

    def __iter__(self):
        return iter(self.attrs)

    def __len__(self):
        return len(self.attrs)

    @property
    def rdns(self):
        return list(self.attrs)


class _Oids:
    """NameOID / ExtendedKeyUsageOID ...: one token per member"""

    def __init__(self, kind):
        self._kind = kind

    def __getattr__(self, k):
        if k.startswith("_"):
            raise AttributeError(k)
        return (self._kind, k)


class _Builder:
    """x509.CertificateBuilder: immutable, every setter answers a new builder that remembers what it was asked"""

    _pyint_accepts_abstract = True

    def __init__(self, calls=()):
        self._calls = tuple(calls)

    def sign(self, *a, **k):
        return _Certificate(self._calls)

    def __getattr__(self, k):
        if k.startswith("_"):
            raise AttributeError(k)

        def setter(*a, **kw):
            return _Builder(self._calls + ((k, a, kw),))

        setter._pyint_accepts_abstract = True
        return setter


class _Certificate:
    """x509.Certificate as signed by the builder model: only the subject can be read back (SANs are the stub's business)"""

    _pyint_accepts_abstract = True

    def __init__(self, calls):
        subj = [c for c in calls if c[0] == "subject_name"]
        if len(subj) > 1:
            raise AnalysisError("C17 certificate model: subject_name set twice (ValueError in cryptography)")
        if subj and not (len(subj[0][1]) == 1 and isinstance(subj[0][1][0], _Name)):
            raise AnalysisError(f"C17 certificate model: subject_name({subj[0][1]!r}) is not an x509.Name built by the function")
        self.subject = subj[0][1][0] if subj else _Name()
        self._set = {}
        for name, a, kw in calls:  # what was handed to the builder is what the certificate carries
            if len(a) == 1 and not kw:
                self._set[name] = a[0]

    _READ_BACK = {"issuer": "issuer_name", "serial_number": "serial_number", "not_valid_before": "not_valid_before", "not_valid_after": "not_valid_after",
                  "not_valid_before_utc": "not_valid_before", "not_valid_after_utc": "not_valid_after"}

    def public_key(self):
        return self._set.get("public_key", _Opq("certificate.public_key()"))

    def __getattr__(self, k):
        if k.startswith("_"):
            raise AttributeError(k)
        if self._READ_BACK.get(k) in self._set:
            return self._set[self._READ_BACK[k]]
        return _Opq(f"certificate.{k}")


class _X509Full(_X509Stub):
    """`cryptography.x509` for interpreting dummy_cert / Cert.cn: general names, builder, names and object identifiers; the rest is opaque"""

    _pyint_accepts_abstract = True
    Certificate = _Certificate
    Name = _Name
    NameAttribute = _NameAttr
    NameOID = _Oids("NameOID")
    ExtendedKeyUsageOID = _Oids("ExtendedKeyUsageOID")
    ExtensionOID = _Oids("ExtensionOID")

    def CertificateBuilder(self):
        return _Builder()

    def __getattr__(self, name):
        if name.startswith("_"):
            raise AttributeError(name)
        if name in _GN_CLASSES:
            return _GN_CLASSES[name]
        return _Opq(f"x509.{name}")


class _OpenWorld(dict):
    """pyint's table of non-repository modules: the registered models / pure stdlib modules; every other library is opaque"""

    def __contains__(self, target):
        return isinstance(target, str) and target.split(".")[0] not in ("mitmproxy", "typing", "typing_extensions")

    def __getitem__(self, target):
        parts = target.split(".")
        for i in range(len(parts), 0, -1):
            k = ".".join(parts[:i])
            if dict.__contains__(self, k):
                obj = dict.__getitem__(self, k)
                for p in parts[i:]:
                    try:
                        obj = getattr(obj, p)
                    except AttributeError:
                        raise AnalysisError(f"C17 certificate model: `{target}` is not part of the model of `{k}`")
                return obj
        return _Opq(target)


class _CertInterp(Interp):
    def native_call(self, f, args, kwargs, where):
        if isinstance(f, _Opq):  # (no effect on the modelled world, whatever is passed)
            return f(*args, **kwargs)
        return Interp.native_call(self, f, args, kwargs, where)


def cert_cn_of(ctx, commonname):
    """The CN the generated certificate really carries - what the repository's ``Cert.cn`` reads back from the certificate ``dummy_cert``
    builds for this ``commonname``: both are *interpreted* against a recording model of the x509 builder (today: the name is present only
    when ``commonname is not None and len(commonname) < 64``).  How dummy_cert assembles the subject does not matter."""
    import collections
    import datetime
    import ipaddress
    import types

    key = (id(ctx.model), commonname)
    if key in _CN_CACHE and _CN_CACHE[key][0] is ctx.model:
        return _CN_CACHE[key][1]
    fn = ctx.func(F, "dummy_cert")
    x509 = _X509Full()
    log = _NullLog()
    it = _CertInterp(ctx.model, max_depth=16, max_steps=200000)
    it.trusted = _OpenWorld({"cryptography.x509": x509, "cryptography": types.SimpleNamespace(x509=x509, hazmat=_Opq("cryptography.hazmat")), "logging": log, "warnings": log,
                             "collections": collections, "ipaddress": ipaddress, "datetime": datetime, "itertools": __import__("itertools"),
                             "functools": __import__("functools"), "operator": __import__("operator")})
    values = {"privkey": _Opq("privkey"), "cacert": _Opq("cacert"), "commonname": commonname, "sans": Names([DNS("cn-probe.example")])}
    a = fn.args
    params = [p.arg for p in a.posonlyargs + a.args + a.kwonlyargs]
    n_required = len(a.posonlyargs + a.args) - len(a.defaults)
    required = set(params[:n_required]) | {p.arg for p, d in zip(a.kwonlyargs, a.kw_defaults) if d is None}
    if a.posonlyargs or not required <= set(values) or "commonname" not in params:
        raise AnalysisError(f"dummy_cert: signature {params} not modelled (required parameters the C17 harness does not know / no `commonname`)")
    try:
        cert = it.call(F, "dummy_cert", **{p: v for p, v in values.items() if p in params})
    except Raised as r:
        raise AnalysisError(f"dummy_cert raises {r.name} for commonname={commonname!r} in the interpretation (not modelled)")
    if not (isinstance(cert, Rec) and cert.isa("Cert")):
        raise AnalysisError(f"dummy_cert returns {cert!r}, not a certs.Cert (not modelled)")
    try:
        val = it.getattr(cert, "cn", None, 0)
    except Raised as r:
        raise AnalysisError(f"Cert.cn raises {r.name} on the certificate dummy_cert builds (not modelled)")
    if not (val is None or isinstance(val, str)):
        raise AnalysisError(f"Cert.cn of the generated certificate is {val!r} for commonname={commonname!r} (not modelled)")
    _CN_CACHE[key] = (ctx.model, val)
    return val


# ---- reference model ------------------------------------------------------------------------------


def ref_forms(dn):
    if isinstance(dn, GN):
        return ref_forms(dn.value) if dn.kind == "DNS" else [str(dn.value)]
    parts = dn.split(".")
    return [dn] + ["*." + ".".join(parts[i:]) for i in range(1, len(parts))]


def candidate_keys(cn, sans):
    keys = list(ref_forms(cn)) if cn else []
    for s in sans:
        keys += ref_forms(s)
    return keys + ["*"]


def registration_keys(entry, names):
    keys = [entry.cert.cn] if entry.cert.cn else []
    keys += [str(a.value) for a in entry.cert.altnames]
    return keys + list(names)


# ---- universe -------------------------------------------------------------------------------------

REQUESTS = [
    ("x.b.c", (DNS("x.b.c"),)),  # (same CN as the next request, other SANs: a different certificate)
    ("x.b.c", (DNS("x.b.c"), DNS("b.c"))),
    ("1.2.3.4", (IP("1.2.3.4"),)),
    (None, (DNS("q.r"),)),
    ("a.b.c", (DNS("a.b.c"), DNS("x.b.c"))),
]
LONG = "l" * 70 + ".b.c"  # too long for a CN: the generated certificate carries the name only as SAN, Cert.cn reads back None
# requests that exercise what the first four do not: a bare parent domain of a wildcard registration, a CN-less generated certificate
EXTRA_REQUESTS = [
    ("b.c", (DNS("b.c"),)),
    (LONG, (DNS(LONG),)),
]
CUSTOMS = [
    ("custom[*.b.c]", "*.b.c", (DNS("*.b.c"),), ()),
    ("custom[*]", None, (), ("*",)),
    ("custom[b.c]", "b.c", (DNS("b.c"),), ()),
    ("custom[1.2.3.4]", "1.2.3.4", (IP("1.2.3.4"),), ()),
    ("custom2[*.b.c]", "other.example", (), ("*.b.c",)),
]


def _initial_store(ctx, cap):
    """The store as ``CertStore.__init__`` leaves it: the values it assigns to ``self.certs`` / ``self.expire_queue`` are evaluated
    (``{}`` / ``dict()`` / ``[]`` / ``list()`` / ``collections.deque()`` ...); anything but empty containers is not modelled."""
    import collections

    init = ctx.model.method(F, "CertStore", "__init__")
    ctx.require(init is not None, "CertStore.__init__ vanished")
    it = Interp(ctx.model, trusted_modules=_trusted())
    got = {}
    for n in ast.walk(init[1]):
        tv = []
        if isinstance(n, ast.Assign):
            if any(isinstance(t, (ast.Tuple, ast.List)) for t in n.targets) and isinstance(n.value, (ast.Tuple, ast.List)) and all(isinstance(t, (ast.Tuple, ast.List)) and len(t.elts) == len(n.value.elts) for t in n.targets):
                tv = [(x, v) for t in n.targets for x, v in zip(t.elts, n.value.elts)]
            else:
                tv = [(t, n.value) for t in n.targets]
        elif isinstance(n, ast.AnnAssign) and n.value is not None:
            tv = [(n.target, n.value)]
        for t, v in tv:
            ch = attr_chain(t)
            if ch in ("self.certs", "self.expire_queue"):
                ctx.require(ch not in got, f"CertStore.__init__ assigns {ch} more than once (initial store not modelled)")
                try:
                    got[ch] = it.ev(v, {}, init[0], 0)
                except Raised as r:
                    raise AnalysisError(f"CertStore.__init__: {ch} = {norm(v)} raises {r.name} (initial store not modelled)")
    ctx.require(set(got) == {"self.certs", "self.expire_queue"}, f"CertStore.__init__ does not assign both self.certs and self.expire_queue: {sorted(got)}")
    certs, queue = got["self.certs"], got["self.expire_queue"]
    ctx.require(isinstance(certs, dict) and not certs, f"CertStore.__init__ leaves self.certs = {certs!r} (an empty dict is modelled)")
    ctx.require(isinstance(queue, (list, collections.deque)) and not queue, f"CertStore.__init__ leaves self.expire_queue = {queue!r} (an empty list / deque is modelled)")
    ctx.require(not isinstance(queue, collections.deque) or queue.maxlen is None, "expire_queue is a bounded deque (silent drops are not modelled)")
    return Store(cap, certs, queue)


def _explore(ctx, cap, requests, customs):
    centries = [(custom_entry(CertRec(cn, alt), lab), names) for lab, cn, alt, names in customs]
    init = (_initial_store(ctx, cap), {})  # (interpreted store, reference registry key -> entry)
    seen = {(init[0].canon(), ())}
    todo = [init]
    viol = {"bound": [], "lost": [], "names": [], "cache": []}
    order_notes = set()
    n_trans = 0
    where_hist = {id(init[0]): []}
    while todo:
        store, registry = todo.pop()
        hist = where_hist.pop(id(store), [])
        ops = [("add", i) for i in range(len(centries))] + [("get", i) for i in range(len(requests))]
        for op, i in ops:
            s2 = store.copy()
            reg2 = dict(registry)
            mach = Machine(ctx, s2)
            n_trans += 1
            ctx.cells += 1
            step = f"{op}({label(centries[i][0]) if op == 'add' else requests[i]})"
            h2 = hist + [step]
            if op == "add":
                entry, names = centries[i]
                mach.call("add_cert", [entry] + list(names))
                for k in registration_keys(entry, names):
                    reg2[k] = entry
            else:
                cn, sans = requests[i]
                got = mach.call("get_cert", [cn, list(sans)])
                if not is_entry(got):
                    raise AnalysisError(f"get_cert returned {got!r} (not an entry) in the interpretation")
                matching = [reg2[k] for k in candidate_keys(cn, sans) if k in reg2]
                if got.cert.gen_args is None:
                    if not any(got is e for e in matching):
                        viol["names"].append((h2, f"returned {label(got)} which matches none of the requested names {cn!r}, {list(sans)}"))
                    elif matching and got is not matching[0]:
                        order_notes.add(f"{cn!r},{list(sans)}: {label(got)} chosen among {[label(e) for e in matching]}")
                else:
                    if matching:
                        viol["names"].append((h2, f"generated a certificate although the registered {label(matching[0])} matches {cn!r}, {list(sans)}"))
                    if got.cert.gen_args != (cn, Names(sans)):
                        viol["names"].append((h2, f"generated entry was built for {got.cert.gen_args!r}, requested {(cn, list(sans))!r}"))
                # immediate repeat: same entry, nothing changes
                s3 = s2.copy()
                again = Machine(ctx, s3).call("get_cert", [cn, list(sans)])
                if again is not got or s3.canon() != s2.canon():
                    viol["cache"].append((h2, f"asking again returned {label(again) if is_entry(again) else repr(again)} instead of {label(got)} (or changed the store)"))
            # bound and persistence, after every operation
            gen_in_certs = {id(v) for v in s2.certs.values() if v.cert.gen_args is not None}
            if len(gen_in_certs) > cap or len(s2.queue) > cap:
                viol["bound"].append((h2, f"{len(gen_in_certs)} generated entries in certs, {len(s2.queue)} in expire_queue, capacity {cap}"))
                continue  # do not explore beyond a broken bound (state space would not be finite)
            for k, e in reg2.items():
                if s2.certs.get(k) is not e:
                    viol["lost"].append((h2, f"custom registration {k!r} -> {label(e)} is no longer in the store"))
                    break
            key = (s2.canon(), tuple(sorted((k, label(e)) for k, e in reg2.items())))
            if key not in seen:
                seen.add(key)
                if len(seen) > 20000:
                    raise AnalysisError("CertStore exploration: state bound exceeded")
                where_hist[id(s2)] = h2
                todo.append((s2, reg2))
    return len(seen), n_trans, viol, order_notes


def _r17_3(ctx):
    store = Store(1)
    fn = ctx.func(F, "CertStore.asterisk_forms")
    cases = ["a.b.c", "b.c", "c", "www.example.com", "*.b.c", "1.2.3.4", DNS("a.b.c"), DNS("c"), IP("1.2.3.4"), IP("::1"), URI("http://a.b/c")]
    bad = []
    for c in cases:
        got = Machine(ctx, store).call("asterisk_forms", [c])
        ctx.cells += 1
        want = ref_forms(c)
        if not isinstance(got, (list, tuple)) or list(got) != want or "*" in got:
            bad.append(f"{c!r}: {got!r}, expected {want!r}")
    ctx.check(not bad, "R17.3", (F, "CertStore.asterisk_forms", fn), "asterisk_forms table",
              "wildcard forms differ from [name, *.<each proper label suffix>] / contain the catch-all '*': " + "; ".join(bad[:3]),
              desc=f"asterisk_forms: {len(cases)} cases", cases=bad)


def _methods(ctx):
    return {f.name: f for f in ctx.model.cls(F, "CertStore").body if isinstance(f, (ast.FunctionDef, ast.AsyncFunctionDef))}


ENTRIES = ("get_cert", "add_cert")  # the operations whose histories are explored


def _reach(ctx):
    """CertStore methods (and properties) that the explored operations may run: closure of ENTRIES under `<anything>.<method name>`
    references (self. / cls. / CertStore. / type(self). - over-approximated: only widens the set of explored code)."""
    methods = _methods(ctx)
    for e in ENTRIES:
        ctx.func(F, "CertStore." + e)
    seen, todo = set(ENTRIES), list(ENTRIES)
    while todo:
        for n in ast.walk(methods[todo.pop()]):
            if isinstance(n, ast.Attribute) and n.attr in methods and n.attr not in seen:
                seen.add(n.attr)
                todo.append(n.attr)
    return seen


def _cap_value_node(ctx):
    cs = ctx.model.cls(F, "CertStore")
    vals = []
    for st in cs.body:
        if isinstance(st, ast.Assign) and any(isinstance(t, ast.Name) and t.id == CAP_ATTR for t in st.targets):
            vals.append(st.value)
        elif isinstance(st, ast.AnnAssign) and isinstance(st.target, ast.Name) and st.target.id == CAP_ATTR and st.value is not None:
            vals.append(st.value)
    ctx.require(len(vals) == 1, f"CertStore.{CAP_ATTR} is not defined exactly once in the class body")
    return vals[0]


def _cap_deps(ctx):
    """(aliases, other module-level constants) the capacity is computed from.  ``STORE_CAP = CERT_STORE_CAP`` (a chain of plain
    names) is an alias: reads of it are the capacity as well; anything else the expression mentions is a dependency only."""
    mod = ctx.model.module(F)
    node = _cap_value_node(ctx)
    aliases = []
    while isinstance(node, ast.Name) and len(mod.assigns(node.id)) == 1 and node.id not in aliases:
        aliases.append(node.id)
        node = mod.assigns(node.id)[0]
    deps, todo = [], [node]
    while todo:
        for n in ast.walk(todo.pop()):
            if isinstance(n, ast.Name) and mod.assigns(n.id) and n.id not in deps and n.id not in aliases:
                deps.append(n.id)
                todo.extend(mod.assigns(n.id))
    return aliases, deps


_ALIAS_CACHE: dict = {}


def _cap_aliases(ctx):
    hit = _ALIAS_CACHE.get("model")
    if hit is None or hit[0] is not ctx.model:
        hit = _ALIAS_CACHE["model"] = (ctx.model, _cap_deps(ctx)[0])
    return hit[1]


MUTATORS = ("append", "appendleft", "extend", "extendleft", "pop", "popleft", "insert", "clear", "remove", "update", "setdefault", "popitem", "__setitem__", "__delitem__", "rotate", "sort", "reverse")


def _writers(ctx):
    mod = ctx.model.module(F)
    cs = ctx.model.cls(F, "CertStore")
    reach = _reach(ctx)
    allowed = reach | {"__init__"}
    sites: dict = {}
    for n in ast.walk(cs):
        targets = []
        if isinstance(n, ast.Assign):
            targets = [x for t in n.targets for x in (t.elts if isinstance(t, (ast.Tuple, ast.List)) else [t])]
        elif isinstance(n, (ast.AugAssign, ast.AnnAssign)) and getattr(n, "value", None) is not None:
            targets = [n.target]
        elif isinstance(n, ast.NamedExpr):
            targets = [n.target]
        elif isinstance(n, ast.Delete):
            targets = n.targets
        elif isinstance(n, ast.Call) and isinstance(n.func, ast.Attribute) and n.func.attr in MUTATORS:
            targets = [n.func.value]
        elif isinstance(n, ast.Call) and call_name(n) in ("setattr", "delattr") and len(n.args) >= 2 and isinstance(n.args[1], ast.Constant) and attr_chain(n.args[0]) == "self":
            targets = [ast.Attribute(value=n.args[0], attr=n.args[1].value, ctx=ast.Store())]
        for t in targets:
            base = t.value if isinstance(t, ast.Subscript) else t
            ch = attr_chain(base)
            for attr in ("certs", "expire_queue"):
                if ch == "self." + attr:
                    f = enclosing_func(n)
                    while f is not None and getattr(f, "_parent", None) is not cs:  # a lambda / nested def belongs to its method
                        f = enclosing_func(f)
                    sites.setdefault((attr, f.name if f else "<class>"), []).append(n)
    for (attr, fname), ns in sorted(sites.items()):
        ctx.check(fname in allowed, "R17.1", (F, "CertStore." + fname, ns[0]), f"write to self.{attr} in {fname}",
                  f"self.{attr} is modified in {fname}, which is neither __init__ nor run by the explored operations {sorted(reach)}: the bound / name consistency "
                  "is no longer decided by the exploration",
                  desc=f"self.{attr} written in {fname} ({len(ns)} site(s); run by the explored operations)")
    # non-vacuity (raised by check() only when the exploration found nothing: an operation that no longer records its entries is a finding there)
    vacuous = [f"no method run by get_cert / add_cert writes self.{attr} (store shape not modelled); writers: {sorted(sites)}"
               for attr in ("certs", "expire_queue") if not any(a == attr and f in reach for a, f in sites)]
    # the capacity: a fixed positive integer, evaluated (literal, module constant, constant arithmetic), never changed at run time
    capnode = _cap_value_node(ctx)
    aliases, deps = _cap_deps(ctx)
    try:
        cap = Interp(ctx.model, trusted_modules=_trusted()).class_attr(ClassRef(mod, cs), CAP_ATTR, 0)
        why = ""
    except (AnalysisError, Raised) as e:
        defs = [capnode] + [v for nm in aliases + deps for v in mod.assigns(nm)]
        if not any(isinstance(x, (ast.Call, ast.Attribute, ast.Subscript)) for d in defs for x in ast.walk(d)):
            raise
        cap, why = None, f" (not a constant expression: {e})"
    ok = isinstance(cap, int) and not isinstance(cap, bool) and 1 <= cap <= 100000
    ctx.check(ok, "R17.1", (F, "CertStore", capnode), "STORE_CAP literal", f"STORE_CAP = {norm(capnode)} is not a fixed positive capacity{why}",
              desc=f"STORE_CAP = {norm(capnode)} = {cap!r}")
    others = []
    for n in ast.walk(mod.tree):
        tg = n.targets if isinstance(n, (ast.Assign, ast.Delete)) else [n.target] if isinstance(n, (ast.AugAssign, ast.AnnAssign, ast.NamedExpr)) and getattr(n, "value", None) is not None else []
        if any(attr_chain(t).endswith("." + CAP_ATTR) for t in tg):
            others.append(n)
        if isinstance(n, ast.Call) and call_name(n) == "setattr" and len(n.args) >= 2 and isinstance(n.args[1], ast.Constant) and n.args[1].value == CAP_ATTR:
            others.append(n)
        if isinstance(n, ast.Global) and set(n.names) & set(aliases + deps):
            others.append(n)
    for nm in aliases + deps:
        if len(mod.assigns(nm)) != 1 or any(isinstance(n, ast.AugAssign) and isinstance(n.target, ast.Name) and n.target.id == nm and enclosing_func(n) is None for n in ast.walk(mod.tree)):
            others.append(mod.assigns(nm)[-1])
    ctx.check(not others, "R17.1", (F, "<module>", others[0] if others else 0), "STORE_CAP reassigned", "the capacity is changed at run time", desc="STORE_CAP (and the constants it is defined by) never reassigned in certs.py")
    # the exploration substitutes the capacity for STORE_CAP and its aliases; a method reading a constant the capacity is *computed* from would see today's value
    if deps:
        methods = _methods(ctx)
        for fname in sorted(reach):
            rd = [n.id for n in ast.walk(methods[fname]) if isinstance(n, ast.Name) and n.id in deps]
            ctx.require(not rd, f"CertStore.{fname} reads {rd[:1]}, from which STORE_CAP is computed (capacity substitution not modelled)")
    return vacuous


def _extra_state_is_write_only(ctx):
    """Instance state besides certs / expire_queue that the explored operations change (statistics counters ...) is not part of the explored
    state (every transition starts from what __init__ leaves): fine as long as the operations never *read* it except to update it or to
    log it - otherwise their behaviour could depend on history the exploration does not see -> AnalysisError."""
    hit = Machine.extra_written.get(id(ctx.model))
    names = sorted(hit[1]) if hit is not None and hit[0] is ctx.model else []
    if not names:
        return
    methods = _methods(ctx)
    for fname in sorted(_reach(ctx)):
        for n in ast.walk(methods[fname]):
            if isinstance(n, ast.Attribute) and isinstance(n.ctx, ast.Load) and n.attr in names and attr_chain(n.value) in ("self", "cls"):
                p, harmless = getattr(n, "_parent", None), False
                while p is not None and not isinstance(p, ast.stmt):
                    if isinstance(p, ast.Call) and attr_chain(p.func).split(".")[0] in ("logger", "logging", "log", "warnings"):
                        harmless = True
                    p = getattr(p, "_parent", None)
                if isinstance(p, ast.Expr) and harmless:
                    continue
                raise AnalysisError(f"CertStore.{fname} reads self.{n.attr}, state its operations change but the exploration does not track (not modelled)")
    ctx.note(f"untracked write-only state of CertStore: {names}")


def check(ctx):
    ctx.rule("R17.1", "generated entries <= capacity after every call (certs and expire_queue); customs never dropped; only the modelled methods write the store")
    ctx.rule("R17.2", "returned entry = matching custom entry (custom wins) or generated for exactly the requested names; immediate repeat is a cache hit")
    ctx.rule("R17.3", "asterisk_forms = [name, *.suffixes...], never '*', non-DNS names verbatim")
    ctx.trust("cryptography x509.GeneralNames: iterable, hashable, equal by content (modelled as a tuple of name records)")
    ctx.assume("dummy_cert is a stub recording its arguments (its own obligations: C16); the subject CN of a generated certificate is read back by interpreting dummy_cert + Cert.cn against a model of the x509 builder")
    vacuous = _writers(ctx)
    _r17_3(ctx)
    quick = ctx.tier != "thorough"
    requests = (REQUESTS[:3] if quick else REQUESTS) + EXTRA_REQUESTS
    customs = [CUSTOMS[0], CUSTOMS[1], CUSTOMS[2], CUSTOMS[4]] if quick else CUSTOMS  # quick: wildcard by certificate name, catch-all, wildcard by explicit spec name
    fn = ctx.func(F, "CertStore.get_cert")
    ctx.func(F, "CertStore.add_cert")
    if ctx.model.has(F, "CertStore.expire"):  # today's eviction helper; the exploration does not depend on where eviction is written
        ctx.func(F, "CertStore.expire")
    tot_states = tot_trans = 0
    agg = {"bound": [], "lost": [], "names": [], "cache": []}
    notes = set()
    for cap in (1, 2):
        states, trans, viol, order_notes = _explore(ctx, cap, requests, customs)
        tot_states += states
        tot_trans += trans
        notes |= order_notes
        for k in agg:
            agg[k] += viol[k]
    ctx.note(f"explored {tot_states} abstract store states, {tot_trans} transitions (capacities 1, 2; {len(requests)} requests, {len(customs)} custom registrations)")
    for nte in sorted(notes)[:4]:
        ctx.note("custom precedence observed (not enforced): " + nte)
    ctx.require(tot_states >= 40, f"CertStore exploration collapsed to {tot_states} states")
    where = (F, "CertStore.get_cert", fn)

    def report(rule, kind, construct, why, desc):
        v = agg[kind]
        ctx.check(not v, rule, where, construct, f"{why}: after {' ; '.join(v[0][0]) if v else ''}: {v[0][1] if v else ''} ({len(v)} transition(s))", desc=desc, history=v[0][0] if v else None)

    report("R17.1", "bound", "generated entries exceed STORE_CAP", "the store keeps more generated certificates than its capacity", f"bound holds on {tot_trans} transitions")
    report("R17.1", "lost", "custom registration lost", "a registered custom certificate disappears from the store", "custom registrations persist")
    report("R17.2", "names", "returned certificate does not correspond to the requested names", "get_cert serves a certificate for other names", f"returned entries match the request on {tot_trans} transitions")
    report("R17.2", "cache", "immediate repeat is not a cache hit", "the same request is answered with a different certificate", "immediate repeat returns the same entry")
    if vacuous and not ctx.findings:
        raise AnalysisError(vacuous[0])
    _extra_state_is_write_only(ctx)
    ctx.expect_instances("R17.1", 8)
    ctx.expect_instances("R17.2", 2)
    ctx.expect_instances("R17.3", 1)
    ctx.sample({"rule": "R17.2", "universe": {"requests": [repr(r) for r in requests], "customs": [c[0] for c in customs]}})


MUTANTS = [
    Mutant("evict-by-reconstructed-key", F, "            self.certs = {k: v for k, v in self.certs.items() if v != d}\n", "            self.certs.pop((d.cert.cn, d.cert.altnames), None)\n", "R17.1"),
    Mutant("wildcard-spec-also-registers-parent-domain", F, "        for i in names:\n            self.certs[i] = entry\n", "        for i in names:\n            self.certs[i] = entry\n            if i.startswith(\"*.\"):\n                self.certs.setdefault(i[2:], entry)\n", "R17.2"),
    Mutant("expire-never-evicts", F, "        if len(self.expire_queue) > self.STORE_CAP:\n", "        if len(self.expire_queue) > self.STORE_CAP and False:\n", "R17.1"),
    Mutant("expire-off-by-many", F, "        if len(self.expire_queue) > self.STORE_CAP:\n", "        if len(self.expire_queue) > self.STORE_CAP + 1:\n", "R17.1"),
    Mutant("expire-queue-only", F, "            self.certs = {k: v for k, v in self.certs.items() if v != d}\n", "            pass\n", "R17.1"),
    Mutant("expire-drops-everything-else", F, "            self.certs = {k: v for k, v in self.certs.items() if v != d}\n", "            self.certs = {k: v for k, v in self.certs.items() if v == d}\n", "R17"),
    Mutant("generated-entry-not-queued", F, "            self.certs[(commonname, sans)] = entry\n            self.expire(entry)\n", "            self.certs[(commonname, sans)] = entry\n", "R17.1"),
    Mutant("store-cap-none", F, "    STORE_CAP = 100\n", "    STORE_CAP = float(\"inf\")\n", "R17.1"),
    Mutant("second-writer", F, "    def add_cert_file(\n        self, spec: str, path: Path, passphrase: bytes | None = None\n    ) -> None:\n        raw = path.read_bytes()\n",
           "    def add_cert_file(\n        self, spec: str, path: Path, passphrase: bytes | None = None\n    ) -> None:\n        self.certs.clear()\n        raw = path.read_bytes()\n", "R17.1"),
    Mutant("lookup-any-stored-cert", F, "        name = next(filter(lambda key: key in self.certs, potential_keys), None)\n",
           "        name = next(filter(lambda key: key in self.certs, potential_keys), None) or next(iter(self.certs), None)\n", "R17.2"),
    Mutant("generated-for-cn-only", F, "                    commonname,\n                    sans,\n                    organization,\n                    crl_url,\n", "                    commonname,\n                    [],\n                    organization,\n                    crl_url,\n", "R17.2"),
    Mutant("cache-key-differs-from-lookup-key", F, "            self.certs[(commonname, sans)] = entry\n", "            self.certs[(commonname, tuple(sans))] = entry\n", "R17"),
    Mutant("cache-key-ignores-sans", F, "        potential_keys.append((commonname, sans))\n", "        potential_keys.append((commonname, ()))\n", "R17.2"),
    Mutant("sans-not-looked-up", F, "        for s in sans:\n            potential_keys.extend(self.asterisk_forms(s))\n", "        for s in sans:\n            pass\n", "R17.2"),
    Mutant("asterisk-forms-include-star", F, "            for i in range(1, len(parts)):\n", "            for i in range(1, len(parts) + 1):\n", "R17.3"),
    Mutant("asterisk-forms-prefix-wildcards", F, "                ret.append(\"*.\" + \".\".join(parts[i:]))\n", "                ret.append(\".\".join(parts[:i]) + \".*\")\n", "R17.3"),
]
