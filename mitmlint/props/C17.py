"""C17 - the certificate store is bounded and never serves a certificate for other names.

Technique: ``CertStore.get_cert`` / ``add_cert`` / ``expire`` / ``asterisk_forms`` are *interpreted from their AST* by a small concrete
interpreter (``_helpers_B.MiniInterp``; anything it does not model is an ANALYSIS-ERROR) on an abstract store - entries are records,
``dummy_cert`` / ``CertStoreEntry`` / ``_fix_legacy_sans`` are stubs that record their arguments - and the reachable state space over a
small universe of requests and custom registrations is explored exhaustively (all histories, any length, capacity 1..2 substituted
for ``self.STORE_CAP``).  On every transition the observable result is compared with the property:
  R17.1 bound: after every call at most CAP generated entries are referenced by ``certs`` and by ``expire_queue``; custom entries are never
        dropped; ``STORE_CAP`` is a positive integer literal; only ``__init__`` / ``add_cert`` / ``get_cert`` / ``expire`` write ``certs`` /
        ``expire_queue``.
  R17.2 names: the entry returned for (cn, sans) is a registered custom entry reachable from one of the requested names by the store's wildcard
        rules (and a matching custom entry always wins over generation), or a generated entry built by ``dummy_cert`` for exactly
        (cn, sans); asking again immediately returns the *same* entry and changes nothing (cache hit).
  R17.3 ``asterisk_forms``: "a.b.c" -> [a.b.c, *.b.c, *.c]; never the bare "*"; DNS names through ``.value``; other general names verbatim.
Narrowed w.r.t. DESIGN: which of several *matching custom* certificates wins (CN forms before SAN forms before "*") and FIFO (vs e.g.
LRU) eviction order are not required by the property statement and are therefore not enforced; the observed order is printed as a note.
Not decided: the X.509 content of generated certificates (C16), thread-safety.
"""

from __future__ import annotations

import ast

from ..core import AnalysisError
from ..core import norm
from ..model import attr_chain
from ..model import call_name
from ..model import enclosing_func
from ..model import last_attr
from ..model import walk_in_order
from ..selftest import Mutant
from ._helpers_B import ceval
from ._helpers_B import MiniInterp
from ._helpers_B import NotAnAtom

PROP = "C17"
REG = {
    "strength": "partial",
    "technique": "exhaustive exploration of the abstract certificate store obtained by interpreting CertStore's methods from their AST "
    "(stubs for certificate generation) against a reference model of the property; who-may-write scan; literal check",
    "claim": "over all histories of get_cert / add_cert on a small universe (5 requests, 5 custom registrations, capacity 1 and 2): generated "
    "entries never exceed the capacity, custom entries are never lost, every returned entry is a matching custom entry or a generated one for "
    "exactly the requested names, and an immediate repeat is a cache hit; asterisk_forms follows the wildcard rule and never yields '*'.",
    "note": "Finite universe; the capacity is substituted for self.STORE_CAP (the literal is checked separately). x509.GeneralNames is modelled as a "
    "hashable tuple of name records (trusted: cryptography's GeneralNames equality/hash by content).",
}
F = "mitmproxy/certs.py"


# ---- abstract values ------------------------------------------------------------------------------


class GN:
    """x509.GeneralName stand-in"""

    def __init__(self, kind, value):
        self.kind, self.value = kind, value

    def __eq__(self, o):
        return isinstance(o, GN) and (self.kind, self.value) == (o.kind, o.value)

    def __hash__(self):
        return hash((self.kind, self.value))

    def __repr__(self):
        return f"{self.kind}:{self.value}"


def DNS(v):
    return GN("DNS", v)


def IP(v):
    return GN("IP", v)


class Names:
    """x509.GeneralNames stand-in (hashable, iterable, equality by content; *not* equal to a plain tuple/list)"""

    _mini_iterable = True

    def __init__(self, items=()):
        self.items = tuple(items)

    def __iter__(self):
        return iter(self.items)

    def __len__(self):
        return len(self.items)

    def __eq__(self, o):
        return isinstance(o, Names) and self.items == o.items

    def __hash__(self):
        return hash(("Names", self.items))

    def __repr__(self):
        return f"Names{list(self.items)}"


class CertRec:
    def __init__(self, cn, altnames, gen_args=None):
        self.cn, self.altnames, self.gen_args = cn, Names(altnames), gen_args


class Entry:
    _n = 0

    def __init__(self, cert, label=None):
        self.cert = cert
        Entry._n += 1
        self.label = label or f"gen#{Entry._n}"

    def __repr__(self):
        return self.label


class Store:
    def __init__(self, cap):
        self.certs, self.queue, self.cap = {}, [], cap

    def copy(self):
        s = Store(self.cap)
        s.certs, s.queue = dict(self.certs), list(self.queue)
        return s

    def canon(self):
        order = {}
        for e in self.queue + [v for _, v in sorted(self.certs.items(), key=lambda kv: repr(kv[0]))]:
            if e.cert.gen_args is not None and id(e) not in order:
                order[id(e)] = f"g{len(order)}:{e.cert.gen_args!r}"
        lab = lambda e: order.get(id(e), e.label)  # noqa: E731
        return (tuple(sorted((repr(k), lab(v)) for k, v in self.certs.items())), tuple(lab(e) for e in self.queue))


OPAQUE = ("self.default_privatekey", "self.default_ca._cert", "self.default_chain_file", "self.default_chain_certs")


class Machine:
    """Interprets CertStore methods on a Store."""

    def __init__(self, ctx, store):
        self.ctx, self.m, self.store = ctx, ctx.model, store
        self.fns = {n: ctx.func(F, "CertStore." + n) for n in ("get_cert", "add_cert", "expire", "asterisk_forms")}
        self.depth = 0

    # -- calling a repo function
    def call(self, name, args, self_bound=True):
        fn = self.fns[name]
        self.depth += 1
        if self.depth > 12:
            raise AnalysisError("CertStore interpretation: recursion too deep")
        try:
            params = [a.arg for a in fn.args.args]
            static = any(last_attr(d) == "staticmethod" for d in fn.decorator_list)
            env = {}
            if not static:
                params = params[1:]
                env["self"] = self
            if fn.args.vararg:
                env.update(dict(zip(params, args[: len(params)])))
                env[fn.args.vararg.arg] = tuple(args[len(params):])
            else:
                defaults = fn.args.defaults
                vals = list(args)
                need = len(params) - len(vals)
                if need > len(defaults) or need < 0:
                    raise AnalysisError(f"CertStore.{name}: call arity not modelled")
                for d in defaults[len(defaults) - need:] if need else []:
                    vals.append(ceval(d, {}, None, name))
                env.update(dict(zip(params, vals)))
            mi = MiniInterp(atom=self.atom, what=f"CertStore.{name}", store=self.store_target, eval_calls=True)
            return mi.run(fn, env)
        finally:
            self.depth -= 1

    # -- stores
    def store_target(self, target, value, env):
        if isinstance(target, ast.Attribute) and attr_chain(target) == "self.certs":
            if not isinstance(value, dict):
                raise AnalysisError("self.certs rebound to a non-dict")
            self.store.certs = value
        elif isinstance(target, ast.Subscript) and attr_chain(target.value) == "self.certs":
            self.store.certs[ceval(target.slice, env, self.atom, "certs key")] = value
        elif isinstance(target, ast.Attribute) and attr_chain(target) == "self.expire_queue":
            if not isinstance(value, list):
                raise AnalysisError("self.expire_queue rebound to a non-list")
            self.store.queue = value
        else:
            raise AnalysisError(f"CertStore: store to {norm(target)} not modelled")

    # -- loads and calls
    def atom(self, node, env):
        if isinstance(node, ast.Attribute):
            ch = attr_chain(node)
            if ch == "self.certs":
                return self.store.certs
            if ch == "self.expire_queue":
                return self.store.queue
            if ch in ("self.STORE_CAP", "CertStore.STORE_CAP"):
                return self.store.cap
            if ch in OPAQUE:
                return ("opaque", ch)
            if ch.startswith("self."):
                raise AnalysisError(f"CertStore: read of {ch} not modelled")
            base = ceval(node.value, env, self.atom, "attribute base")
            if isinstance(base, (GN, CertRec, Entry)) and node.attr in ("value", "cn", "altnames", "cert") and hasattr(base, node.attr):
                return getattr(base, node.attr)
            raise AnalysisError(f"CertStore: attribute {norm(node)} on {type(base).__name__} not modelled")
        if isinstance(node, ast.Call):
            name = call_name(node)
            ev = lambda x: ceval(x, env, self.atom, "argument")  # noqa: E731
            if name == "isinstance" and len(node.args) == 2:
                obj = ev(node.args[0])
                cls = norm(node.args[1])
                table = {"str": lambda o: isinstance(o, str), "x509.DNSName": lambda o: isinstance(o, GN) and o.kind == "DNS",
                         "x509.IPAddress": lambda o: isinstance(o, GN) and o.kind == "IP", "x509.GeneralNames": lambda o: isinstance(o, Names),
                         "list": lambda o: isinstance(o, list)}
                if cls not in table:
                    raise AnalysisError(f"CertStore: isinstance(..., {cls}) not modelled")
                return table[cls](obj)
            if name in ("self.asterisk_forms", "CertStore.asterisk_forms"):
                return self.call("asterisk_forms", [ev(a) for a in node.args])
            if name == "self.expire":
                return self.call("expire", [ev(a) for a in node.args])
            if name == "_fix_legacy_sans" and len(node.args) == 1:
                return Names(ev(node.args[0]))
            if name == "dummy_cert":
                if node.keywords or len(node.args) != 6:
                    raise AnalysisError("dummy_cert call shape changed (6 positional arguments modelled)")
                a = [ev(x) for x in node.args]
                if a[0] != ("opaque", "self.default_privatekey") or a[1] != ("opaque", "self.default_ca._cert"):
                    raise AnalysisError("dummy_cert is not called with the store's CA key / certificate")
                return CertRec(cert_cn_of(self.ctx, a[2]), tuple(a[3]), gen_args=(a[2], Names(a[3])))
            if name == "CertStoreEntry":
                kw = {k.arg: ev(k.value) for k in node.keywords}
                pos = [ev(x) for x in node.args]
                cert = kw.get("cert", pos[0] if pos else None)
                if not isinstance(cert, CertRec):
                    raise AnalysisError("CertStoreEntry(cert=...) shape not modelled")
                return Entry(cert)
        raise NotAnAtom


_CN_CACHE: dict = {}


def cert_cn_of(ctx, commonname):
    """The CN the generated certificate really carries (what ``Cert.cn`` reads back), derived from dummy_cert's own AST: the value and the
    guards of its ``NameAttribute(NameOID.COMMON_NAME, ...)`` - today: present only when ``commonname is not None and len(commonname) < 64``."""
    key = (id(ctx.model), commonname)
    if key in _CN_CACHE:
        return _CN_CACHE[key]
    fn = ctx.func(F, "dummy_cert")
    sites = [c for c in walk_in_order(fn) if isinstance(c, ast.Call) and last_attr(c.func) == "NameAttribute" and c.args and attr_chain(c.args[0]).endswith("COMMON_NAME")]
    if len(sites) != 1 or len(sites[0].args) != 2:
        raise AnalysisError(f"dummy_cert: expected exactly one NameAttribute(NameOID.COMMON_NAME, value), found {len(sites)}")
    site = sites[0]
    params = [a.arg for a in fn.args.args]
    if "commonname" not in params:
        raise AnalysisError("dummy_cert has no `commonname` parameter any more")

    def atom(node, env):
        if isinstance(node, ast.Name):
            if node.id == "commonname":
                return commonname
            defs = [n for n in walk_in_order(fn) if isinstance(n, ast.Assign) and len(n.targets) == 1 and isinstance(n.targets[0], ast.Name) and n.targets[0].id == node.id]
            if len(defs) == 1:
                return ceval(defs[0].value, env, atom, "dummy_cert CN guard")
            raise AnalysisError(f"dummy_cert: CN guard reads `{node.id}` (not a single-assignment local)")
        if isinstance(node, ast.Call) and call_name(node) == "len" and len(node.args) == 1:
            return len(ceval(node.args[0], env, atom, "dummy_cert CN guard"))
        raise NotAnAtom

    present = True
    child, p = site, getattr(site, "_parent", None)
    while p is not None and p is not fn:
        if isinstance(p, ast.If):
            v = bool(ceval(p.test, {}, atom, "dummy_cert CN guard"))
            if child in p.body:
                present = present and v
            elif child in p.orelse:
                present = present and not v
        elif isinstance(p, (ast.For, ast.While, ast.Try, ast.With, ast.Match)):
            raise AnalysisError(f"dummy_cert: the CN attribute is added inside a {type(p).__name__} (not modelled)")
        child, p = p, getattr(p, "_parent", None)
    val = ceval(site.args[1], {}, atom, "dummy_cert CN value") if present else None
    _CN_CACHE[key] = val
    return val


# ---- reference model ------------------------------------------------------------------------------


def ref_forms(dn):
    if isinstance(dn, GN):
        return ref_forms(dn.value) if dn.kind == "DNS" else [str(dn.value)]
    parts = dn.split(".")
    return [dn] + ["*." + ".".join(parts[i:]) for i in range(1, len(parts))]


def candidate_keys(cn, sans):
    keys = list(ref_forms(cn)) if cn else []
    for s in sans:
        keys += ref_forms(s)
    return keys + ["*"]


def registration_keys(entry, names):
    keys = [entry.cert.cn] if entry.cert.cn else []
    keys += [str(a.value) for a in entry.cert.altnames]
    return keys + list(names)


# ---- universe -------------------------------------------------------------------------------------

REQUESTS = [
    ("a.b.c", (DNS("a.b.c"),)),
    ("x.b.c", (DNS("x.b.c"), DNS("b.c"))),
    ("1.2.3.4", (IP("1.2.3.4"),)),
    (None, (DNS("q.r"),)),
    ("a.b.c", (DNS("a.b.c"), DNS("x.b.c"))),
]
LONG = "l" * 70 + ".b.c"  # too long for a CN: the generated certificate carries the name only as SAN, Cert.cn reads back None
# requests that exercise what the first four do not: a bare parent domain of a wildcard registration, a CN-less generated certificate
EXTRA_REQUESTS = [
    ("b.c", (DNS("b.c"),)),
    (LONG, (DNS(LONG),)),
]
CUSTOMS = [
    ("custom[*.b.c]", "*.b.c", (DNS("*.b.c"),), ()),
    ("custom[*]", None, (), ("*",)),
    ("custom[b.c]", "b.c", (DNS("b.c"),), ()),
    ("custom[1.2.3.4]", "1.2.3.4", (IP("1.2.3.4"),), ()),
    ("custom2[*.b.c]", "other.example", (), ("*.b.c",)),
]


def _explore(ctx, cap, requests, customs):
    centries = [(Entry(CertRec(cn, alt), label), names) for label, cn, alt, names in customs]
    init = (Store(cap), {})  # (interpreted store, reference registry key -> entry)
    seen = {(init[0].canon(), ())}
    todo = [init]
    viol = {"bound": [], "lost": [], "names": [], "cache": []}
    order_notes = set()
    n_trans = 0
    where_hist = {id(init[0]): []}
    while todo:
        store, registry = todo.pop()
        hist = where_hist.pop(id(store), [])
        ops = [("add", i) for i in range(len(centries))] + [("get", i) for i in range(len(requests))]
        for op, i in ops:
            s2 = store.copy()
            reg2 = dict(registry)
            mach = Machine(ctx, s2)
            n_trans += 1
            ctx.cells += 1
            step = f"{op}({centries[i][0] if op == 'add' else requests[i]})"
            h2 = hist + [step]
            if op == "add":
                entry, names = centries[i]
                mach.call("add_cert", [entry] + list(names))
                for k in registration_keys(entry, names):
                    reg2[k] = entry
            else:
                cn, sans = requests[i]
                got = mach.call("get_cert", [cn, list(sans)])
                if not isinstance(got, Entry):
                    raise AnalysisError(f"get_cert returned {got!r} (not an entry) in the interpretation")
                matching = [reg2[k] for k in candidate_keys(cn, sans) if k in reg2]
                if got.cert.gen_args is None:
                    if not any(got is e for e in matching):
                        viol["names"].append((h2, f"returned {got} which matches none of the requested names {cn!r}, {list(sans)}"))
                    elif matching and got is not matching[0]:
                        order_notes.add(f"{cn!r},{list(sans)}: {got} chosen among {matching}")
                else:
                    if matching:
                        viol["names"].append((h2, f"generated a certificate although the registered {matching[0]} matches {cn!r}, {list(sans)}"))
                    if got.cert.gen_args != (cn, Names(sans)):
                        viol["names"].append((h2, f"generated entry was built for {got.cert.gen_args!r}, requested {(cn, list(sans))!r}"))
                # immediate repeat: same entry, nothing changes
                s3 = s2.copy()
                again = Machine(ctx, s3).call("get_cert", [cn, list(sans)])
                if again is not got or s3.canon() != s2.canon():
                    viol["cache"].append((h2, f"asking again returned {again} instead of {got} (or changed the store)"))
            # bound and persistence, after every operation
            gen_in_certs = {id(v) for v in s2.certs.values() if v.cert.gen_args is not None}
            if len(gen_in_certs) > cap or len(s2.queue) > cap:
                viol["bound"].append((h2, f"{len(gen_in_certs)} generated entries in certs, {len(s2.queue)} in expire_queue, capacity {cap}"))
                continue  # do not explore beyond a broken bound (state space would not be finite)
            for k, e in reg2.items():
                if s2.certs.get(k) is not e:
                    viol["lost"].append((h2, f"custom registration {k!r} -> {e} is no longer in the store"))
                    break
            key = (s2.canon(), tuple(sorted((k, e.label) for k, e in reg2.items())))
            if key not in seen:
                seen.add(key)
                if len(seen) > 20000:
                    raise AnalysisError("CertStore exploration: state bound exceeded")
                where_hist[id(s2)] = h2
                todo.append((s2, reg2))
    return len(seen), n_trans, viol, order_notes


def _r17_3(ctx):
    store = Store(1)
    fn = ctx.func(F, "CertStore.asterisk_forms")
    cases = ["a.b.c", "b.c", "c", "www.example.com", "*.b.c", "1.2.3.4", DNS("a.b.c"), DNS("c"), IP("1.2.3.4"), IP("::1"), GN("URI", "http://a.b/c")]
    bad = []
    for c in cases:
        got = Machine(ctx, store).call("asterisk_forms", [c])
        ctx.cells += 1
        want = ref_forms(c)
        if list(got) != want or "*" in got:
            bad.append(f"{c!r}: {got!r}, expected {want!r}")
    ctx.check(not bad, "R17.3", (F, "CertStore.asterisk_forms", fn), "asterisk_forms table",
              "wildcard forms differ from [name, *.<each proper label suffix>] / contain the catch-all '*': " + "; ".join(bad[:3]),
              desc=f"asterisk_forms: {len(cases)} cases", cases=bad)


def _writers(ctx):
    mod = ctx.model.module(F)
    cs = ctx.model.cls(F, "CertStore")
    allowed = {"certs": {"__init__", "add_cert", "get_cert", "expire"}, "expire_queue": {"__init__", "expire"}}
    found = {"certs": set(), "expire_queue": set()}
    for n in ast.walk(cs):
        targets = []
        if isinstance(n, ast.Assign):
            targets = n.targets
        elif isinstance(n, (ast.AugAssign, ast.AnnAssign)) and getattr(n, "value", None) is not None:
            targets = [n.target]
        elif isinstance(n, ast.Delete):
            targets = n.targets
        elif isinstance(n, ast.Call) and isinstance(n.func, ast.Attribute) and n.func.attr in ("append", "extend", "pop", "insert", "clear", "remove", "update", "setdefault", "popitem", "__setitem__"):
            targets = [n.func.value]
        for t in targets:
            base = t.value if isinstance(t, ast.Subscript) else t
            ch = attr_chain(base)
            for attr in found:
                if ch == "self." + attr:
                    f = enclosing_func(n)
                    found[attr].add(f.name if f else "<class>")
                    ctx.check((f.name if f else "") in allowed[attr], "R17.1", (F, "CertStore." + (f.name if f else "?"), n), f"write to self.{attr} in {f.name if f else '?'}",
                              f"self.{attr} is modified outside {sorted(allowed[attr])}: the bound / name consistency is no longer decided by the explored methods",
                              desc=f"self.{attr} written in {f.name if f else '?'}")
    ctx.require(found["certs"] >= {"add_cert", "get_cert"} and "expire" in found["expire_queue"], f"CertStore writers changed shape: {found}")
    cap = [s.value for s in cs.body if isinstance(s, ast.Assign) and any(isinstance(t, ast.Name) and t.id == "STORE_CAP" for t in s.targets)]
    ctx.require(len(cap) == 1, "CertStore.STORE_CAP is not defined exactly once in the class body")
    ok = isinstance(cap[0], ast.Constant) and isinstance(cap[0].value, int) and not isinstance(cap[0].value, bool) and 1 <= cap[0].value <= 100000
    ctx.check(ok, "R17.1", (F, "CertStore", cap[0]), "STORE_CAP literal", f"STORE_CAP = {norm(cap[0])} is not a fixed positive capacity", desc=f"STORE_CAP = {norm(cap[0])}")
    others = [n for n in ast.walk(mod.tree) if isinstance(n, (ast.Assign, ast.AugAssign)) and any(attr_chain(t).endswith(".STORE_CAP") for t in (n.targets if isinstance(n, ast.Assign) else [n.target]))]
    ctx.check(not others, "R17.1", (F, "<module>", others[0] if others else 0), "STORE_CAP reassigned", "the capacity is changed at run time", desc="STORE_CAP never reassigned in certs.py")


def check(ctx):
    ctx.rule("R17.1", "generated entries <= capacity after every call (certs and expire_queue); customs never dropped; only the modelled methods write the store")
    ctx.rule("R17.2", "returned entry = matching custom entry (custom wins) or generated for exactly the requested names; immediate repeat is a cache hit")
    ctx.rule("R17.3", "asterisk_forms = [name, *.suffixes...], never '*', non-DNS names verbatim")
    ctx.trust("cryptography x509.GeneralNames: iterable, hashable, equal by content (modelled as a tuple of name records)")
    ctx.assume("dummy_cert / CertStoreEntry / _fix_legacy_sans are stubs recording their arguments (their own obligations: C16)")
    _writers(ctx)
    _r17_3(ctx)
    quick = ctx.tier != "thorough"
    requests = (REQUESTS[:3] if quick else REQUESTS) + EXTRA_REQUESTS
    customs = [CUSTOMS[0], CUSTOMS[1], CUSTOMS[2], CUSTOMS[4]] if quick else CUSTOMS  # quick: wildcard by certificate name, catch-all, wildcard by explicit spec name
    fn = ctx.func(F, "CertStore.get_cert")
    ctx.func(F, "CertStore.add_cert")
    ctx.func(F, "CertStore.expire")
    tot_states = tot_trans = 0
    agg = {"bound": [], "lost": [], "names": [], "cache": []}
    notes = set()
    for cap in (1, 2):
        states, trans, viol, order_notes = _explore(ctx, cap, requests, customs)
        tot_states += states
        tot_trans += trans
        notes |= order_notes
        for k in agg:
            agg[k] += viol[k]
    ctx.note(f"explored {tot_states} abstract store states, {tot_trans} transitions (capacities 1, 2; {len(requests)} requests, {len(customs)} custom registrations)")
    for nte in sorted(notes)[:4]:
        ctx.note("custom precedence observed (not enforced): " + nte)
    ctx.require(tot_states >= 40, f"CertStore exploration collapsed to {tot_states} states")
    where = (F, "CertStore.get_cert", fn)

    def report(rule, kind, construct, why, desc):
        v = agg[kind]
        ctx.check(not v, rule, where, construct, f"{why}: after {' ; '.join(v[0][0]) if v else ''}: {v[0][1] if v else ''} ({len(v)} transition(s))", desc=desc, history=v[0][0] if v else None)

    report("R17.1", "bound", "generated entries exceed STORE_CAP", "the store keeps more generated certificates than its capacity", f"bound holds on {tot_trans} transitions")
    report("R17.1", "lost", "custom registration lost", "a registered custom certificate disappears from the store", "custom registrations persist")
    report("R17.2", "names", "returned certificate does not correspond to the requested names", "get_cert serves a certificate for other names", f"returned entries match the request on {tot_trans} transitions")
    report("R17.2", "cache", "immediate repeat is not a cache hit", "the same request is answered with a different certificate", "immediate repeat returns the same entry")
    ctx.expect_instances("R17.1", 11)
    ctx.expect_instances("R17.2", 2)
    ctx.expect_instances("R17.3", 1)
    ctx.sample({"rule": "R17.2", "universe": {"requests": [repr(r) for r in requests], "customs": [c[0] for c in customs]}})


MUTANTS = [
    Mutant("evict-by-reconstructed-key", F, "            self.certs = {k: v for k, v in self.certs.items() if v != d}\n", "            self.certs.pop((d.cert.cn, d.cert.altnames), None)\n", "R17.1"),
    Mutant("wildcard-spec-also-registers-parent-domain", F, "        for i in names:\n            self.certs[i] = entry\n", "        for i in names:\n            self.certs[i] = entry\n            if i.startswith(\"*.\"):\n                self.certs.setdefault(i[2:], entry)\n", "R17.2"),
    Mutant("expire-never-evicts", F, "        if len(self.expire_queue) > self.STORE_CAP:\n", "        if len(self.expire_queue) > self.STORE_CAP and False:\n", "R17.1"),
    Mutant("expire-off-by-many", F, "        if len(self.expire_queue) > self.STORE_CAP:\n", "        if len(self.expire_queue) > self.STORE_CAP + 1:\n", "R17.1"),
    Mutant("expire-queue-only", F, "            self.certs = {k: v for k, v in self.certs.items() if v != d}\n", "            pass\n", "R17.1"),
    Mutant("expire-drops-everything-else", F, "            self.certs = {k: v for k, v in self.certs.items() if v != d}\n", "            self.certs = {k: v for k, v in self.certs.items() if v == d}\n", "R17"),
    Mutant("generated-entry-not-queued", F, "            self.certs[(commonname, sans)] = entry\n            self.expire(entry)\n", "            self.certs[(commonname, sans)] = entry\n", "R17.1"),
    Mutant("store-cap-none", F, "    STORE_CAP = 100\n", "    STORE_CAP = float(\"inf\")\n", "R17.1"),
    Mutant("second-writer", F, "    def add_cert_file(\n        self, spec: str, path: Path, passphrase: bytes | None = None\n    ) -> None:\n        raw = path.read_bytes()\n",
           "    def add_cert_file(\n        self, spec: str, path: Path, passphrase: bytes | None = None\n    ) -> None:\n        self.certs.clear()\n        raw = path.read_bytes()\n", "R17.1"),
    Mutant("lookup-any-stored-cert", F, "        name = next(filter(lambda key: key in self.certs, potential_keys), None)\n",
           "        name = next(filter(lambda key: key in self.certs, potential_keys), None) or next(iter(self.certs), None)\n", "R17.2"),
    Mutant("generated-for-cn-only", F, "                    commonname,\n                    sans,\n                    organization,\n                    crl_url,\n", "                    commonname,\n                    [],\n                    organization,\n                    crl_url,\n", "R17.2"),
    Mutant("cache-key-differs-from-lookup-key", F, "            self.certs[(commonname, sans)] = entry\n", "            self.certs[(commonname, tuple(sans))] = entry\n", "R17"),
    Mutant("cache-key-ignores-sans", F, "        potential_keys.append((commonname, sans))\n", "        potential_keys.append((commonname, ()))\n", "R17.2"),
    Mutant("sans-not-looked-up", F, "        for s in sans:\n            potential_keys.extend(self.asterisk_forms(s))\n", "        for s in sans:\n            pass\n", "R17.2"),
    Mutant("asterisk-forms-include-star", F, "            for i in range(1, len(parts)):\n", "            for i in range(1, len(parts) + 1):\n", "R17.3"),
    Mutant("asterisk-forms-prefix-wildcards", F, "                ret.append(\"*.\" + \".\".join(parts[i:]))\n", "                ret.append(\".\".join(parts[:i]) + \".*\")\n", "R17.3"),
]
