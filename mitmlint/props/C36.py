"""C36 - flow files round-trip; reading fails only with FlowReadException.

Decided (structural clauses, nothing executed):
  R36.1 writer/reader key agreement of every hand-written get_state / set_state / from_state triple (13 implementors found by
        scanning the package for ``get_state``): dict keys written == keys consumed (and the reader insists on having consumed
        everything), tuple positions written == positions unpacked == constructor parameter order, Request/Response constructor
        parameters == RequestData/ResponseData fields, delegating implementors delegate on both sides, SerializableDataclass
        iterates the same ``__fields()`` on all three sides and skips only the non-essential ``serialize=False`` fields,
        ``Flow.__init_subclass__`` registers every subclass under the name ``get_state`` writes as ``type``.
  R36.2 (E5) the escape set of ``FlowReader.stream`` (tnetstring.load -> compat.migrate_flow (all converters) -> Flow.from_state
        -> every set_state/from_state reachable by class-hierarchy dispatch) on untrusted file content consists of
        FlowReadException only: every explicit raise and every modelled implicit raiser (see _helpers_H) is converted.
  R36.3 tnetstring wire format: ``dumps``/``_rdumpq`` and ``loads``/``load``/``pop``/``parse``/``split`` are interpreted from their ASTs
        (pyint) on representatives of every serialisable type - scalars, byte strings containing the format's own delimiters, text
        whose UTF-8 length differs from its character count (2-, 3-, 4-byte code points), empty / nested / mixed containers, a
        flow-shaped state dict - and three obligations are compared with a reference model of the format coded from its
        specification: what the writer produces is a well-formed tnetstring denoting the value (length prefixes of the value AND of
        every enclosing container), the reader maps it back to the same value with the same types, and the reader accepts the
        canonical form; a stream of several dumped values is read back value by value by ``load``.  Merged / reordered branches,
        other local names or helper functions are analysed, not refused.  In addition, when ``_rdumpq`` is still an if-chain of
        literal chunks, the (python type -> tag) table it writes equals the (tag -> python type) table of ``parse`` (structural).
NOT decided: value-level equality of a saved and re-loaded flow; exceptions outside the modelled table (MemoryError, OSError of the
file object, ``__setattr__`` overrides, exceptions thrown into the generator by its consumer).
"""

from __future__ import annotations

import ast

from ..core import AnalysisError
from ..core import norm
from ..model import attr_chain
from ..model import decorators
from ..model import stmts_of
from ..model import walk_in_order
from ..selftest import Mutant
from ._helpers_H import Config
from ._helpers_H import guards_at
from ._helpers_H import implementors
from ._helpers_H import modules_mentioning
from ._helpers_H import subclasses_of
from ._helpers_H import MayRaise

PROP = "C36"
REG = {
    "strength": "partial",
    "technique": "exception-escape sets vs. handler coverage over the resolved call graph (E5) + writer/reader key agreement (E6) + "
    "AST interpretation of the tnetstring writer/reader against a reference model of the format",
    "claim": "every explicit raise and every modelled implicit raiser reachable from FlowReader.stream on untrusted file content leaves "
    "it as FlowReadException; every hand-written get_state/set_state/from_state triple agrees on its keys / positions; the tnetstring "
    "writer and parser, interpreted from their ASTs on representatives of every type (incl. nested non-ASCII text), produce well-formed "
    "output that reads back identically and agree on the type-tag table.",
    "note": "Implicit raisers are the modelled table of _helpers_H (KeyError/IndexError/TypeError/AttributeError/ValueError/Unicode*/"
    "AssertionError/OverflowError/RecursionError on untrusted data); dynamic dispatch is over-approximated by class-hierarchy analysis "
    "of Serializable implementors; third-party parsers (cryptography x509, wsproto Opcode) are summarised in the trusted base.",
}

IO = "mitmproxy/io/io.py"
TN = "mitmproxy/io/tnetstring.py"
COMPAT = "mitmproxy/io/compat.py"
FLOW = "mitmproxy/flow.py"
HTTP = "mitmproxy/http.py"
SER = "mitmproxy/coretypes/serializable.py"
MODES = "mitmproxy/proxy/mode_specs.py"


# ---------------------------------------------------------------------------------------------------
# R36.2


def _subclass_ctors(model, base):
    return sorted({(m.rel, c._qual) for m, c in subclasses_of(model, base)})


def _config(ctx) -> Config:
    model = ctx.model
    dispatch = {n: implementors(model, "Serializable", n) for n in ("set_state", "from_state", "get_state")}
    ctx.require(len(dispatch["set_state"]) >= 12 and len(dispatch["from_state"]) >= 8,
                f"class-hierarchy dispatch collapsed: {dispatch}")
    flow_ctors = _subclass_ctors(model, "Flow")
    mode_ctors = _subclass_ctors(model, "ProxyMode")

    def dynamic(fr, call):
        where = f"{fr.mod.rel}::{fr.fn._qual}"
        text = norm(call.func)
        if where == f"{FLOW}::Flow.from_state" and text == "flow_cls":
            return flow_ctors
        if where == f"{MODES}::ProxyMode.parse" and text == "mode_cls":
            return mode_ctors
        if where == f"{SER}::_process" and text == "attr_type":
            facts = [norm(e) for e, v in guards_at(call, fr.fn) if v]
            if "attr_type in (int, float)" in facts:
                # isinstance(attr_val, (int, float)) holds: int(inf) -> OverflowError, int(nan) -> ValueError
                return ("raises", ("OverflowError", "ValueError"), "V")
            if "attr_type in (str, bytes, bool)" in facts:
                return ("raises", (), "V")  # isinstance(attr_val, attr_type) holds
            if any(f.startswith("issubclass(attr_type, enum.Enum)") for f in facts):
                return ("raises", ("ValueError",), "V")
            raise AnalysisError(f"{SER}::_process: attr_type(...) under unmodelled guards {facts}")
        return None

    externals = {
        # trusted base: documented behaviour of third-party parsers on arbitrary input
        "cryptography.x509.load_pem_x509_certificate": (("ValueError", "TypeError"), "V"),
        "wsproto.frame_protocol.Opcode": (("ValueError",), "V"),
        "mitmproxy.version.FLOW_FORMAT_VERSION": ((), None),
        "mitmproxy_rs.local.LocalRedirector.describe_spec": (("ValueError",), None),
    }
    return Config(
        externals=externals,
        dispatch=dispatch,
        dynamic=dynamic,
        returns={f"{TN}::load": "A", f"{TN}::parse": "A", f"{TN}::pop": "A", f"{COMPAT}::migrate_flow": "A"},
        bounded_recursion={
            f"{SER}::_process": "depth follows the declared field type, not the data",
            "mitmproxy/utils/typecheck.py::check_option_type": "depth follows the declared field type, not the data",
            f"{COMPAT}::_convert_dict_vals": "depth follows the literal values_to_convert table, not the data",
        },
    )


def _r36_2(ctx):
    fn = ctx.func(IO, "FlowReader.stream")
    for q in ("load", "parse", "pop", "split"):
        ctx.func(TN, q)
    ctx.func(COMPAT, "migrate_flow")
    ctx.func(FLOW, "Flow.from_state")
    ctx.func(FLOW, "Flow.set_state")
    branch = [s for s in stmts_of(fn) if isinstance(s, ast.If) and s.orelse]
    ctx.require(len(branch) == 1, "FlowReader.stream: the HAR / tnetstring branch changed shape")
    har, tnet = branch[0].body, branch[0].orelse
    ctx.require(any("tnetstring.load" in norm(s) for s in tnet) and any("json.loads" in norm(s) for s in har),
                "FlowReader.stream: cannot tell the HAR branch from the tnetstring branch")
    ctx.trust("cryptography x509.load_pem_x509_certificate raises ValueError/TypeError on bad input; wsproto Opcode(x) raises ValueError")
    ctx.assume("file object reads return bytes (OSError of the underlying file is outside the property)")
    env = {"self.fo": "V"}
    for label, stmts, strict in (("tnetstring", tnet, True), ("HAR", har, False)):
        cfg = _config(ctx)
        cfg.strict = strict
        mr = MayRaise(ctx, cfg)
        esc = mr.region(IO, "FlowReader.stream", stmts, env)
        key = mr.key_of_region(IO, "FlowReader.stream", env)
        ctx.require(len(esc) >= 1 and mr.sites >= (40 if strict else 3), f"{label}: escape analysis collapsed ({mr.sites} raiser sites)")
        ctx.paths += mr.sites
        for f in sorted(mr.functions):
            ctx.functions.add(f)
        bad = sorted((e for e in esc if not mr.h.isa(e.exc, "FlowReadException")), key=lambda e: (e.exc, e.rel, e.qual, e.text))
        types = sorted({e.exc for e in bad})
        for t in types:
            first = next(e for e in bad if e.exc == t)
            ctx.fail("R36.2", (IO, "FlowReader.stream", fn), f"{t} escapes the {label} branch",
                     f"{t} raised at {first.site()} ({first.why}) is not converted to FlowReadException; call chain: "
                     + " -> ".join(mr.chain(key, first)), chain=mr.chain(key, first), sites=[e.site() for e in bad if e.exc == t][:8])
        if not types:
            ctx.ok("R36.2", f"{label} branch: {mr.sites} raiser sites in {len(mr.functions)} functions, escape set = "
                   f"{sorted({e.exc for e in esc})}")
        for k, v in sorted(mr.discharged.items()):
            ctx.assume(f"discharged: {k}: {v}")
        if strict:
            ctx.sample({"rule": "R36.2", "raiser_sites": mr.sites, "functions": len(mr.functions),
                        "types_seen_before_filtering": sorted({x.exc for s in mr.memo.values() for x in s.escapes})})
    ctx.expect_instances("R36.2", 2)


# ---------------------------------------------------------------------------------------------------
# R36.1 writer / reader key agreement


def _src(fn) -> str:
    return ast.unparse(fn)


def _method(cls, name):
    for st in cls.body:
        if isinstance(st, (ast.FunctionDef, ast.AsyncFunctionDef)) and st.name == name:
            return st
    return None


def _const_str(e):
    return e.value if isinstance(e, ast.Constant) and isinstance(e.value, str) else None


def _is_super_call(e, meth):
    return (isinstance(e, ast.Call) and isinstance(e.func, ast.Attribute) and e.func.attr == meth and isinstance(e.func.value, ast.Call)
            and isinstance(e.func.value.func, ast.Name) and e.func.value.func.id == "super")


def _dict_writer(fn):
    """get_state building a dict: -> (keys, has_super) or None when it has another shape."""
    rets = [n for n in walk_in_order(fn) if isinstance(n, ast.Return) and n.value is not None]
    if len(rets) != 1:
        return None
    v = rets[0].value
    extra = set()
    if isinstance(v, ast.Name):
        defs = [n for n in walk_in_order(fn) if isinstance(n, ast.Assign) and len(n.targets) == 1 and isinstance(n.targets[0], ast.Name) and n.targets[0].id == v.id]
        if len(defs) != 1 or not isinstance(defs[0].value, ast.Dict):
            return None
        for n in walk_in_order(fn):
            if isinstance(n, ast.Assign):
                for t in n.targets:
                    if isinstance(t, ast.Subscript) and isinstance(t.value, ast.Name) and t.value.id == v.id:
                        k = _const_str(t.slice)
                        if k is None:
                            return None
                        extra.add(k)
        v = defs[0].value
    if not isinstance(v, ast.Dict):
        return None
    keys, has_super = set(extra), False
    for k, val in zip(v.keys, v.values):
        if k is None:
            if not _is_super_call(val, "get_state"):
                return None
            has_super = True
        else:
            ks = _const_str(k)
            if ks is None:
                return None
            keys.add(ks)
    return keys, has_super


def _dict_reader(fn):
    """set_state consuming a dict parameter: -> dict(required, optional, super_at, last_read_at, exhaustive)."""
    params = [a.arg for a in fn.args.args]
    if len(params) != 2:
        return None
    st = params[1]
    required, optional = set(), set()
    super_at, last_read = None, None
    exhaustive = False
    for n in walk_in_order(fn):
        if isinstance(n, ast.Call) and isinstance(n.func, ast.Attribute) and n.func.attr == "pop" and isinstance(n.func.value, ast.Name) and n.func.value.id == st:
            k = _const_str(n.args[0]) if n.args else None
            if k is None:
                return None
            (optional if len(n.args) > 1 else required).add(k)
            last_read = (n.lineno, n.col_offset)
        elif isinstance(n, ast.Subscript) and isinstance(n.value, ast.Name) and n.value.id == st and isinstance(n.ctx, ast.Load):
            k = _const_str(n.slice)
            if k is None:
                return None
            required.add(k)
        elif _is_super_call(n, "set_state"):
            super_at = min(super_at or (n.lineno, n.col_offset), (n.lineno, n.col_offset))
        elif isinstance(n, ast.Assert) and norm(n.test) in (f"{st} == {{}}", f"not {st}"):
            exhaustive = True
    return {"required": required, "optional": optional, "super_at": super_at, "last_read": last_read, "exhaustive": exhaustive}


def _self_attr(e):
    """'x' for self.x / int(self.x) / Cls(self.x)"""
    if isinstance(e, ast.Call) and len(e.args) == 1 and not e.keywords:
        e = e.args[0]
    if isinstance(e, ast.Attribute) and isinstance(e.value, ast.Name) and e.value.id == "self":
        return e.attr
    return None


def _tuple_writer(fn):
    rets = [n for n in walk_in_order(fn) if isinstance(n, ast.Return) and n.value is not None]
    if len(rets) != 1 or not isinstance(rets[0].value, ast.Tuple):
        return None
    out = [_self_attr(e) for e in rets[0].value.elts]
    return None if None in out else out


def _tuple_reader(fn):
    """set_state: `(self.a, tmp, self.c) = state` (+ `self.b = f(tmp)`) -> ['a', 'b', 'c']"""
    st = [a.arg for a in fn.args.args][1]
    for n in walk_in_order(fn):
        if isinstance(n, ast.Assign) and isinstance(n.targets[0], ast.Tuple) and isinstance(n.value, ast.Name) and n.value.id == st:
            out = []
            for t in n.targets[0].elts:
                a = _self_attr(t)
                if a is None and isinstance(t, ast.Name):
                    for m in walk_in_order(fn):
                        if isinstance(m, ast.Assign) and len(m.targets) == 1 and _self_attr(m.targets[0]) and t.id in {x.id for x in ast.walk(m.value) if isinstance(x, ast.Name)}:
                            a = _self_attr(m.targets[0])
                out.append(a)
            return out
    return None


def _ctor_attr_order(init):
    """__init__(self, p1, p2, ...): -> [attribute that receives p_i ...]"""
    params = [a.arg for a in init.args.args][1:]
    out = []
    for p in params:
        attr = None
        for n in walk_in_order(init):
            if isinstance(n, (ast.Assign, ast.AnnAssign)):
                tg = n.targets[0] if isinstance(n, ast.Assign) else n.target
                val = n.value
                if val is not None and _self_attr(tg) and p in {x.id for x in ast.walk(val) if isinstance(x, ast.Name)}:
                    attr = _self_attr(tg)
                    break
        out.append(attr)
    return out


def _dataclass_fields(model, rel, qual):
    out = []
    for m, c in reversed(model.mro(rel, qual)):
        for st in c.body:
            if isinstance(st, ast.AnnAssign) and isinstance(st.target, ast.Name) and "ClassVar" not in norm(st.annotation):
                if st.target.id not in out:
                    out.append(st.target.id)
    return out


NON_SERIALIZED_OK = {"Connection.state": "run-time socket state, meaningless for a stored flow (from_state always yields a closed connection)"}


def _r36_1(ctx):
    model = ctx.model
    seen = []
    for m in modules_mentioning(model, "def get_state"):
        for q, c in sorted(m.defs().items()):
            if not isinstance(c, ast.ClassDef) or _method(c, "get_state") is None:
                continue
            if "Serializable" not in [x.name for _, x in model.mro(m.rel, q)]:
                continue
            seen.append((m.rel, q))
            _one_implementor(ctx, m, c)
    ctx.require(len(seen) >= 15, f"R36.1: only {len(seen)} get_state implementors found: {seen}")
    # Flow subclass registry <-> the `type` key
    isub = ctx.func(FLOW, "Flow.__init_subclass__")
    gs, fs = ctx.func(FLOW, "Flow.get_state"), ctx.func(FLOW, "Flow.from_state")
    reg = [norm(t.value) for n in walk_in_order(isub) if isinstance(n, ast.Assign) for t in n.targets
           if isinstance(t, ast.Subscript) and norm(t.slice) == "cls.type"]
    wr = [norm(v) for n in walk_in_order(gs) if isinstance(n, ast.Dict) for k, v in zip(n.keys, n.values) if _const_str(k) == "type"]
    rd = [norm(n.value) for n in walk_in_order(fs) if isinstance(n, ast.Subscript) and norm(n.slice) in ("state['type']", 'state["type"]')]
    ok = len(reg) == 1 and wr == ["self.type"] and len(rd) >= 1 and rd[0] == reg[0]
    ctx.check(ok, "R36.1", (FLOW, "Flow.__init_subclass__", isub), "Flow.__types[cls.type] / 'type': self.type / Flow.__types[state['type']]",
              f"subclass registry {reg}, written type {wr} and lookup {rd} do not agree: a saved flow cannot find its class",
              desc="Flow subclass registry keyed by the written `type`")
    ctx.expect_instances("R36.1", 17)


def _one_implementor(ctx, m, c):
    model = ctx.model
    name = c.name
    where = lambda fn: (m.rel, f"{c._qual}.{fn.name}", fn)  # noqa: E731
    gs = _method(c, "get_state")
    ss = model.method(m.rel, c._qual, "set_state")
    fs = model.method(m.rel, c._qual, "from_state")
    ctx.require(ss is not None and fs is not None, f"{name}: get_state without set_state/from_state")
    ss, fs = ss[1], fs[1]
    if name == "Serializable":
        ctx.ok("R36.1", "Serializable (abstract)")
        return
    dw = _dict_writer(gs)
    if dw is not None and _method(c, "set_state") is not None:
        keys, has_super = dw
        rd = _dict_reader(ss)
        ctx.require(rd is not None, f"{name}.set_state: unmodelled dict reader")
        lost = keys - rd["required"] - rd["optional"]
        missing = rd["required"] - keys
        ctx.check(not lost and not missing, "R36.1", where(ss), f"{name} state keys",
                  f"keys written but never read {sorted(lost)}; keys required but never written {sorted(missing)}",
                  desc=f"{name}: {len(keys)} dict keys written == consumed", keys=sorted(keys))
        ctx.cells += len(keys)
        if has_super:
            ok = rd["super_at"] is not None and (rd["last_read"] is None or rd["last_read"] < rd["super_at"])
            ctx.check(ok, "R36.1", where(ss), f"{name}.set_state super().set_state(state) after own keys",
                      "the subclass must remove its own keys before delegating: Flow.set_state insists on an empty remainder",
                      desc=f"{name}: own keys popped before super().set_state")
        return
    tw = _tuple_writer(gs)
    if tw is not None:
        tr = _tuple_reader(ss)
        init = model.method(m.rel, c._qual, "__init__")
        ctx.require(tr is not None and init is not None, f"{name}: unmodelled tuple reader / constructor")
        star = [n for n in walk_in_order(fs) if isinstance(n, ast.Call) and norm(n) == "cls(*state)"]
        ctx.require(len(star) == 1, f"{name}.from_state is no longer cls(*state)")
        order = _ctor_attr_order(init[1])[: len(tw)]
        ctx.check(tw == tr and tw == order, "R36.1", where(gs), f"{name} state tuple",
                  f"positions written {tw}, unpacked by set_state {tr}, taken by the constructor {order}",
                  desc=f"{name}: {len(tw)} tuple positions written == unpacked == constructor order")
        ctx.cells += len(tw)
        return
    if name == "SerializableDataclass":
        texts = {f.name: [norm(n.slice) if isinstance(n, ast.Subscript) else norm(n.args[0]) for n in walk_in_order(f)
                          if (isinstance(n, ast.Subscript) and isinstance(n.value, ast.Name) and n.value.id == "state")
                          or (isinstance(n, ast.Call) and norm(n.func) == "state.pop")] for f in (gs, fs, ss)}
        loops = {f.name: [norm(n.iter) for n in walk_in_order(f) if isinstance(n, ast.For)] for f in (gs, fs, ss)}
        ok = all(set(v) == {"field.name"} for v in texts.values()) and loops["get_state"] == ["self.__fields()"] \
            and loops["from_state"] == ["cls.__fields()"] and loops["set_state"] == ["self.__fields()"]
        ctx.check(ok, "R36.1", where(gs), "SerializableDataclass field iteration", f"the three state methods do not iterate the same field list: {texts} {loops}",
                  desc="SerializableDataclass: get/from/set iterate __fields() and key by field.name")
        # non-serialised fields must be known to be non-essential
        for mm in modules_mentioning(model, '"serialize"'):
            for n in walk_in_order(mm.tree):
                if isinstance(n, ast.AnnAssign) and n.value is not None and '"serialize": False' in norm(n.value).replace("'", '"'):
                    cls_ = n._parent
                    key = f"{cls_.name}.{n.target.id}"
                    ctx.check(key in NON_SERIALIZED_OK, "R36.1", (mm.rel, cls_.name, n), f"{key} serialize=False",
                              "a field excluded from the state is lost by a save/load round trip", desc=f"{key} not serialised: {NON_SERIALIZED_OK.get(key)}")
        return
    if name == "MessageData":
        w = {_const_str(t.slice) for n in walk_in_order(gs) if isinstance(n, ast.Assign) for t in n.targets if isinstance(t, ast.Subscript)
             and "get_state" in norm(n.value)}
        r1 = {x.value for n in walk_in_order(ss) if isinstance(n, ast.Compare) and isinstance(n.ops[0], ast.In) for x in getattr(n.comparators[0], "elts", [])
              if isinstance(x, ast.Constant)}
        r2 = {_const_str(t.slice) for n in walk_in_order(fs) if isinstance(n, ast.Assign) for t in n.targets if isinstance(t, ast.Subscript)
              and "from_state" in norm(n.value)}
        allattrs = "vars(self)" in _src(gs) and "state.items()" in _src(ss) and "cls(**state)" in _src(fs)
        ctx.check(allattrs and w == r1 == r2 and w, "R36.1", where(gs), "MessageData nested-state keys",
                  f"keys serialised through Headers.get_state {sorted(w)} vs restored by set_state {sorted(r1)} / from_state {sorted(r2)}",
                  desc=f"MessageData: all attributes, nested {sorted(w)} on the three sides")
        return
    if name == "Message":
        deleg = norm(gs.body[-1]) == "return self.data.get_state()" and "self.data.set_state(state)" in _src(ss) and "cls(**state)" in _src(fs)
        bad = []
        for sub, data in (("Request", "RequestData"), ("Response", "ResponseData")):
            init = ctx.func(HTTP, f"{sub}.__init__")
            params = [a.arg for a in init.args.args][1:]
            fields = _dataclass_fields(model, HTTP, data)
            built = [kw.arg for n in walk_in_order(init) if isinstance(n, ast.Call) and norm(n.func) == data for kw in n.keywords]
            ctx.cells += len(fields)
            if set(params) != set(fields) or set(built) != set(fields):
                bad.append(f"{sub}: constructor parameters {sorted(set(params) ^ set(fields))} / {data}(...) keywords {sorted(set(built) ^ set(fields))} differ from the {data} fields")
        ctx.check(deleg and not bad, "R36.1", where(gs), "Message state = data state; Request/Response(**state)", "; ".join(bad) or "Message no longer delegates to self.data",
                  desc="Message: delegates to data; Request/Response constructor parameters == RequestData/ResponseData fields")
        return
    if name == "Cert":
        enc = [n.attr for n in walk_in_order(ctx.func(m.rel, "Cert.to_pem")) if isinstance(n, ast.Attribute) and norm(n.value).endswith("Encoding")]
        loaders = [norm(n.func) for f in (ss, ctx.func(m.rel, "Cert.from_pem")) for n in walk_in_order(f) if isinstance(n, ast.Call) and "load_" in norm(n.func)]
        ok = norm(gs.body[-1]) == "return self.to_pem()" and "cls.from_pem(state)" in _src(fs) and len(enc) == 1 and len(loaders) == 2 \
            and all(f"load_{enc[0].lower()}_x509_certificate" in x for x in loaders)
        ctx.check(ok, "R36.1", where(gs), "Cert state encoding", f"written with Encoding {enc}, read with {loaders}", desc=f"Cert: {enc} on both sides")
        return
    if name == "MultiDict":
        init = model.method(m.rel, c._qual, "__init__")[1]
        ok = norm(gs.body[-1]) == "return self.fields" and any(_self_attr(t) == "fields" for n in walk_in_order(ss) if isinstance(n, ast.Assign) for t in n.targets) \
            and "cls(state)" in _src(fs) and _ctor_attr_order(init)[:1] == ["fields"]
        ctx.check(ok, "R36.1", where(gs), "MultiDict state = fields", "get_state/set_state/constructor no longer agree on `fields`", desc="MultiDict: fields on the three sides")
        return
    if name == "ProxyMode":
        parse = ctx.func(m.rel, "ProxyMode.parse")
        spec_param = [a.arg for a in parse.args.args][1]
        built = [norm(kw.value) for n in walk_in_order(parse) if isinstance(n, ast.Call) for kw in n.keywords if kw.arg == "full_spec"]
        ok = norm(gs.body[-1]) == "return self.full_spec" and "ProxyMode.parse(state)" in _src(fs) and built == [spec_param] and "self.full_spec" in _src(ss)
        ctx.check(ok, "R36.1", where(gs), "ProxyMode state = full_spec", "get_state/parse no longer agree on full_spec", desc="ProxyMode: full_spec written, parsed back into full_spec")
        return
    raise AnalysisError(f"R36.1: get_state implementor of unmodelled shape: {m.rel}::{c._qual}")


# ---------------------------------------------------------------------------------------------------
# R36.3 tnetstring tag tables


def _r36_3_tags(ctx):
    dump, parse = ctx.func(TN, "_rdumpq"), ctx.func(TN, "parse")
    # writer: walk the if/elif chain; the first write(...) of a branch pushes the LAST chunk, whose last byte is the tag
    ctx.require(any(isinstance(n, ast.Assign) and norm(n) == "write = q.appendleft" for n in dump.body), "_rdumpq no longer pushes chunks last-first")
    chain = [s for s in dump.body if isinstance(s, ast.If)]
    ctx.require(len(chain) == 1, "_rdumpq: if-chain changed shape")
    writer = {}
    node = chain[0]
    while isinstance(node, ast.If):
        t = norm(node.test)
        if t == "value is None":
            typ = "None"
        elif t in ("value is True", "value is False"):
            typ = "bool"
        elif isinstance(node.test, ast.Call) and norm(node.test.func) == "isinstance":
            a = node.test.args[1]
            typ = "|".join(sorted(x.id for x in (a.elts if isinstance(a, ast.Tuple) else [a])))
        else:
            raise AnalysisError(f"_rdumpq: unmodelled branch test {t}")
        first = next((n for n in walk_in_order(node.body[0] if not isinstance(node.body[0], ast.Assign) else node) if isinstance(n, ast.Call) and norm(n.func) == "write"), None)
        writes = [n for st in node.body for n in walk_in_order(st) if isinstance(n, ast.Call) and norm(n.func) == "write"]
        ctx.require(writes, f"_rdumpq: branch {t} writes nothing")
        arg = writes[0].args[0]
        if isinstance(arg, ast.BinOp):
            arg = arg.left
        ctx.require(isinstance(arg, ast.Constant) and isinstance(arg.value, bytes), f"_rdumpq: first chunk of branch {t} is not a bytes literal")
        tag = chr(arg.value[-1])
        ctx.require(writer.get(typ, tag) == tag, f"_rdumpq: type {typ} written with two tags")
        writer[typ] = tag
        node = node.orelse[0] if len(node.orelse) == 1 else None
    reader = {}
    for s in parse.body:
        if not isinstance(s, ast.If):
            continue
        t = s.test
        ctx.require(isinstance(t, ast.Compare) and norm(t.left) == "data_type" and isinstance(t.comparators[0], ast.Call) and norm(t.comparators[0].func) == "ord",
                    f"parse: unmodelled branch test {norm(t)}")
        tag = chr(t.comparators[0].args[0].value[0])
        body = " ".join(norm(x) for x in s.body)
        if "tobytes()" in body:
            typ = "bytes"
        elif "str(data" in body:
            typ = "str"
        elif "int(data)" in body:
            typ = "int"
        elif "float(data)" in body:
            typ = "float"
        elif "return True" in body and "return False" in body:
            typ = "bool"
        elif "return None" in body:
            typ = "None"
        elif "lst = []" in body:
            typ = "list|tuple"
        elif "d = {}" in body:
            typ = "dict"
        else:
            raise AnalysisError(f"parse: cannot tell the type produced for tag {tag!r}")
        reader[typ] = tag
    ctx.cells += len(writer) + len(reader)
    ctx.check(writer == reader and len(writer) == 8, "R36.3", (TN, "_rdumpq", dump), "tnetstring type-tag table",
              f"written {sorted(writer.items())} != parsed {sorted(reader.items())}", desc=f"8 tags agree: {sorted(writer.items())}")


# ---- reference model of the wire format (coded from the tnetstring specification + mitmproxy's `;` text extension), used only to cross-read
# what the interpreted repository writer produced and to produce canonical input for the interpreted repository parser.


def _ref_dumps(v) -> bytes:
    if v is None:
        return b"0:~"
    if v is True:
        return b"4:true!"
    if v is False:
        return b"5:false!"
    if isinstance(v, int):
        body, tag = str(v).encode(), b"#"
    elif isinstance(v, float):
        body, tag = repr(v).encode(), b"^"
    elif isinstance(v, bytes):
        body, tag = v, b","
    elif isinstance(v, str):
        body, tag = v.encode("utf8"), b";"
    elif isinstance(v, (list, tuple)):
        body, tag = b"".join(_ref_dumps(x) for x in v), b"]"
    elif isinstance(v, dict):
        body, tag = b"".join(_ref_dumps(k) + _ref_dumps(x) for k, x in v.items()), b"}"
    else:
        raise AnalysisError(f"R36.3 domain value of unserialisable type {type(v).__name__}")
    return str(len(body)).encode() + b":" + body + tag


def _ref_pop(data: bytes):
    n, sep, rest = data.partition(b":")
    if not sep or not n.isdigit():
        raise ValueError(f"invalid length prefix {data[:12]!r}")
    n = int(n)
    if len(rest) < n + 1:
        raise ValueError(f"length prefix {n} exceeds the {len(rest)} bytes that follow")
    body, tag, remain = rest[:n], rest[n : n + 1], rest[n + 1 :]
    if tag == b",":
        return body, remain
    if tag == b";":
        return body.decode("utf8"), remain
    if tag == b"#":
        return int(body), remain
    if tag == b"^":
        return float(body), remain
    if tag == b"!":
        if body not in (b"true", b"false"):
            raise ValueError(f"invalid boolean {body!r}")
        return body == b"true", remain
    if tag == b"~":
        if body:
            raise ValueError("invalid null")
        return None, remain
    if tag == b"]":
        out = []
        while body:
            x, body = _ref_pop(body)
            out.append(x)
        return out, remain
    if tag == b"}":
        d = {}
        while body:
            k, body = _ref_pop(body)
            x, body = _ref_pop(body)
            if isinstance(k, (list, dict)):
                raise ValueError(f"unhashable dictionary key {k!r}")
            d[k] = x
        return d, remain
    raise ValueError(f"unknown type tag {tag!r}")


def _same(a, b) -> bool:
    """Equality that also compares types (True != 1, b'a' != 'a', 1 != 1.0); a tuple is read back as a list."""
    if isinstance(a, tuple):
        a = list(a)
    if isinstance(b, tuple):
        b = list(b)
    if type(a) is not type(b):
        return False
    if isinstance(a, list):
        return len(a) == len(b) and all(_same(x, y) for x, y in zip(a, b))
    if isinstance(a, dict):
        return len(a) == len(b) and all(any(_same(k, k2) and _same(v, v2) for k2, v2 in b.items()) for k, v in a.items())
    if isinstance(a, float):
        return repr(a) == repr(b)
    return a == b


TN_DOMAIN = {
    "scalars": [None, True, False, 0, 1, -17, 2**70, 0.0, 1.5, -2.25e-7, 1e300, float("inf")],
    "byte and text strings": [b"", b"abc", b"\x00\xff:,;]}~", b"12:ab", "", "ascii", "gr\u00f6\u00dfe", "\u65e5\u672c\u8a9e", "\U0001f600 ok", "a" * 300],
    "containers": [
        [], {}, [1, "x", b"y", None, True, 2.5], (1, (2, 3)), [[["deep"]]], {"k": "v"}, {b"bytes-key": 1, "str-key": b"v"},
        ["gr\u00f6\u00dfe"], {"comment": "gr\u00f6\u00dfe"}, {"\u00fcber": 1}, [["\U0001f600"], {"a": {"b": ["\u00e9", {"c": "\u65e5\u672c"}]}}],
        {"type": "http", "comment": "caf\u00e9 \u2615", "marked": "", "metadata": {"note": "\u00fc", "n": 3}, "timestamp_created": 1700000000.25, "error": None,
         "request": {"headers": [[b"host", b"example.com"], [b"x", b"\xff"]], "content": b"\x00\x01", "trailers": None, "port": 443}},
    ],
}


def _r36_3(ctx):
    """The writer (dumps/_rdumpq) and the reader (loads/load/pop/parse/split) are INTERPRETED from their ASTs (pyint; nothing is executed) on
    representatives of every serialisable type, including text whose UTF-8 length differs from its character count nested in containers."""
    import collections
    import io

    from ..pyint import Interp
    from ..pyint import Raised

    dump = ctx.func(TN, "_rdumpq")
    for q in ("dumps", "loads", "load", "pop", "parse", "split"):
        ctx.func(TN, q)

    def run(fn, *args):
        it = Interp(ctx.model, trusted_modules={"collections": collections}, max_depth=60)
        it.overrides[(TN, "memoryview")] = memoryview
        ctx.cells += 1
        try:
            return ("ok", it.call(TN, fn, *args))
        except Raised as r:
            return ("raise", f"{r.name}: {r.msg}"[:120])

    def show(v):
        t = repr(v)
        return t if len(t) <= 70 else t[:67] + "..."

    for cls, values in TN_DOMAIN.items():
        wit = None
        for v in values:
            w = run("dumps", v)
            if w[0] != "ok" or not isinstance(w[1], bytes):
                wit = wit or f"dumps({show(v)}) -> {w[1] if w[0] == 'raise' else type(w[1]).__name__}"
                continue
            wire = w[1]
            try:
                back, rest = _ref_pop(wire)
                if rest or not _same(v, back):
                    wit = wit or f"dumps({show(v)}) = {show(wire)} which a tnetstring reader decodes as {show(back)}" + (f" + {len(rest)} stray bytes" if rest else "")
            except (ValueError, UnicodeDecodeError) as e:
                wit = wit or f"dumps({show(v)}) = {show(wire)} is not a well-formed tnetstring ({e})"
            r = run("loads", wire)
            if r[0] != "ok" or not _same(v, r[1]):
                wit = wit or f"loads(dumps({show(v)})) -> {show(r[1])}"
            r = run("loads", _ref_dumps(v)) if _ref_dumps(v) != wire else r
            if r[0] != "ok" or not _same(v, r[1]):
                wit = wit or f"loads({show(_ref_dumps(v))}) -> {show(r[1])}, expected {show(v)}"
        ctx.check(wit is None, "R36.3", (TN, "_rdumpq", dump), f"tnetstring round trip: {cls}",
                  f"a value is not written as a well-formed tnetstring that reads back as itself: {wit} - a saved flow (and every flow after it in the file) cannot be loaded",
                  desc=f"tnetstring {cls}: {len(values)} representatives: written form is well-formed, reads back identically (interpreted writer x interpreted reader x reference)")
    # file level: FlowReader calls load(fo) repeatedly on one stream
    seq = [TN_DOMAIN["containers"][-1], {"type": "tcp", "comment": "\u00e4\u00f6\u00fc"}, ["tail"]]
    blob, wit = b"", None
    for v in seq:
        w = run("dumps", v)
        blob += w[1] if w[0] == "ok" and isinstance(w[1], bytes) else b""
    fo = io.BytesIO(blob)
    for v in seq:
        r = run("load", fo)
        if r[0] != "ok" or not _same(v, r[1]):
            wit = wit or f"load() of a stream of {len(seq)} dumped values yields {show(r[1])} where {show(v)} was written"
            break
    if wit is None and fo.read(1) != b"":
        wit = "load() leaves unread bytes behind the last value"
    ctx.check(wit is None, "R36.3", (TN, "load", ctx.func(TN, "load")), "tnetstring stream of values: load() x N",
              f"{wit} - flows are not read back in the order / number they were saved", desc=f"stream of {len(seq)} dumped values is read back value by value by load()")
    try:
        _r36_3_tags(ctx)
    except AnalysisError as e:
        ctx.note(f"R36.3 structural tag table not extracted ({e}); the interpreted round trip above is the decision")
    ctx.expect_instances("R36.3", 4)


def check(ctx):
    ctx.rule("R36.1", "keys/positions written by get_state == consumed by set_state/from_state for every hand-written implementor")
    ctx.rule("R36.2", "every exception type that can escape FlowReader.stream on untrusted content is FlowReadException (escape set vs handlers)")
    ctx.rule("R36.3", "tnetstring: (type -> tag) written by _rdumpq == (tag -> type) parsed by parse")
    _r36_1(ctx)
    _r36_2(ctx)
    _r36_3(ctx)


TCP = "mitmproxy/tcp.py"
WS = "mitmproxy/websocket.py"
DNS = "mitmproxy/dns.py"
MUTANTS = [
    # R36.2: reverse of the F-C36 / F-C36b fixes (one type at a time) and other handler-coverage regressions
    Mutant("reverse-fix-keyerror-unmapped", IO, "                KeyError,\n", "", "R36.2"),
    Mutant("reverse-fix-assertionerror-unmapped", IO, "                AssertionError,\n", "", "R36.2"),
    Mutant("reverse-fix-attributeerror-unmapped", IO, "                AttributeError,\n", "", "R36.2"),
    Mutant("reverse-fix-overflowerror-unmapped", IO, "                OverflowError,\n", "", "R36.2"),
    Mutant("reverse-fix-recursionerror-unmapped", IO, "                RecursionError,\n", "", "R36.2"),
    Mutant("typeerror-unmapped", IO, "                TypeError,\n", "", "R36.2"),
    Mutant("outer-handler-reraises-original", IO, '                raise exceptions.FlowReadException("Invalid data format.") from e\n', "                raise\n", "R36.2"),
    Mutant("migrate-raises-unmapped-type", COMPAT, "            raise ValueError(\n                \"{} cannot read files", "            raise NotImplementedError(\n                \"{} cannot read files", "R36.2"),
    Mutant("har-handler-narrowed", IO, "            except Exception:\n                raise exceptions.FlowReadException(\n                    \"Unable to read HAR",
           "            except KeyError:\n                raise exceptions.FlowReadException(\n                    \"Unable to read HAR", "R36.2"),
    # R36.1
    Mutant("flow-getstate-drops-comment", FLOW, '            "comment": self.comment,\n', "", "R36.1"),
    Mutant("flow-setstate-forgets-marked", FLOW, '        self.marked = state.pop("marked")\n', "", "R36.1"),
    Mutant("httpflow-super-before-own-keys", HTTP, '        self.request = Request.from_state(state.pop("request"))\n        self.response',
           '        super().set_state(state)\n        self.request = Request.from_state(state.pop("request"))\n        self.response', "R36.1"),
    Mutant("tcpmessage-getstate-order-swapped", TCP, "        return self.from_client, self.content, self.timestamp", "        return self.content, self.from_client, self.timestamp", "R36.1"),
    Mutant("wsmessage-ctor-order-swapped", WS, "        type: int | Opcode,\n        from_client: bool,\n", "        from_client: bool,\n        type: int | Opcode,\n", "R36.1"),
    Mutant("dnsflow-getstate-drops-response", DNS, '            "response": self.response.get_state() if self.response else None,\n        }\n\n    def set_state', '        }\n\n    def set_state', "R36.1"),
    Mutant("request-ctor-loses-authority", HTTP, "            authority=authority,\n", "", "R36.1"),
    Mutant("messagedata-fromstate-skips-trailers", HTTP, '        if state["trailers"] is not None:\n            state["trailers"] = Headers.from_state(state["trailers"])\n        return cls(**state)', "        return cls(**state)", "R36.1"),
    Mutant("flow-type-registry-keyed-by-classname", FLOW, "        Flow.__types[cls.type] = cls", "        Flow.__types[cls.__name__] = cls", "R36.1"),
    Mutant("new-nonserialised-field", "mitmproxy/connection.py", "    error: str | None = None\n", '    error: str | None = field(default=None, metadata={"serialize": False})\n', "R36.1"),
    # R36.3
    Mutant("tnetstring-container-counts-characters-of-text", TN, '        write(b";")\n        write(data)\n        write(b":")\n        write(span)\n        return size + 2 + len(span) + ldata',
           '        write(b";")\n        write(data)\n        write(b":")\n        write(span)\n        return size + 2 + len(span) + len(value)', "R36.3"),
    Mutant("tnetstring-text-length-prefix-in-characters", TN, '        data = value.encode("utf8")\n        ldata = len(data)\n', '        data = value.encode("utf8")\n        ldata = len(value)\n', "R36.3"),
    Mutant("tnetstring-list-size-misses-separator", TN, '            size = _rdumpq(q, size, item)\n        span = str(size - init_size).encode()\n        write(b":")\n        write(span)\n        return size + 1 + len(span)',
           '            size = _rdumpq(q, size, item)\n        span = str(size - init_size).encode()\n        write(b":")\n        write(span)\n        return size + len(span)', "R36.3"),
    Mutant("tnetstring-text-read-as-latin1", TN, '        return str(data, "utf8")', '        return str(data, "latin-1")', "R36.3"),
    Mutant("tnetstring-dict-key-value-swapped", TN, "            size = _rdumpq(q, size, v)\n            size = _rdumpq(q, size, k)", "            size = _rdumpq(q, size, k)\n            size = _rdumpq(q, size, v)", "R36.3"),
    Mutant("tnetstring-float-written-with-int-tag", TN, 'write(b"%s:%s^" % (span, data))', 'write(b"%s:%s#" % (span, data))', "R36.3"),
    Mutant("tnetstring-parser-drops-null", TN, '    if data_type == ord(b"~"):\n        if data:\n            raise ValueError(f"not a tnetstring: invalid null literal: {data!r}")\n        return None\n', "", "R36.3"),
    Mutant("tnetstring-str-tag-swapped-in-parser", TN, '    if data_type == ord(b","):\n        return data.tobytes()\n    if data_type == ord(b";"):', '    if data_type == ord(b";"):\n        return data.tobytes()\n    if data_type == ord(b","):', "R36.3"),
]
