"""C36 - flow files round-trip; reading fails only with FlowReadException.

Decided (structural clauses, nothing executed):
  R36.1 writer/reader key agreement of every hand-written get_state / set_state / from_state triple (implementors found by scanning the
        package for ``get_state``): dict keys written == keys consumed - the written key set is obtained by abstract interpretation of get_state
        over "dict with a known key set" (displays incl. ``**``, ``dict(..)``, ``a | b``, ``super().get_state()``, locals, ``d[k] = ..``,
        ``d.update(..)``, ``setdefault``), the consumed ones from every ``state.pop(k)`` / ``state[k]`` wherever it occurs (walrus, temporaries) -
        and the subclass removes its own keys before delegating; tuple positions written == positions unpacked == constructor parameter
        order; Request/Response constructor parameters == RequestData/ResponseData fields; delegating implementors delegate on both sides;
        SerializableDataclass iterates the same field list on all three sides and skips only the known non-essential ``serialize=False``
        fields; ``Flow.__init_subclass__`` registers every subclass under the attribute ``get_state`` writes as ``type`` and ``from_state`` looks
        it up in that registry (local aliases resolved).  For the one-off implementors recognising the idiom is a shape matter (exit 2); only a
        disagreement between the sides is a violation.
  R36.2 (E5) the escape set of the whole body of ``FlowReader.stream`` (tnetstring.load -> compat.migrate_flow (all converters) ->
        Flow.from_state -> every set_state/from_state reachable by class-hierarchy dispatch; the HAR importer summarised as "any Exception")
        on untrusted file content consists of FlowReadException only: every explicit raise and every modelled implicit raiser (see
        _helpers_H) is converted.  Handler coverage follows the call graph into helper methods / module functions the per-record work may be
        moved into, resolves exception tuples through module-level constants (``except _MALFORMED_DATA_ERRORS``, ``A + (B,)``) and
        ``raise make_error(x)`` through the factory's returns.
  R36.3 tnetstring wire format: ``dumps`` and ``loads``/``load`` (and whatever private helpers they use - today _rdumpq / pop / parse / split) are
        interpreted from their ASTs (pyint) on representatives of every serialisable type - scalars, byte strings containing the format's
        own delimiters, text whose UTF-8 length differs from its character count (2-, 3-, 4-byte code points), empty / nested / mixed
        containers, a flow-shaped state dict - and three obligations are compared with a reference model of the format coded from its
        specification: what the writer produces is a well-formed tnetstring denoting the value (length prefixes of the value AND of every
        enclosing container), the reader maps it back to the same value with the same types, and the reader accepts the canonical form; a
        stream of several dumped values is read back value by value by ``load``; the (python type -> tag) table observed on the interpreted
        writer equals the (tag -> python type) table observed on the interpreted parser.  How writer and parser are written (if-chain,
        match, helper functions, deque vs concatenation, names) is irrelevant.
NOT decided: value-level equality of a saved and re-loaded flow; exceptions outside the modelled table (MemoryError, OSError of the
file object, ``__setattr__`` overrides, exceptions thrown into the generator by its consumer).
"""

from __future__ import annotations

import ast

from ..core import AnalysisError
from ..core import norm
from ..model import attr_chain
from ..model import decorators
from ..model import stmts_of
from ..model import walk_in_order
from ..selftest import Mutant
from ._helpers_H import Config
from ._helpers_H import guards_at
from ._helpers_H import implementors
from ._helpers_H import modules_mentioning
from ._helpers_H import subclasses_of
from ._helpers_H import MayRaise

PROP = "C36"
REG = {
    "strength": "partial",
    "technique": "exception-escape sets vs. handler coverage over the resolved call graph (E5) + writer/reader key agreement (E6) + "
    "AST interpretation of the tnetstring writer/reader against a reference model of the format",
    "claim": "every explicit raise and every modelled implicit raiser reachable from FlowReader.stream (helpers followed, exception tuples resolved "
    "through module constants) on untrusted file content leaves it as FlowReadException; every hand-written get_state/set_state/from_state "
    "triple agrees on its keys / positions; the tnetstring writer and parser, interpreted from their ASTs on representatives of every type "
    "(incl. nested non-ASCII text), produce well-formed output that reads back identically and agree on the type-tag table.",
    "note": "Implicit raisers are the modelled table of _helpers_H (KeyError/IndexError/TypeError/AttributeError/ValueError/Unicode*/"
    "AssertionError/OverflowError/RecursionError on untrusted data); dynamic dispatch is over-approximated by class-hierarchy analysis "
    "of Serializable implementors; third-party parsers (cryptography x509, wsproto Opcode) are summarised in the trusted base.",
}

IO = "mitmproxy/io/io.py"
TN = "mitmproxy/io/tnetstring.py"
COMPAT = "mitmproxy/io/compat.py"
FLOW = "mitmproxy/flow.py"
HTTP = "mitmproxy/http.py"
SER = "mitmproxy/coretypes/serializable.py"
MODES = "mitmproxy/proxy/mode_specs.py"
HAR_IO = "mitmproxy/io/har.py"


# ---------------------------------------------------------------------------------------------------
# R36.2


def _subclass_ctors(model, base):
    return sorted({(m.rel, c._qual) for m, c in subclasses_of(model, base)})


def _config(ctx) -> Config:
    model = ctx.model
    dispatch = {n: implementors(model, "Serializable", n) for n in ("set_state", "from_state", "get_state")}
    ctx.require(len(dispatch["set_state"]) >= 12 and len(dispatch["from_state"]) >= 8,
                f"class-hierarchy dispatch collapsed: {dispatch}")
    flow_ctors = _subclass_ctors(model, "Flow")
    mode_ctors = _subclass_ctors(model, "ProxyMode")

    hits = set()

    def dynamic(fr, call):
        where = f"{fr.mod.rel}::{fr.fn._qual}"
        text = norm(call.func)
        if fr.mod.rel == IO and isinstance(call.func, (ast.Name, ast.Attribute)):
            r = fr.eng.model.resolve_name(fr.mod, call.func)
            if r is not None and r[0].rel == HAR_IO and getattr(r[1], "name", "") == "request_to_flow":
                hits.add("har")
                return ("raises", ("Exception",), "V")
        if where == f"{FLOW}::Flow.from_state" and text == "flow_cls":
            return flow_ctors
        if where == f"{MODES}::ProxyMode.parse" and text == "mode_cls":
            return mode_ctors
        if where == f"{SER}::_process" and text == "attr_type":
            facts = [norm(e) for e, v in guards_at(call, fr.fn) if v]
            if "attr_type in (int, float)" in facts:
                # isinstance(attr_val, (int, float)) holds: int(inf) -> OverflowError, int(nan) -> ValueError
                return ("raises", ("OverflowError", "ValueError"), "V")
            if "attr_type in (str, bytes, bool)" in facts:
                return ("raises", (), "V")  # isinstance(attr_val, attr_type) holds
            if any(f.startswith("issubclass(attr_type, enum.Enum)") for f in facts):
                return ("raises", ("ValueError",), "V")
            raise AnalysisError(f"{SER}::_process: attr_type(...) under unmodelled guards {facts}")
        return None

    externals = {
        # trusted base: documented behaviour of third-party parsers on arbitrary input
        "cryptography.x509.load_pem_x509_certificate": (("ValueError", "TypeError"), "V"),
        "wsproto.frame_protocol.Opcode": (("ValueError",), "V"),
        "mitmproxy.version.FLOW_FORMAT_VERSION": ((), None),
        "mitmproxy_rs.local.LocalRedirector.describe_spec": (("ValueError",), None),
    }
    cfg = Config(
        externals=externals,
        dispatch=dispatch,
        dynamic=dynamic,
        returns={f"{TN}::load": "A", f"{TN}::parse": "A", f"{TN}::pop": "A", f"{COMPAT}::migrate_flow": "A"},
        bounded_recursion={
            f"{SER}::_process": "depth follows the declared field type, not the data",
            "mitmproxy/utils/typecheck.py::check_option_type": "depth follows the declared field type, not the data",
            f"{COMPAT}::_convert_dict_vals": "depth follows the literal values_to_convert table, not the data",
        },
    )
    cfg.hits = hits
    return cfg


def _r36_2(ctx):
    """Escape set of the WHOLE body of FlowReader.stream (both file formats; helper methods / module helpers the per-record work was
    moved into are followed over the call graph, exception tuples are resolved through module constants)."""
    fn = ctx.func(IO, "FlowReader.stream")
    for q in ("load", "parse", "pop"):
        ctx.func(TN, q)
    ctx.func(COMPAT, "migrate_flow")
    ctx.func(FLOW, "Flow.from_state")
    ctx.func(FLOW, "Flow.set_state")
    ctx.trust("cryptography x509.load_pem_x509_certificate raises ValueError/TypeError on bad input; wsproto Opcode(x) raises ValueError")
    ctx.trust("io.har.request_to_flow on arbitrary decoded JSON may raise any Exception subclass (summarised, not analysed)")
    ctx.assume("file object reads return bytes (OSError of the underlying file is outside the property)")
    env = {"self.fo": "V"}
    cfg = _config(ctx)
    mr = MayRaise(ctx, cfg)
    esc = mr.region(IO, "FlowReader.stream", stmts_of(fn), env)
    key = mr.key_of_region(IO, "FlowReader.stream", env)
    # the analysis must have walked the real reader: tnetstring parser, migration, state restoration and the HAR importer
    reached = {f"{TN}::load", f"{COMPAT}::migrate_flow", f"{FLOW}::Flow.from_state", f"{FLOW}::Flow.set_state"}
    ctx.require(reached <= mr.functions, f"FlowReader.stream no longer reaches {sorted(reached - mr.functions)} over the resolved call graph (anchor moved)")
    ctx.require("har" in cfg.hits, "FlowReader.stream no longer reaches io.har.request_to_flow (anchor moved)")
    ctx.require(len(esc) >= 1 and mr.sites >= 40, f"escape analysis collapsed ({mr.sites} raiser sites)")
    ctx.paths += mr.sites
    for f in sorted(mr.functions):
        ctx.functions.add(f)
    bad = sorted((e for e in esc if not mr.h.isa(e.exc, "FlowReadException")), key=lambda e: (e.exc, e.rel, e.qual, e.text))
    types = sorted({e.exc for e in bad})
    for t in types:
        first = next(e for e in bad if e.exc == t)
        ctx.fail("R36.2", (IO, "FlowReader.stream", fn), f"{t} escapes FlowReader.stream",
                 f"{t} raised at {first.site()} ({first.why}) is not converted to FlowReadException; call chain: "
                 + " -> ".join(mr.chain(key, first)), chain=mr.chain(key, first), sites=[e.site() for e in bad if e.exc == t][:8])
    if not types:
        ctx.ok("R36.2", f"FlowReader.stream (tnetstring and HAR input): {mr.sites} raiser sites in {len(mr.functions)} functions, escape set = "
               f"{sorted({e.exc for e in esc})}")
    for k, v in sorted(mr.discharged.items()):
        ctx.assume(f"discharged: {k}: {v}")
    ctx.sample({"rule": "R36.2", "raiser_sites": mr.sites, "functions": len(mr.functions),
                "types_seen_before_filtering": sorted({x.exc for s in mr.memo.values() for x in s.escapes})})
    ctx.expect_instances("R36.2", 1)


# ---------------------------------------------------------------------------------------------------
# R36.1 writer / reader key agreement


def _src(fn) -> str:
    return ast.unparse(fn)


def _method(cls, name):
    for st in cls.body:
        if isinstance(st, (ast.FunctionDef, ast.AsyncFunctionDef)) and st.name == name:
            return st
    return None


def _const_str(e):
    return e.value if isinstance(e, ast.Constant) and isinstance(e.value, str) else None


def _is_super_call(e, meth):
    return (isinstance(e, ast.Call) and isinstance(e.func, ast.Attribute) and e.func.attr == meth and isinstance(e.func.value, ast.Call)
            and isinstance(e.func.value.func, ast.Name) and e.func.value.func.id == "super")


class _NoShape(Exception):
    pass


def _dict_writer(fn, want_values=False):
    """get_state building a dict: -> (keys, has_super) or None when it has another shape.

    Abstract interpretation of the body over the domain "dict with a known key set": ``{..}`` displays incl. ``**``,
    ``dict(..)``, ``a | b``, ``super().get_state()``, locals bound to such values, ``d[k] = ..``, ``d.update(..)`` (mapping and/or keywords),
    ``d |= ..``, ``d.setdefault(k, ..)``, ``d.copy()``; the returned value decides.  Statements that do not touch a tracked dict (logging,
    asserts, unrelated temporaries) are transparent.  ``if``/``else`` (and early returns) are followed on both arms: the arms - and all
    returns - must agree on the key set (``d["k"] = a`` / ``else: d["k"] = None`` is the conditional expression spelled out); a key
    written on one path only, or a tracked dict changed in a loop / ``try``, is not modelled (None)."""

    def val(e, env):
        """(keys, has_super, {key: value node}) | None when ``e`` is not a dict of known keys"""
        if isinstance(e, ast.Dict):
            keys, sup, vals = set(), False, {}
            for k, v in zip(e.keys, e.values):
                if k is None:
                    r = val(v, env)
                    if r is None:
                        raise _NoShape
                    keys |= r[0]
                    sup = sup or r[1]
                    vals.update(r[2])
                else:
                    ks = _const_str(k)
                    if ks is None:
                        raise _NoShape
                    keys.add(ks)
                    vals[ks] = v
            return keys, sup, vals
        if _is_super_call(e, "get_state") and not e.args and not e.keywords:
            return set(), True, {}
        if isinstance(e, ast.Name) and e.id in env:
            k, s_, v = env[e.id]
            return set(k), s_, dict(v)
        if isinstance(e, ast.Call) and isinstance(e.func, ast.Name) and e.func.id == "dict" and len(e.args) <= 1:
            base = (set(), False, {}) if not e.args else val(e.args[0], env)
            if base is None:
                return None
            return merge(base, e.keywords, None, env)
        if isinstance(e, ast.Call) and isinstance(e.func, ast.Attribute) and e.func.attr == "copy" and not e.args and not e.keywords:
            return val(e.func.value, env)
        if isinstance(e, ast.BinOp) and isinstance(e.op, ast.BitOr):
            a, b = val(e.left, env), val(e.right, env)
            if a is None or b is None:
                return None
            return a[0] | b[0], a[1] or b[1], {**a[2], **b[2]}
        return None

    def merge(base, keywords, mapping, env):
        keys, sup, vals = set(base[0]), base[1], dict(base[2])
        for extra in [mapping] if mapping is not None else []:
            r = val(extra, env)
            if r is None:
                raise _NoShape
            keys |= r[0]
            sup = sup or r[1]
            vals.update(r[2])
        for kw in keywords:
            if kw.arg is None:
                r = val(kw.value, env)
                if r is None:
                    raise _NoShape
                keys |= r[0]
                sup = sup or r[1]
                vals.update(r[2])
            else:
                keys.add(kw.arg)
                vals[kw.arg] = kw.value
        return keys, sup, vals

    def touches(node, env):
        """names of tracked dicts that ``node`` may change (stores, item stores, mutating method calls)"""
        out = set()
        for n in ast.walk(node):
            if isinstance(n, ast.Name) and n.id in env and isinstance(n.ctx, (ast.Store, ast.Del)):
                out.add(n.id)
            if isinstance(n, ast.Subscript) and isinstance(n.value, ast.Name) and n.value.id in env and isinstance(n.ctx, (ast.Store, ast.Del)):
                out.add(n.value.id)
            if isinstance(n, ast.Call) and isinstance(n.func, ast.Attribute) and isinstance(n.func.value, ast.Name) and n.func.value.id in env \
                    and n.func.attr in ("update", "setdefault", "pop", "popitem", "clear", "__setitem__", "__delitem__"):
                out.add(n.func.value.id)
        return out

    def clone(env):
        return {k: (set(v[0]), v[1], dict(v[2])) for k, v in env.items()}

    def alt(test, a, b):
        """the value a key has after `if test: d[k] = a / else: d[k] = b`"""
        if norm(a) == norm(b):
            return a
        return ast.copy_location(ast.IfExp(test=test, body=a, orelse=b), a)

    results = []

    def run(stmts, env) -> bool:
        """interpret a block; True when every path through it returns (the values are collected in ``results``)"""
        for st in stmts:
            if isinstance(st, ast.Return):
                if st.value is None:
                    raise _NoShape
                results.append(val(st.value, env))
                return True
            if isinstance(st, (ast.Assign, ast.AnnAssign)) and st.value is not None:
                targets = st.targets if isinstance(st, ast.Assign) else [st.target]
                if len(targets) == 1 and isinstance(targets[0], ast.Name):
                    r = val(st.value, env)
                    if r is not None:
                        env[targets[0].id] = r
                    else:
                        env.pop(targets[0].id, None)
                    continue
                if len(targets) == 1 and isinstance(targets[0], ast.Subscript) and isinstance(targets[0].value, ast.Name) and targets[0].value.id in env:
                    k = _const_str(targets[0].slice)
                    if k is None:
                        raise _NoShape
                    keys, sup, vals = env[targets[0].value.id]
                    keys.add(k)
                    vals[k] = st.value
                    continue
            if isinstance(st, ast.AugAssign) and isinstance(st.op, ast.BitOr) and isinstance(st.target, ast.Name) and st.target.id in env:
                r = val(st.value, env)
                if r is None:
                    raise _NoShape
                a = env[st.target.id]
                env[st.target.id] = (a[0] | r[0], a[1] or r[1], {**a[2], **r[2]})
                continue
            if isinstance(st, ast.Expr) and isinstance(st.value, ast.Call) and isinstance(st.value.func, ast.Attribute) \
                    and isinstance(st.value.func.value, ast.Name) and st.value.func.value.id in env:
                c, name = st.value, st.value.func.value.id
                if c.func.attr == "update" and len(c.args) <= 1:
                    env[name] = merge(env[name], c.keywords, c.args[0] if c.args else None, env)
                    continue
                if c.func.attr == "setdefault" and len(c.args) == 2 and _const_str(c.args[0]) is not None:
                    env[name][0].add(_const_str(c.args[0]))
                    env[name][2].setdefault(_const_str(c.args[0]), c.args[1])
                    continue
                raise _NoShape
            relevant = bool(touches(st, env)) or any(isinstance(n, ast.Return) for n in ast.walk(st))
            if not relevant:
                continue
            if isinstance(st, ast.If) and not touches(st.test, env):
                ea, eb = clone(env), clone(env)
                ta, tb = run(st.body, ea), run(st.orelse, eb)
                if ta and tb:
                    return True
                if ta or tb:
                    new = eb if ta else ea
                else:
                    new = {}
                    for name in set(ea) | set(eb):
                        if name not in ea or name not in eb:
                            continue  # bound to a dict on one arm only: no longer tracked (a later use of it is not a known dict)
                        a, b = ea[name], eb[name]
                        if a[0] != b[0] or a[1] != b[1]:
                            raise _NoShape  # a key written on one path only
                        new[name] = (a[0], a[1], {k: alt(st.test, a[2][k], b[2][k]) if k in a[2] and k in b[2] else a[2].get(k, b[2].get(k)) for k in a[0]})
                env.clear()
                env.update(new)
                continue
            if isinstance(st, (ast.With, ast.AsyncWith)) and not any(touches(i.context_expr, env) for i in st.items):
                if run(st.body, env):
                    return True
                continue
            raise _NoShape  # a tracked dict changed in a loop / try / by an unmodelled operation, or a return inside one
        return False

    try:
        if not run(fn.body, {}):
            return None  # a path falls off the end (returns None)
    except _NoShape:
        return None
    if not results or any(r is None for r in results):
        return None
    keys, sup, vals = results[0]
    for r in results[1:]:
        if r[0] != keys or r[1] != sup:
            return None
        vals = {**r[2], **vals}
    return (keys, sup, vals) if want_values else (keys, sup)


def _const_strs_resolver(model, m, c, fn):
    """f(expr) -> [str, ...] | None: the string constants the *loop variable* ``expr`` ranges over in ``fn`` - the target of exactly one
    ``for`` (or comprehension) whose iterable is a tuple / list display of string constants, written in place or held by a constant:
    ``self.X`` / ``cls.X`` / ``Class.X`` (class-level, along the MRO) or a module-level ``X`` (bound once)."""

    def literal(e, depth=0):
        if isinstance(e, (ast.Tuple, ast.List)) and e.elts and all(_const_str(x) is not None for x in e.elts):
            return [x.value for x in e.elts]
        if depth > 2:
            return None
        if isinstance(e, ast.Attribute) and isinstance(e.value, ast.Name):
            owners = []
            if e.value.id in ("self", "cls", c.name):
                owners = model.mro(m.rel, c._qual)
            else:
                r = model.resolve_name(m, e.value)
                if r is not None and isinstance(r[1], ast.ClassDef):
                    owners = model.mro(r[0].rel, r[1]._qual)
            for mm, cc in owners:
                vals = [st.value for st in cc.body if isinstance(st, (ast.Assign, ast.AnnAssign)) and st.value is not None
                        and any(isinstance(t, ast.Name) and t.id == e.attr for t in (st.targets if isinstance(st, ast.Assign) else [st.target]))]
                if vals:
                    writes = [n for n in ast.walk(mm.tree) if isinstance(n, ast.Attribute) and n.attr == e.attr and isinstance(n.ctx, (ast.Store, ast.Del))]
                    return literal(vals[0], depth + 1) if len(vals) == 1 and not writes else None
            return None
        if isinstance(e, ast.Name) and not any(isinstance(n, ast.Name) and n.id == e.id and isinstance(n.ctx, ast.Store) for n in ast.walk(fn)) \
                and e.id not in [a.arg for a in fn.args.args]:
            vals = m.assigns(e.id)
            return literal(vals[0], depth + 1) if len(vals) == 1 else None
        return None

    def resolve(e):
        if not isinstance(e, ast.Name):
            return None
        stores = [n for n in ast.walk(fn) if isinstance(n, ast.Name) and n.id == e.id and isinstance(n.ctx, ast.Store)]
        loops = [n for n in ast.walk(fn) if isinstance(n, (ast.For, ast.comprehension)) and n.target in stores]
        if len(stores) != 1 or len(loops) != 1:
            return None
        return literal(loops[0].iter)

    return resolve


def _dict_reader(fn, resolve=None):
    """set_state consuming a dict parameter: -> dict(required, optional, super_at, last_read_at, exhaustive).  A key that is not a string
    constant is accepted when ``resolve`` shows it to be a loop variable over known string constants (every one of them is consumed)."""
    params = [a.arg for a in fn.args.args]
    if len(params) != 2:
        return None
    st = params[1]
    required, optional = set(), set()
    super_at, last_read = None, None
    exhaustive = False

    def keys_of(e):
        k = _const_str(e)
        if k is not None:
            return [k]
        return resolve(e) if resolve is not None else None

    for n in walk_in_order(fn):
        if isinstance(n, ast.Call) and isinstance(n.func, ast.Attribute) and n.func.attr == "pop" and isinstance(n.func.value, ast.Name) and n.func.value.id == st:
            ks = keys_of(n.args[0]) if n.args else None
            if ks is None:
                return None
            (optional if len(n.args) > 1 else required).update(ks)
            last_read = (n.lineno, n.col_offset)
        elif isinstance(n, ast.Subscript) and isinstance(n.value, ast.Name) and n.value.id == st and isinstance(n.ctx, ast.Load):
            ks = keys_of(n.slice)
            if ks is None:
                return None
            required.update(ks)
        elif _is_super_call(n, "set_state"):
            super_at = min(super_at or (n.lineno, n.col_offset), (n.lineno, n.col_offset))
        elif isinstance(n, ast.Assert) and norm(n.test) in (f"{st} == {{}}", f"not {st}"):
            exhaustive = True
    return {"required": required, "optional": optional, "super_at": super_at, "last_read": last_read, "exhaustive": exhaustive}


def _self_attr(e):
    """'x' for self.x / int(self.x) / Cls(self.x)"""
    if isinstance(e, ast.Call) and len(e.args) == 1 and not e.keywords:
        e = e.args[0]
    if isinstance(e, ast.Attribute) and isinstance(e.value, ast.Name) and e.value.id == "self":
        return e.attr
    return None


def _tuple_writer(fn):
    rets = [n for n in walk_in_order(fn) if isinstance(n, ast.Return) and n.value is not None]
    if len(rets) != 1 or not isinstance(rets[0].value, ast.Tuple):
        return None
    out = [_self_attr(e) for e in rets[0].value.elts]
    return None if None in out else out


def _tuple_reader(fn):
    """set_state: `(self.a, tmp, self.c) = state` (+ `self.b = f(tmp)`) -> ['a', 'b', 'c']"""
    st = [a.arg for a in fn.args.args][1]
    for n in walk_in_order(fn):
        if isinstance(n, ast.Assign) and isinstance(n.targets[0], ast.Tuple) and isinstance(n.value, ast.Name) and n.value.id == st:
            out = []
            for t in n.targets[0].elts:
                a = _self_attr(t)
                if a is None and isinstance(t, ast.Name):
                    for m in walk_in_order(fn):
                        if isinstance(m, ast.Assign) and len(m.targets) == 1 and _self_attr(m.targets[0]) and t.id in {x.id for x in ast.walk(m.value) if isinstance(x, ast.Name)}:
                            a = _self_attr(m.targets[0])
                out.append(a)
            return out
    return None


def _ctor_attr_order(init):
    """__init__(self, p1, p2, ...): -> [attribute that receives p_i ...]"""
    params = [a.arg for a in init.args.args][1:]
    out = []
    for p in params:
        attr = None
        for n in walk_in_order(init):
            if isinstance(n, (ast.Assign, ast.AnnAssign)):
                tg = n.targets[0] if isinstance(n, ast.Assign) else n.target
                val = n.value
                if val is not None and _self_attr(tg) and p in {x.id for x in ast.walk(val) if isinstance(x, ast.Name)}:
                    attr = _self_attr(tg)
                    break
        out.append(attr)
    return out


def _dataclass_fields(model, rel, qual):
    out = []
    for m, c in reversed(model.mro(rel, qual)):
        for st in c.body:
            if isinstance(st, ast.AnnAssign) and isinstance(st.target, ast.Name) and "ClassVar" not in norm(st.annotation):
                if st.target.id not in out:
                    out.append(st.target.id)
    return out


NON_SERIALIZED_OK = {"Connection.state": "run-time socket state, meaningless for a stored flow (from_state always yields a closed connection)"}


def _r36_1(ctx):
    model = ctx.model
    seen = []
    for m in modules_mentioning(model, "def get_state"):
        for q, c in sorted(m.defs().items()):
            if not isinstance(c, ast.ClassDef) or _method(c, "get_state") is None:
                continue
            if "Serializable" not in [x.name for _, x in model.mro(m.rel, q)]:
                continue
            seen.append((m.rel, q))
            _one_implementor(ctx, m, c)
    ctx.require(len(seen) >= 15, f"R36.1: only {len(seen)} get_state implementors found: {seen}")
    _flow_registry(ctx)
    ctx.expect_instances("R36.1", 17)


def _deref(fn, e, depth=0):
    """``e`` with local names that are bound exactly once in ``fn`` (plain assignment) replaced by their value (alias resolution)."""
    while isinstance(e, ast.Name) and depth < 4:
        defs = [n for n in walk_in_order(fn) if isinstance(n, (ast.Assign, ast.AnnAssign, ast.NamedExpr)) and getattr(n, "value", None) is not None
                and any(isinstance(t, ast.Name) and t.id == e.id for t in (n.targets if isinstance(n, ast.Assign) else [n.target]))]
        stores = [n for n in walk_in_order(fn) if isinstance(n, ast.Name) and n.id == e.id and isinstance(n.ctx, ast.Store)]
        if len(defs) != 1 or len(stores) != 1:
            break
        e, depth = defs[0].value, depth + 1
    return e


def _flow_registry(ctx):
    """Flow subclass registry <-> the ``type`` key of the state: a subclass is registered under ``cls.<a>``, get_state writes ``self.<a>`` as
    ``type`` and from_state looks ``state['type']`` up in the same registry.  Extraction problems are shape problems (exit 2), not violations."""
    isub = ctx.func(FLOW, "Flow.__init_subclass__")
    gs, fs = ctx.func(FLOW, "Flow.get_state"), ctx.func(FLOW, "Flow.from_state")
    cls_p = isub.args.args[0].arg
    regs = []
    for n in walk_in_order(isub):
        if isinstance(n, ast.Assign) and isinstance(n.value, ast.Name) and n.value.id == cls_p:
            regs += [(t.value, t.slice) for t in n.targets if isinstance(t, ast.Subscript)]
        if isinstance(n, ast.Call) and isinstance(n.func, ast.Attribute) and n.func.attr == "setdefault" and len(n.args) == 2 \
                and isinstance(n.args[1], ast.Name) and n.args[1].id == cls_p:
            regs.append((n.func.value, n.args[0]))
    ctx.require(len(regs) == 1, f"Flow.__init_subclass__: expected one registration `<registry>[<key>] = {cls_p}`, found {len(regs)}")
    cont, key = _deref(isub, regs[0][0]), _deref(isub, regs[0][1])
    ctx.require(isinstance(key, ast.Attribute) and isinstance(key.value, ast.Name) and key.value.id == cls_p and attr_chain(cont),
                f"Flow.__init_subclass__: registration key/registry of unmodelled shape: {norm(regs[0][0])}[{norm(regs[0][1])}]")
    dw = _dict_writer(gs, want_values=True)
    ctx.require(dw is not None and "type" in dw[2], "Flow.get_state: the value written as 'type' could not be extracted")
    wv = _deref(gs, dw[2]["type"])
    self_p = gs.args.args[0].arg
    if isinstance(wv, ast.Attribute) and isinstance(wv.value, ast.Call) and norm(wv.value) == f"type({self_p})":
        written = wv.attr
    else:
        ctx.require(isinstance(wv, ast.Attribute) and isinstance(wv.value, ast.Name) and wv.value.id == self_p,
                    f"Flow.get_state: 'type' is written from an expression of unmodelled shape: {norm(wv)}")
        written = wv.attr
    st_p = fs.args.args[1].arg

    def is_type_key(e):
        e = _deref(fs, e)
        if isinstance(e, ast.Subscript) and isinstance(e.value, ast.Name) and e.value.id == st_p and _const_str(e.slice) == "type":
            return True
        return isinstance(e, ast.Call) and isinstance(e.func, ast.Attribute) and e.func.attr == "get" and isinstance(e.func.value, ast.Name) \
            and e.func.value.id == st_p and e.args and _const_str(e.args[0]) == "type"

    looks = []
    for n in walk_in_order(fs):
        if isinstance(n, ast.Subscript) and isinstance(n.ctx, ast.Load) and is_type_key(n.slice):
            looks.append(_deref(fs, n.value))
        if isinstance(n, ast.Call) and isinstance(n.func, ast.Attribute) and n.func.attr == "get" and n.args and is_type_key(n.args[0]):
            looks.append(_deref(fs, n.func.value))
    looks = [x for x in looks if attr_chain(x) and attr_chain(x) != st_p]
    ctx.require(looks, "Flow.from_state: no registry lookup by state['type'] found (shape not modelled)")
    reg_attr, look_attrs = attr_chain(cont).split(".")[-1], sorted({attr_chain(x).split(".")[-1] for x in looks})
    ok = key.attr == written and look_attrs == [reg_attr]
    ctx.check(ok, "R36.1", (FLOW, "Flow.__init_subclass__", isub), "Flow subclass registry: registered key / written 'type' / lookup",
              f"subclasses are registered in {reg_attr} under {cls_p}.{key.attr}, get_state writes {self_p}.{written} as 'type' and from_state looks it up in "
              f"{look_attrs}: a saved flow cannot find its class", desc="Flow subclass registry keyed by the written `type`")


def _one_implementor(ctx, m, c):
    model = ctx.model
    name = c.name
    where = lambda fn: (m.rel, f"{c._qual}.{fn.name}", fn)  # noqa: E731
    gs = _method(c, "get_state")
    ss = model.method(m.rel, c._qual, "set_state")
    fs = model.method(m.rel, c._qual, "from_state")
    ctx.require(ss is not None and fs is not None, f"{name}: get_state without set_state/from_state")
    ss, fs = ss[1], fs[1]
    if name == "Serializable":
        ctx.ok("R36.1", "Serializable (abstract)")
        return
    dw = _dict_writer(gs)
    if dw is not None and _method(c, "set_state") is not None:
        keys, has_super = dw
        rd = _dict_reader(ss, _const_strs_resolver(model, m, c, ss))
        ctx.require(rd is not None, f"{name}.set_state: unmodelled dict reader")
        lost = keys - rd["required"] - rd["optional"]
        missing = rd["required"] - keys
        ctx.check(not lost and not missing, "R36.1", where(ss), f"{name} state keys",
                  f"keys written but never read {sorted(lost)}; keys required but never written {sorted(missing)}",
                  desc=f"{name}: {len(keys)} dict keys written == consumed", keys=sorted(keys))
        ctx.cells += len(keys)
        if has_super:
            ok = rd["super_at"] is not None and (rd["last_read"] is None or rd["last_read"] < rd["super_at"])
            ctx.check(ok, "R36.1", where(ss), f"{name}.set_state super().set_state(state) after own keys",
                      "the subclass must remove its own keys before delegating: Flow.set_state insists on an empty remainder",
                      desc=f"{name}: own keys popped before super().set_state")
        return
    tw = _tuple_writer(gs)
    if tw is not None:
        tr = _tuple_reader(ss)
        init = model.method(m.rel, c._qual, "__init__")
        ctx.require(tr is not None and None not in tr and init is not None, f"{name}: unmodelled tuple reader / constructor")
        cls_p = fs.args.args[0].arg if fs.args.args else "cls"
        star = [n for n in walk_in_order(fs) if isinstance(n, ast.Call) and isinstance(n.func, ast.Name) and n.func.id in (cls_p, name)
                and len(n.args) == 1 and isinstance(n.args[0], ast.Starred) and not n.keywords]
        ctx.require(len(star) == 1, f"{name}.from_state is no longer {cls_p}(*state)")
        order = _ctor_attr_order(init[1])[: len(tw)]
        ctx.require(None not in order, f"{name}.__init__: cannot tell which attribute receives each of the first {len(tw)} parameters")
        ctx.check(tw == tr and tw == order, "R36.1", where(gs), f"{name} state tuple",
                  f"positions written {tw}, unpacked by set_state {tr}, taken by the constructor {order}",
                  desc=f"{name}: {len(tw)} tuple positions written == unpacked == constructor order")
        ctx.cells += len(tw)
        return
    # the remaining implementors: recognising the idiom is a matter of shape (exit 2 when it is gone), only a DISAGREEMENT between the three
    # sides is a violation
    self_p = gs.args.args[0].arg
    st_p = ss.args.args[1].arg

    def returned(fn):
        rets = [n for n in walk_in_order(fn) if isinstance(n, ast.Return) and n.value is not None]
        ctx.require(len(rets) == 1, f"{name}.{fn.name}: expected exactly one return")
        return _deref(fn, rets[0].value)

    def calls_with_state(fn, param):
        """calls in ``fn`` that receive the state parameter (or a local alias of it) as their only / first / ** / * argument"""
        out = []
        for n in walk_in_order(fn):
            if isinstance(n, ast.Call):
                args = [x.value if isinstance(x, ast.Starred) else x for x in n.args] + [k.value for k in n.keywords if k.arg is None]
                if any(isinstance(_deref(fn, x), ast.Name) and _deref(fn, x).id == param for x in args):
                    out.append(n)
        return out

    if name == "SerializableDataclass":
        sides = {}
        for f in (gs, fs, ss):
            iters = [n.iter for n in walk_in_order(f) if isinstance(n, ast.For)]
            keys = [norm(n.slice) if isinstance(n, ast.Subscript) else norm(n.args[0]) for n in walk_in_order(f)
                    if (isinstance(n, ast.Subscript) and isinstance(n.value, ast.Name) and n.value.id == "state")
                    or (isinstance(n, ast.Call) and norm(n.func) == "state.pop" and n.args)]
            ctx.require(len(iters) == 1 and isinstance(iters[0], ast.Call) and isinstance(iters[0].func, ast.Attribute) and not iters[0].args and keys,
                        f"SerializableDataclass.{f.name}: the loop over the field list / the keyed state access changed shape")
            sides[f.name] = (iters[0].func.attr, sorted(set(keys)))
        ok = len(set(map(str, sides.values()))) == 1
        ctx.check(ok, "R36.1", where(gs), "SerializableDataclass field iteration", f"the three state methods do not iterate the same field list / key: {sides}",
                  desc=f"SerializableDataclass: get/from/set iterate {sides['get_state'][0]}() and key by {sides['get_state'][1]}")
        # non-serialised fields must be known to be non-essential
        for mm in modules_mentioning(model, '"serialize"'):
            for n in walk_in_order(mm.tree):
                if isinstance(n, ast.AnnAssign) and n.value is not None and '"serialize": False' in norm(n.value).replace("'", '"'):
                    cls_ = n._parent
                    key = f"{cls_.name}.{n.target.id}"
                    ctx.check(key in NON_SERIALIZED_OK, "R36.1", (mm.rel, cls_.name, n), f"{key} serialize=False",
                              "a field excluded from the state is lost by a save/load round trip", desc=f"{key} not serialised: {NON_SERIALIZED_OK.get(key)}")
        return
    if name == "MessageData":
        w = {_const_str(t.slice) for n in walk_in_order(gs) if isinstance(n, ast.Assign) for t in n.targets if isinstance(t, ast.Subscript)
             and "get_state" in norm(n.value)}
        r1 = {x.value for n in walk_in_order(ss) if isinstance(n, ast.Compare) and isinstance(n.ops[0], ast.In) for x in getattr(n.comparators[0], "elts", [])
              if isinstance(x, ast.Constant)}
        r1 |= {n.comparators[0].value for n in walk_in_order(ss) if isinstance(n, ast.Compare) and isinstance(n.ops[0], ast.Eq) and isinstance(n.comparators[0], ast.Constant)
               and isinstance(n.comparators[0].value, str)}
        r2 = {_const_str(t.slice) for n in walk_in_order(fs) if isinstance(n, ast.Assign) for t in n.targets if isinstance(t, ast.Subscript)
              and "from_state" in norm(n.value)}
        allattrs = any(isinstance(n, ast.Call) and norm(n.func) == "vars" for n in walk_in_order(gs)) \
            and any(isinstance(n, ast.Call) and isinstance(n.func, ast.Attribute) and n.func.attr == "items" for n in walk_in_order(ss)) \
            and any(n.keywords and n.keywords[0].arg is None for n in calls_with_state(fs, fs.args.args[1].arg))
        ctx.require(allattrs, "MessageData: state is no longer `all attributes` (vars(self) / state.items() / cls(**state)) - shape not modelled")
        ctx.require(w and r1 and r2 and None not in w | r2, f"MessageData: nested-state keys could not be extracted on one side ({sorted(map(str, w))} / {sorted(r1)} / {sorted(map(str, r2))})")
        ctx.check(w == r1 == r2, "R36.1", where(gs), "MessageData nested-state keys",
                  f"keys serialised through Headers.get_state {sorted(w)} vs restored by set_state {sorted(r1)} / from_state {sorted(r2)}",
                  desc=f"MessageData: all attributes, nested {sorted(w)} on the three sides")
        return
    if name == "Message":
        ret = returned(gs)
        deleg_w = isinstance(ret, ast.Call) and isinstance(ret.func, ast.Attribute) and ret.func.attr == "get_state" and _self_attr(_deref(gs, ret.func.value))
        deleg_r = [n for n in calls_with_state(ss, st_p) if isinstance(n.func, ast.Attribute) and n.func.attr == "set_state" and _self_attr(_deref(ss, n.func.value))]
        built = [n for n in calls_with_state(fs, fs.args.args[1].arg) if n.keywords and n.keywords[0].arg is None]
        ctx.require(deleg_w and len(deleg_r) == 1 and len(built) == 1, "Message: get_state/set_state/from_state no longer delegate to the data object / build cls(**state) - shape not modelled")
        bad = []
        if deleg_w != _self_attr(_deref(ss, deleg_r[0].func.value)):
            bad.append(f"get_state serialises self.{deleg_w} but set_state restores self.{_self_attr(_deref(ss, deleg_r[0].func.value))}")
        for sub, data in (("Request", "RequestData"), ("Response", "ResponseData")):
            init = ctx.func(HTTP, f"{sub}.__init__")
            params = [a.arg for a in init.args.args][1:]
            fields = _dataclass_fields(model, HTTP, data)
            built_kw = [kw.arg for n in walk_in_order(init) if isinstance(n, ast.Call) and norm(n.func) == data for kw in n.keywords]
            ctx.require(built_kw, f"{sub}.__init__ no longer builds {data}(...) with keywords - shape not modelled")
            ctx.cells += len(fields)
            if set(params) != set(fields) or set(built_kw) != set(fields):
                bad.append(f"{sub}: constructor parameters {sorted(set(params) ^ set(fields))} / {data}(...) keywords {sorted(set(built_kw) ^ set(fields))} differ from the {data} fields")
        ctx.check(not bad, "R36.1", where(gs), "Message state = data state; Request/Response(**state)", "; ".join(bad),
                  desc="Message: delegates to data; Request/Response constructor parameters == RequestData/ResponseData fields")
        return
    if name == "Cert":
        ret = returned(gs)
        writer = gs
        if isinstance(ret, ast.Call) and isinstance(ret.func, ast.Attribute) and isinstance(ret.func.value, ast.Name) and ret.func.value.id == self_p and not ret.args:
            r = model.method(m.rel, c._qual, ret.func.attr)
            ctx.require(r is not None, f"Cert.get_state returns self.{ret.func.attr}() which is not a method")
            writer = r[1]
        enc = [n.attr for n in walk_in_order(writer) if isinstance(n, ast.Attribute) and norm(n.value).endswith("Encoding")]
        readers = [ss]
        for n in calls_with_state(fs, fs.args.args[1].arg):
            if isinstance(n.func, ast.Attribute) and isinstance(n.func.value, ast.Name) and n.func.value.id in (fs.args.args[0].arg, name):
                r = model.method(m.rel, c._qual, n.func.attr)
                if r is not None:
                    readers.append(r[1])
        loaders = [norm(n.func) for f in readers for n in walk_in_order(f) if isinstance(n, ast.Call) and "load_" in norm(n.func) and "x509_certificate" in norm(n.func)]
        ctx.require(len(enc) == 1 and len(readers) == 2 and len(loaders) == 2, f"Cert: encoding {enc} / loaders {loaders} could not be extracted (shape not modelled)")
        ok = all(f"load_{enc[0].lower()}_x509_certificate" in x for x in loaders)
        ctx.check(ok, "R36.1", where(gs), "Cert state encoding", f"written with Encoding {enc}, read with {loaders}", desc=f"Cert: {enc} on both sides")
        return
    if name == "MultiDict":
        init = model.method(m.rel, c._qual, "__init__")[1]
        a_w = _self_attr(returned(gs))
        a_s = {_self_attr(t) for n in walk_in_order(ss) if isinstance(n, ast.Assign) and st_p in {x.id for x in ast.walk(n.value) if isinstance(x, ast.Name)}
               for t in n.targets if _self_attr(t)}
        built = [n for n in calls_with_state(fs, fs.args.args[1].arg) if isinstance(n.func, ast.Name) and n.func.id in (fs.args.args[0].arg, name)]
        a_c = _ctor_attr_order(init)[:1]
        ctx.require(a_w and a_s and len(built) == 1 and a_c and a_c[0], "MultiDict: get_state/set_state/from_state/constructor changed shape")
        ctx.check(a_w in a_s and a_c == [a_w], "R36.1", where(gs), "MultiDict state = fields",
                  f"get_state writes self.{a_w}, set_state restores {sorted(a_s)}, the constructor puts the state into self.{a_c[0]}", desc=f"MultiDict: {a_w} on the three sides")
        return
    if name == "ProxyMode":
        a_w = _self_attr(returned(gs))
        parses = [n for n in calls_with_state(fs, fs.args.args[1].arg) if isinstance(n.func, ast.Attribute)]
        ctx.require(a_w and len(parses) == 1, "ProxyMode: get_state/from_state changed shape")
        r = model.method(m.rel, c._qual, parses[0].func.attr)
        ctx.require(r is not None, f"ProxyMode.from_state delegates to {norm(parses[0].func)}, which is not a ProxyMode method")
        parse = r[1]
        spec_param = [a.arg for a in parse.args.args][1]
        built = [_deref(parse, kw.value) for n in walk_in_order(parse) if isinstance(n, ast.Call) for kw in n.keywords if kw.arg == a_w]
        ctx.require(built and any(isinstance(n, ast.Attribute) and _self_attr(n) == a_w for n in walk_in_order(ss)),
                    f"ProxyMode: {parse.name} does not build {a_w}=... / set_state does not look at self.{a_w} (shape not modelled)")
        ctx.check(all(isinstance(b, ast.Name) and b.id == spec_param for b in built), "R36.1", where(gs), "ProxyMode state = full_spec",
                  f"get_state writes self.{a_w} but {parse.name}() fills {a_w} with {[norm(b) for b in built]} instead of the spec it was given",
                  desc=f"ProxyMode: {a_w} written, parsed back into {a_w}")
        return
    raise AnalysisError(f"R36.1: get_state implementor of unmodelled shape: {m.rel}::{c._qual}")


# ---------------------------------------------------------------------------------------------------
# R36.3 tnetstring tag tables


_TAG_WRITER_REPS = [("None", None), ("bool", True), ("bool", False), ("int", 7), ("float", 1.5), ("bytes", b"x"), ("str", "x"),
                    ("list|tuple", [7]), ("list|tuple", (7,)), ("dict", {b"a": 7})]
_TAG_READER_REPS = {",": b"1:x,", ";": b"1:x;", "#": b"1:7#", "^": b"3:1.5^", "!": b"4:true!", "~": b"0:~", "]": b"4:1:7#]", "}": b"8:1:a,1:7#}"}
_TYPE_GROUP = {type(None): "None", bool: "bool", int: "int", float: "float", bytes: "bytes", str: "str", list: "list|tuple", tuple: "list|tuple", dict: "dict"}


def _r36_3_tags(ctx, run, anchor):
    """(python type -> tag) as WRITTEN == (tag -> python type) as PARSED, both tables obtained by interpreting the writer / the parser on one
    representative per type / per tag (no assumption about how either function is written)."""
    writer, reader, odd = {}, {}, []
    for typ, v in _TAG_WRITER_REPS:
        w = run("dumps", v)
        if w[0] != "ok" or not isinstance(w[1], bytes) or not w[1]:
            odd.append(f"dumps({v!r}) -> {w[1]!r}")
            continue
        tag = chr(w[1][-1])
        if writer.setdefault(typ, tag) != tag:
            odd.append(f"type {typ} written with two tags {writer[typ]!r} / {tag!r}")
    for tag, wire in _TAG_READER_REPS.items():
        r = run("loads", wire)
        if r[0] != "ok" or type(r[1]) not in _TYPE_GROUP:
            odd.append(f"loads({wire!r}) -> {r[1]!r}")
            continue
        reader[_TYPE_GROUP[type(r[1])]] = tag
    ctx.cells += len(writer) + len(reader)
    ctx.check(not odd and writer == reader and len(writer) == 8, "R36.3", anchor, "tnetstring type-tag table",
              f"written {sorted(writer.items())} != parsed {sorted(reader.items())}" + (f"; {'; '.join(odd[:3])}" if odd else ""),
              desc=f"8 tags agree: {sorted(writer.items())}")


# ---- reference model of the wire format (coded from the tnetstring specification + mitmproxy's `;` text extension), used only to cross-read
# what the interpreted repository writer produced and to produce canonical input for the interpreted repository parser.


def _ref_dumps(v) -> bytes:
    if v is None:
        return b"0:~"
    if v is True:
        return b"4:true!"
    if v is False:
        return b"5:false!"
    if isinstance(v, int):
        body, tag = str(v).encode(), b"#"
    elif isinstance(v, float):
        body, tag = repr(v).encode(), b"^"
    elif isinstance(v, bytes):
        body, tag = v, b","
    elif isinstance(v, str):
        body, tag = v.encode("utf8"), b";"
    elif isinstance(v, (list, tuple)):
        body, tag = b"".join(_ref_dumps(x) for x in v), b"]"
    elif isinstance(v, dict):
        body, tag = b"".join(_ref_dumps(k) + _ref_dumps(x) for k, x in v.items()), b"}"
    else:
        raise AnalysisError(f"R36.3 domain value of unserialisable type {type(v).__name__}")
    return str(len(body)).encode() + b":" + body + tag


def _ref_pop(data: bytes):
    n, sep, rest = data.partition(b":")
    if not sep or not n.isdigit():
        raise ValueError(f"invalid length prefix {data[:12]!r}")
    n = int(n)
    if len(rest) < n + 1:
        raise ValueError(f"length prefix {n} exceeds the {len(rest)} bytes that follow")
    body, tag, remain = rest[:n], rest[n : n + 1], rest[n + 1 :]
    if tag == b",":
        return body, remain
    if tag == b";":
        return body.decode("utf8"), remain
    if tag == b"#":
        return int(body), remain
    if tag == b"^":
        return float(body), remain
    if tag == b"!":
        if body not in (b"true", b"false"):
            raise ValueError(f"invalid boolean {body!r}")
        return body == b"true", remain
    if tag == b"~":
        if body:
            raise ValueError("invalid null")
        return None, remain
    if tag == b"]":
        out = []
        while body:
            x, body = _ref_pop(body)
            out.append(x)
        return out, remain
    if tag == b"}":
        d = {}
        while body:
            k, body = _ref_pop(body)
            x, body = _ref_pop(body)
            if isinstance(k, (list, dict)):
                raise ValueError(f"unhashable dictionary key {k!r}")
            d[k] = x
        return d, remain
    raise ValueError(f"unknown type tag {tag!r}")


def _same(a, b) -> bool:
    """Equality that also compares types (True != 1, b'a' != 'a', 1 != 1.0); a tuple is read back as a list."""
    if isinstance(a, tuple):
        a = list(a)
    if isinstance(b, tuple):
        b = list(b)
    if type(a) is not type(b):
        return False
    if isinstance(a, list):
        return len(a) == len(b) and all(_same(x, y) for x, y in zip(a, b))
    if isinstance(a, dict):
        return len(a) == len(b) and all(any(_same(k, k2) and _same(v, v2) for k2, v2 in b.items()) for k, v in a.items())
    if isinstance(a, float):
        return repr(a) == repr(b)
    return a == b


TN_DOMAIN = {
    "scalars": [None, True, False, 0, 1, -17, 2**70, 0.0, 1.5, -2.25e-7, 1e300, float("inf")],
    "byte and text strings": [b"", b"abc", b"\x00\xff:,;]}~", b"12:ab", "", "ascii", "gr\u00f6\u00dfe", "\u65e5\u672c\u8a9e", "\U0001f600 ok", "a" * 300],
    "containers": [
        [], {}, [1, "x", b"y", None, True, 2.5], (1, (2, 3)), [[["deep"]]], {"k": "v"}, {b"bytes-key": 1, "str-key": b"v"},
        ["gr\u00f6\u00dfe"], {"comment": "gr\u00f6\u00dfe"}, {"\u00fcber": 1}, [["\U0001f600"], {"a": {"b": ["\u00e9", {"c": "\u65e5\u672c"}]}}],
        {"type": "http", "comment": "caf\u00e9 \u2615", "marked": "", "metadata": {"note": "\u00fc", "n": 3}, "timestamp_created": 1700000000.25, "error": None,
         "request": {"headers": [[b"host", b"example.com"], [b"x", b"\xff"]], "content": b"\x00\x01", "trailers": None, "port": 443}},
    ],
}


def _r36_3(ctx):
    """The writer (dumps/_rdumpq) and the reader (loads/load/pop/parse/split) are INTERPRETED from their ASTs (pyint; nothing is executed) on
    representatives of every serialisable type, including text whose UTF-8 length differs from its character count nested in containers."""
    import collections
    import io
    import struct

    from ..pyint import Interp
    from ..pyint import NullLog
    from ..pyint import Raised

    # public entry points only: the private helpers behind them (today _rdumpq / pop / parse / split) are found by the interpreter
    dump = ctx.func(TN, "dumps")
    for q in ("loads", "load"):
        ctx.func(TN, q)
    anchor = (TN, "dumps", dump)

    def run(fn, *args):
        it = Interp(ctx.model, trusted_modules={"collections": collections, "io": io, "struct": struct, "logging": NullLog()}, max_depth=60)
        it.overrides[(TN, "memoryview")] = memoryview
        ctx.cells += 1
        try:
            return ("ok", it.call(TN, fn, *args))
        except Raised as r:
            return ("raise", f"{r.name}: {r.msg}"[:120])

    def show(v):
        t = repr(v)
        return t if len(t) <= 70 else t[:67] + "..."

    for cls, values in TN_DOMAIN.items():
        wit = None
        for v in values:
            w = run("dumps", v)
            if w[0] != "ok" or not isinstance(w[1], bytes):
                wit = wit or f"dumps({show(v)}) -> {w[1] if w[0] == 'raise' else type(w[1]).__name__}"
                continue
            wire = w[1]
            try:
                back, rest = _ref_pop(wire)
                if rest or not _same(v, back):
                    wit = wit or f"dumps({show(v)}) = {show(wire)} which a tnetstring reader decodes as {show(back)}" + (f" + {len(rest)} stray bytes" if rest else "")
            except (ValueError, UnicodeDecodeError) as e:
                wit = wit or f"dumps({show(v)}) = {show(wire)} is not a well-formed tnetstring ({e})"
            r = run("loads", wire)
            if r[0] != "ok" or not _same(v, r[1]):
                wit = wit or f"loads(dumps({show(v)})) -> {show(r[1])}"
            r = run("loads", _ref_dumps(v)) if _ref_dumps(v) != wire else r
            if r[0] != "ok" or not _same(v, r[1]):
                wit = wit or f"loads({show(_ref_dumps(v))}) -> {show(r[1])}, expected {show(v)}"
        ctx.check(wit is None, "R36.3", anchor, f"tnetstring round trip: {cls}",
                  f"a value is not written as a well-formed tnetstring that reads back as itself: {wit} - a saved flow (and every flow after it in the file) cannot be loaded",
                  desc=f"tnetstring {cls}: {len(values)} representatives: written form is well-formed, reads back identically (interpreted writer x interpreted reader x reference)")
    # file level: FlowReader calls load(fo) repeatedly on one stream
    seq = [TN_DOMAIN["containers"][-1], {"type": "tcp", "comment": "\u00e4\u00f6\u00fc"}, ["tail"]]
    blob, wit = b"", None
    for v in seq:
        w = run("dumps", v)
        blob += w[1] if w[0] == "ok" and isinstance(w[1], bytes) else b""
    fo = io.BytesIO(blob)
    for v in seq:
        r = run("load", fo)
        if r[0] != "ok" or not _same(v, r[1]):
            wit = wit or f"load() of a stream of {len(seq)} dumped values yields {show(r[1])} where {show(v)} was written"
            break
    if wit is None and fo.read(1) != b"":
        wit = "load() leaves unread bytes behind the last value"
    ctx.check(wit is None, "R36.3", (TN, "load", ctx.func(TN, "load")), "tnetstring stream of values: load() x N",
              f"{wit} - flows are not read back in the order / number they were saved", desc=f"stream of {len(seq)} dumped values is read back value by value by load()")
    _r36_3_tags(ctx, run, anchor)
    ctx.expect_instances("R36.3", 5)


def check(ctx):
    ctx.rule("R36.1", "keys/positions written by get_state == consumed by set_state/from_state for every hand-written implementor")
    ctx.rule("R36.2", "every exception type that can escape FlowReader.stream on untrusted content is FlowReadException (escape set vs handlers)")
    ctx.rule("R36.3", "tnetstring: the interpreted writer produces well-formed output that the interpreted reader maps back to the same value; (type -> tag) written == (tag -> type) parsed")
    _r36_1(ctx)
    _r36_2(ctx)
    _r36_3(ctx)


TCP = "mitmproxy/tcp.py"
WS = "mitmproxy/websocket.py"
DNS = "mitmproxy/dns.py"
MUTANTS = [
    # R36.2: reverse of the F-C36 / F-C36b fixes (one type at a time) and other handler-coverage regressions
    Mutant("reverse-fix-keyerror-unmapped", IO, "                KeyError,\n", "", "R36.2"),
    Mutant("reverse-fix-assertionerror-unmapped", IO, "                AssertionError,\n", "", "R36.2"),
    Mutant("reverse-fix-attributeerror-unmapped", IO, "                AttributeError,\n", "", "R36.2"),
    Mutant("reverse-fix-overflowerror-unmapped", IO, "                OverflowError,\n", "", "R36.2"),
    Mutant("reverse-fix-recursionerror-unmapped", IO, "                RecursionError,\n", "", "R36.2"),
    Mutant("typeerror-unmapped", IO, "                TypeError,\n", "", "R36.2"),
    Mutant("outer-handler-reraises-original", IO, '                raise exceptions.FlowReadException("Invalid data format.") from e\n', "                raise\n", "R36.2"),
    Mutant("migrate-raises-unmapped-type", COMPAT, "            raise ValueError(\n                \"{} cannot read files", "            raise NotImplementedError(\n                \"{} cannot read files", "R36.2"),
    Mutant("har-handler-narrowed", IO, "            except Exception:\n                raise exceptions.FlowReadException(\n                    \"Unable to read HAR",
           "            except KeyError:\n                raise exceptions.FlowReadException(\n                    \"Unable to read HAR", "R36.2"),
    # R36.1
    Mutant("flow-getstate-drops-comment", FLOW, '            "comment": self.comment,\n', "", "R36.1"),
    Mutant("flow-setstate-forgets-marked", FLOW, '        self.marked = state.pop("marked")\n', "", "R36.1"),
    Mutant("httpflow-super-before-own-keys", HTTP, '        self.request = Request.from_state(state.pop("request"))\n        self.response',
           '        super().set_state(state)\n        self.request = Request.from_state(state.pop("request"))\n        self.response', "R36.1"),
    Mutant("tcpmessage-getstate-order-swapped", TCP, "        return self.from_client, self.content, self.timestamp", "        return self.content, self.from_client, self.timestamp", "R36.1"),
    Mutant("wsmessage-ctor-order-swapped", WS, "        type: int | Opcode,\n        from_client: bool,\n", "        from_client: bool,\n        type: int | Opcode,\n", "R36.1"),
    Mutant("dnsflow-getstate-drops-response", DNS, '            "response": self.response.get_state() if self.response else None,\n        }\n\n    def set_state', '        }\n\n    def set_state', "R36.1"),
    Mutant("request-ctor-loses-authority", HTTP, "            authority=authority,\n", "", "R36.1"),
    Mutant("messagedata-fromstate-skips-trailers", HTTP, '        if state["trailers"] is not None:\n            state["trailers"] = Headers.from_state(state["trailers"])\n        return cls(**state)', "        return cls(**state)", "R36.1"),
    Mutant("flow-type-registry-keyed-by-classname", FLOW, "        Flow.__types[cls.type] = cls", "        Flow.__types[cls.__name__] = cls", "R36.1"),
    Mutant("new-nonserialised-field", "mitmproxy/connection.py", "    error: str | None = None\n", '    error: str | None = field(default=None, metadata={"serialize": False})\n', "R36.1"),
    # R36.3
    Mutant("tnetstring-container-counts-characters-of-text", TN, '        write(b";")\n        write(data)\n        write(b":")\n        write(span)\n        return size + 2 + len(span) + ldata',
           '        write(b";")\n        write(data)\n        write(b":")\n        write(span)\n        return size + 2 + len(span) + len(value)', "R36.3"),
    Mutant("tnetstring-text-length-prefix-in-characters", TN, '        data = value.encode("utf8")\n        ldata = len(data)\n', '        data = value.encode("utf8")\n        ldata = len(value)\n', "R36.3"),
    Mutant("tnetstring-list-size-misses-separator", TN, '            size = _rdumpq(q, size, item)\n        span = str(size - init_size).encode()\n        write(b":")\n        write(span)\n        return size + 1 + len(span)',
           '            size = _rdumpq(q, size, item)\n        span = str(size - init_size).encode()\n        write(b":")\n        write(span)\n        return size + len(span)', "R36.3"),
    Mutant("tnetstring-text-read-as-latin1", TN, '        return str(data, "utf8")', '        return str(data, "latin-1")', "R36.3"),
    Mutant("tnetstring-dict-key-value-swapped", TN, "            size = _rdumpq(q, size, v)\n            size = _rdumpq(q, size, k)", "            size = _rdumpq(q, size, k)\n            size = _rdumpq(q, size, v)", "R36.3"),
    Mutant("tnetstring-float-written-with-int-tag", TN, 'write(b"%s:%s^" % (span, data))', 'write(b"%s:%s#" % (span, data))', "R36.3"),
    Mutant("tnetstring-parser-drops-null", TN, '    if data_type == ord(b"~"):\n        if data:\n            raise ValueError(f"not a tnetstring: invalid null literal: {data!r}")\n        return None\n', "", "R36.3"),
    Mutant("tnetstring-str-tag-swapped-in-parser", TN, '    if data_type == ord(b","):\n        return data.tobytes()\n    if data_type == ord(b";"):', '    if data_type == ord(b";"):\n        return data.tobytes()\n    if data_type == ord(b","):', "R36.3"),
]
